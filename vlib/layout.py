"""Layouts of an abstract deck (vlib/deckgen.py): canonical text and randomly
rewritten, meaning-preserving layouts (DESIGN C01, rules R1..R8).  All choices are
taken from a list of integers that Hypothesis generated (`Choices`)."""


class Choices:
    def __init__(self, ints):
        self.ints = list(ints) or [0]
        self.i = 0
        self.used = {}

    def n(self, k, rule=None):
        """integer in [0, k)"""
        v = self.ints[self.i % len(self.ints)]
        self.i += 1
        # decorrelate after wrap-around
        v = (v + 7919 * (self.i // len(self.ints))) % 65537
        r = v % k
        return r

    def mark(self, rule):
        self.used[rule] = self.used.get(rule, 0) + 1

    def chance(self, num, den, rule=None):
        hit = self.n(den) < num
        if hit and rule:
            self.mark(rule)
        return hit


COMMENTS = ["-- c", "--", "-- 'quoted' / slash", "--PORO", "-- 1* 2*3 /", "--\t tab"]
TAILS = ["text after slash", "-- and a comment", "PORO", "1 2 3", "ends here"]


def mixcase(name, ch):
    m = ch.n(3)
    if m == 0:
        return name.lower()
    if m == 1:
        return "".join(c.lower() if i % 2 else c for i, c in enumerate(name))
    return name[0] + name[1:].lower()


def breakable(tok):
    return tok[0] in "0123456789+-.'"


def render_atoms(atoms, ch, canonical, can_drop_trailing, keep_one):
    """-> list of tokens"""
    toks = []
    if not canonical:
        # R8: neighbouring defaults may be written with one repeat count (also across item boundaries, e.g. from
        # a scalar item into a list item), and neighbouring equal values as n*v
        merged = []
        for a in atoms:
            if merged and a[0] == "d" and merged[-1][0] == "d" and ch.chance(1, 2, "R8-defaults-merged"):
                merged[-1] = ["d", merged[-1][1] + a[1], "A" if "A" in (merged[-1][2], a[2]) else "S"]
            elif merged and a[0] in ("v", "r") and merged[-1][0] in ("v", "r") and a[-1] == merged[-1][-1] \
                    and not (a[-1].startswith("'") and (" " in a[-1] or "\t" in a[-1])) and ch.chance(1, 2, "R8-values-merged"):
                k = (merged[-1][1] if merged[-1][0] == "r" else 1) + (a[1] if a[0] == "r" else 1)
                merged[-1] = ["r", k, a[-1]]
            else:
                merged.append(list(a))
        atoms = merged
    n = len(atoms)
    # trailing defaults of SINGLE items may be dropped (record ended early)
    last_keep = n
    if not canonical and can_drop_trailing:
        j = n
        while j > 0 and atoms[j - 1][0] == "d" and atoms[j - 1][2] == "S":
            j -= 1
        if j < n and ch.chance(1, 2, "R8-early-end"):
            last_keep = j
            if keep_one and last_keep == 0:
                last_keep = 1
    for a in atoms[:last_keep]:
        if a[0] == "v":
            toks.append(a[1])
        elif a[0] == "d":
            k = a[1]
            if canonical or k == 1:
                toks.append("%d*" % k)
            else:
                m = ch.n(3)
                if m == 0:
                    toks.append("%d*" % k)
                elif m == 1 and k <= 8:
                    toks += ["1*"] * k
                    ch.mark("R8-defaults-split")
                else:
                    c = 1 + ch.n(k - 1) if k > 1 else 1
                    toks += ["%d*" % c, "%d*" % (k - c)] if k - c > 0 else ["%d*" % c]
                    ch.mark("R8-defaults-split")
        else:
            k, t = a[1], a[2]
            if canonical:
                toks.append("%d*%s" % (k, t))
            else:
                m = ch.n(3)
                if m == 0 and k <= 12:
                    toks += [t] * k
                    ch.mark("R8-repeat-expanded")
                elif m == 1 and k > 1:
                    c = 1 + ch.n(k - 1)
                    toks += ["%d*%s" % (c, t), "%d*%s" % (k - c, t)]
                    ch.mark("R8-repeat-split")
                else:
                    toks.append("%d*%s" % (k, t))
    return toks


def sep(ch, canonical):
    if canonical:
        return " "
    m = ch.n(6)
    if m == 0:
        ch.mark("R3-space")
        return "   "
    if m == 1:
        ch.mark("R3-space")
        return "\t"
    if m == 2:
        ch.mark("R3-space")
        return " \t "
    return " "


def record_lines(tokens, ch, canonical, terminated=True, allow_break=True):
    """render one record (tokens + '/') into one or more physical lines"""
    lines = []
    cur = sep(ch, canonical)
    for i, t in enumerate(tokens):
        if (not canonical) and allow_break and i > 0 and breakable(t) and ch.chance(1, 6, "R5-break"):
            if ch.chance(1, 3, "R1-comment"):
                cur += " " + COMMENTS[ch.n(len(COMMENTS))]
            lines.append(cur)
            if ch.chance(1, 5, "R2-blank"):
                lines.append("")
            cur = sep(ch, canonical)
        cur += t + sep(ch, canonical)
    if terminated:
        if (not canonical) and allow_break and tokens and ch.chance(1, 10, "R5-break"):
            lines.append(cur)
            cur = ""
        cur += "/"
        if not canonical and ch.chance(1, 5, "R6-tail"):
            cur += " " + TAILS[ch.n(len(TAILS))]
    lines.append(cur)
    return lines


def kw_lines(kw, ch, canonical):
    name = kw["name"]
    if not canonical and ch.chance(1, 4, "R4-case"):
        name = mixcase(name, ch)
    head = name
    if not canonical and ch.chance(1, 8, "R1-comment"):
        head += " " + COMMENTS[ch.n(len(COMMENTS))]
    lines = [head]
    kind = kw["kind"]
    if kind == "empty":
        return lines
    if kind == "title":
        lines.append(" " + " ".join(kw["title"]))
        return lines

    def rec(r, empty_ok):
        toks = render_atoms(r["atoms"], ch, canonical, True, keep_one=not empty_ok)
        return record_lines(toks, ch, canonical)

    def slash():
        s = "/"
        if not canonical and ch.chance(1, 6, "R6-tail"):
            s += " " + TAILS[ch.n(len(TAILS))]
        return [s]

    if kind in ("fixed", "data", "sized"):
        for r in kw["recs"]:
            lines += rec(r, kw.get("empty_ok", True))
    elif kind == "slash":
        for r in kw["recs"]:
            lines += rec(r, False)
        lines += slash()
    elif kind == "unknown":
        for r in kw["recs"]:
            lines += rec(r, False)
    elif kind == "tablecoll":
        for t in kw["tables"]:
            for r in t:
                lines += rec(r, False)
            lines += slash()
    elif kind == "double_slash":
        for s in kw["sets"]:
            for r in s:
                lines += rec(r, False)
            lines += slash()
        lines += slash()
    else:
        raise KeyError(kind)
    return lines


def decorate(lines, ch, in_title):
    """R1/R2: comment lines, blank lines, trailing comments, trailing blanks"""
    out = []
    for i, l in enumerate(lines):
        if not in_title[i]:
            if ch.chance(1, 12, "R2-blank"):
                out.append("")
            if ch.chance(1, 12, "R1-comment"):
                out.append(COMMENTS[ch.n(len(COMMENTS))])
        if not in_title[i] and "--" not in l and "'" not in l and ch.chance(1, 10, "R1-comment"):
            l = l + " " + COMMENTS[ch.n(len(COMMENTS))]
        if ch.chance(1, 12, "R3-space"):
            l = l + "  \t"
        out.append(l)
    return out


def render(deck, ints=None, canonical=False, include=True):
    """-> (files: {name: text}, root name, rules used)"""
    ch = Choices(ints or [0])
    blocks = []          # per keyword: list of lines
    if deck.get("unit"):
        blocks.append(([deck["unit"]], False))
    for kw in deck["kws"]:
        blocks.append((kw_lines(kw, ch, canonical), kw["kind"] == "title"))
    files = {}
    root_lines = []
    ninc = 0
    use_alias = []

    def block_text(bl):
        lines = []
        flags = []
        for (ls, is_title) in bl:
            for j, l in enumerate(ls):
                lines.append(l)
                # no decoration between TITLE and its text line
                flags.append(is_title and j == 1)
        if not canonical:
            lines = decorate(lines, ch, flags)
        return lines

    if canonical or not include or len(blocks) < 2 or not ch.chance(1, 2, "R7-include"):
        root_lines = block_text(blocks)
    else:
        # move 1..2 contiguous runs of whole keywords into include files (nesting <= 2)
        i = 0
        while i < len(blocks):
            if ninc < 2 and i > 0 and ch.chance(1, 3):
                ln = 1 + ch.n(min(3, len(blocks) - i))
                run = blocks[i:i + ln]
                ninc += 1
                fname = "inc%d.inc" % ninc
                if len(run) >= 2 and ch.chance(1, 3, "R7-nested"):
                    inner = run[1:]
                    f2 = "sub/nested%d.inc" % ninc
                    files[f2] = "\n".join(block_text(inner)) + "\n"
                    ref = f2
                    if ch.chance(1, 2, "R7-paths-alias"):
                        # the same file named through a PATHS alias
                        use_alias.append(True)
                        ref = "$INCDIR/nested%d.inc" % ninc
                    files[fname] = "\n".join(block_text(run[:1]) + ["INCLUDE", " '%s' /" % ref]) + "\n"
                else:
                    files[fname] = "\n".join(block_text(run)) + ("\n" if ch.n(2) else "")
                inc = ["INCLUDE" if ch.n(2) else "include", " '%s' /" % fname]
                root_lines += inc
                i += ln
            else:
                root_lines += block_text([blocks[i]])
                i += 1
    if use_alias:
        root_lines = ["PATHS", " 'INCDIR' 'sub' /", "/"] + root_lines
    files["ROOT.DATA"] = "\n".join(root_lines) + "\n"
    return files, "ROOT.DATA", dict(ch.used)
