"""Independent reference codec for Eclipse result-file arrays, written from the
published layout (not from EclOutput.cpp):

unformatted: Fortran sequential records, big endian, 4-byte head and tail length
  header record (16 bytes): name[8] count(int32) type[4]
  data: sub-records of at most 1000 numeric elements / 105 strings
  LOGI true = 0xFFFFFFFF (ECL) / big-endian 1 (IX)
formatted:
  header line  " 'NAME    ' %11d 'TYPE'"
  INTE 6 x 12, REAL 4 x 17, DOUB 3 x 23, LOGI 25 x 3, CHAR 7 x (" '" + 8 + "'")
  a new line after every 1000 numbers / 105 strings (block) as well
  REAL  0.dddddddd E+xx ; DOUB 0.dddddddddddddd D+xx (the letter is dropped for
  three-digit exponents); IX flavour uses plain C %E notation.

Values are represented as:
  INTE: int, REAL: uint32 bit pattern, DOUB: uint64 bit pattern, LOGI: 0/1,
  CHAR/C0NN: str, MESS: no data.
"""
import math
import struct

NUM_BLOCK = 1000
CHAR_BLOCK = 105
FMT = {"INTE": (6, 12), "REAL": (4, 17), "DOUB": (3, 23), "LOGI": (25, 3)}
TRUE_ECL = 0xFFFFFFFF
TRUE_IX = 0x00000001   # big-endian integer 1


class CodecError(Exception):
    pass


def type_tag(a):
    if a["type"] == "C0NN":
        return "C%03d" % a["elsize"]
    return a["type"]


def f32(bits):
    return struct.unpack(">f", struct.pack(">I", bits))[0]


def f64(bits):
    return struct.unpack(">d", struct.pack(">Q", bits))[0]


def bits32(x):
    return struct.unpack(">I", struct.pack(">f", x))[0]


def bits64(x):
    return struct.unpack(">Q", struct.pack(">d", x))[0]


# ------------------------------------------------------------ unformatted
def _rec(payload):
    n = struct.pack(">i", len(payload))
    return n + payload + n


def encode_unformatted(arrays, ix=False):
    out = bytearray()
    for a in arrays:
        t = a["type"]
        data = a.get("data", [])
        n = 0 if t == "MESS" else len(data)
        out += _rec(a["name"].ljust(8).encode("latin-1") + struct.pack(">i", n) + type_tag(a).encode())
        if t == "MESS" or n == 0:
            continue
        if t in ("CHAR", "C0NN"):
            w = 8 if t == "CHAR" else a["elsize"]
            for i in range(0, n, CHAR_BLOCK):
                out += _rec(b"".join(s.ljust(w).encode("latin-1") for s in data[i:i + CHAR_BLOCK]))
        else:
            for i in range(0, n, NUM_BLOCK):
                blk = data[i:i + NUM_BLOCK]
                if t == "INTE":
                    p = struct.pack(">%di" % len(blk), *blk)
                elif t == "REAL":
                    p = struct.pack(">%dI" % len(blk), *blk)
                elif t == "DOUB":
                    p = struct.pack(">%dQ" % len(blk), *blk)
                elif t == "LOGI":
                    tv = TRUE_IX if ix else TRUE_ECL
                    p = struct.pack(">%dI" % len(blk), *[tv if v else 0 for v in blk])
                out += _rec(p)
    return bytes(out)


def decode_unformatted(buf):
    """-> (arrays, flavour_seen) ; raises CodecError if the layout is violated"""
    pos = 0
    arrays = []
    true_vals = set()

    def rec():
        nonlocal pos
        if pos + 4 > len(buf):
            raise CodecError("truncated record head at %d" % pos)
        (n,) = struct.unpack_from(">i", buf, pos)
        if n < 0 or pos + 8 + n > len(buf):
            raise CodecError("record length %d at %d exceeds file" % (n, pos))
        payload = buf[pos + 4:pos + 4 + n]
        (tail,) = struct.unpack_from(">i", buf, pos + 4 + n)
        if tail != n:
            raise CodecError("head %d != tail %d at %d" % (n, tail, pos))
        pos += 8 + n
        return payload

    while pos < len(buf):
        h = rec()
        if len(h) != 16:
            raise CodecError("header record of %d bytes" % len(h))
        name = h[:8].decode("latin-1")
        (n,) = struct.unpack(">i", h[8:12])
        tag = h[12:16].decode("latin-1")
        if tag in ("INTE", "REAL", "LOGI"):
            t, w, blk, els = tag, 4, NUM_BLOCK, 4
        elif tag == "DOUB":
            t, w, blk, els = tag, 8, NUM_BLOCK, 8
        elif tag == "CHAR":
            t, w, blk, els = tag, 8, CHAR_BLOCK, 8
        elif tag == "MESS":
            t, w, blk, els = tag, 0, 0, 4
        elif tag[0] == "C" and tag[1:].isdigit():
            t, w, blk, els = "C0NN", int(tag[1:]), CHAR_BLOCK, int(tag[1:])
        else:
            raise CodecError("unknown type tag %r" % tag)
        a = {"name": name, "type": t}
        if t == "C0NN":
            a["elsize"] = els
        if t == "MESS":
            if n != 0:
                raise CodecError("MESS with count %d" % n)
            arrays.append(a)
            continue
        data = []
        left = n
        while left > 0:
            k = min(left, blk)
            p = rec()
            if len(p) != k * w:
                raise CodecError("%s %s: sub-record of %d bytes, expected %d (%d elements)" % (name, tag, len(p), k * w, k))
            if t == "INTE":
                data.extend(struct.unpack(">%di" % k, p))
            elif t == "REAL":
                data.extend(struct.unpack(">%dI" % k, p))
            elif t == "DOUB":
                data.extend(struct.unpack(">%dQ" % k, p))
            elif t == "LOGI":
                for v in struct.unpack(">%dI" % k, p):
                    if v == 0:
                        data.append(0)
                    else:
                        true_vals.add(v)
                        data.append(1)
            else:
                for i in range(k):
                    data.append(p[i * w:(i + 1) * w].decode("latin-1"))
            left -= k
        a["data"] = data
        arrays.append(a)
    return arrays, true_vals


# -------------------------------------------------------------- formatted
def _exp_str(e):
    return "%+03d" % e


def fmt_real_ecl(bits):
    v = f32(bits)
    if v == 0.0:
        return "0.00000000E+00"
    s = "%.7E" % v      # d.dddddddE+xx of the exactly represented value
    mant, ex = s.split("E")
    neg = mant.startswith("-")
    digits = mant.lstrip("-").replace(".", "")
    return ("-" if neg else "") + "0." + digits + "E" + _exp_str(int(ex) + 1)


def fmt_doub_ecl(bits):
    v = f64(bits)
    if v == 0.0:
        return "0.00000000000000D+00"
    s = "%.13E" % v
    mant, ex = s.split("E")
    neg = mant.startswith("-")
    digits = mant.lstrip("-").replace(".", "")
    e = int(ex) + 1
    letter = "D" if -100 < e < 100 else ""
    return ("-" if neg else "") + "0." + digits + letter + _exp_str(e)


def fmt_real_ix(bits):
    v = f32(bits)
    if v == 0.0:
        return " 0.0000000E+00"
    return "%10.7E" % v


def fmt_doub_ix(bits):
    v = f64(bits)
    if v == 0.0:
        return " 0.0000000000000E+00"
    return "%19.13E" % v


def encode_formatted(arrays, ix=False):
    """only finite REAL/DOUB values are supported by this reference encoder"""
    out = []
    for a in arrays:
        t = a["type"]
        data = a.get("data", [])
        n = 0 if t == "MESS" else len(data)
        out.append(" '%s' %11d '%s'\n" % (a["name"].ljust(8), n, type_tag(a)))
        if t == "MESS" or n == 0:
            continue
        if t in ("CHAR", "C0NN"):
            w = 8 if (t == "CHAR" or a["elsize"] < 9) else a["elsize"]
            ncol = 7 if w == 8 else max(1, 80 // (w + 3))
            for b in range(0, n, CHAR_BLOCK):
                blk = data[b:b + CHAR_BLOCK]
                for i in range(0, len(blk), ncol):
                    out.append("".join(" '%s'" % s.ljust(w) for s in blk[i:i + ncol]) + "\n")
        else:
            ncol, w = FMT[t]
            for b in range(0, n, NUM_BLOCK):
                blk = data[b:b + NUM_BLOCK]
                for i in range(0, len(blk), ncol):
                    row = blk[i:i + ncol]
                    if t == "INTE":
                        cells = ["%d" % v for v in row]
                    elif t == "LOGI":
                        cells = ["T" if v else "F" for v in row]
                    elif t == "REAL":
                        cells = [(fmt_real_ix if ix else fmt_real_ecl)(v) for v in row]
                    else:
                        cells = [(fmt_doub_ix if ix else fmt_doub_ecl)(v) for v in row]
                    out.append("".join(c.rjust(w) for c in cells) + "\n")
    return "".join(out).encode("latin-1")


def _parse_real(tok):
    t = tok.strip()
    u = t.upper()
    if u in ("NAN", "-NAN"):
        return float("nan")
    if u in ("INF", "+INF"):
        return float("inf")
    if u == "-INF":
        return float("-inf")
    t = t.replace("D", "E")
    if "E" not in t:
        for i in range(1, len(t)):
            if t[i] in "+-":
                t = t[:i] + "E" + t[i:]
                break
    return float(t)


def decode_formatted(buf):
    """strict decoder: fixed-width columns, column counts per line, block breaks.
    REAL/DOUB values are returned as Python floats (text precision)."""
    text = buf.decode("latin-1")
    lines = text.split("\n")
    if lines and lines[-1] == "":
        lines.pop()
    elif text:
        raise CodecError("file does not end with a newline")
    arrays = []
    li = 0
    while li < len(lines):
        h = lines[li]
        li += 1
        if len(h) != 30 or h[0:2] != " '" or h[10:12] != "' " or h[23:25] != " '" or h[29] != "'":
            raise CodecError("bad header line %r" % h)
        name = h[2:10]
        try:
            n = int(h[12:23])
        except ValueError:
            raise CodecError("bad count in header %r" % h)
        tag = h[25:29]
        if tag in FMT:
            t = tag
        elif tag == "CHAR":
            t = tag
        elif tag == "MESS":
            t = tag
        elif tag[0] == "C" and tag[1:].isdigit():
            t = "C0NN"
        else:
            raise CodecError("unknown type tag %r" % tag)
        a = {"name": name, "type": t}
        if t == "C0NN":
            a["elsize"] = int(tag[1:])
        if t == "MESS":
            if n != 0:
                raise CodecError("MESS with count")
            arrays.append(a)
            continue
        data = []
        if t in ("CHAR", "C0NN"):
            w = 8 if (t == "CHAR" or a["elsize"] < 9) else a["elsize"]
            ncol = 7 if w == 8 else max(1, 80 // (w + 3))
            blk = CHAR_BLOCK
            cw = w + 3
        else:
            ncol, cw = FMT[t]
            blk = NUM_BLOCK
        left = n
        while left > 0:
            k = min(left, blk)
            inblk = k
            while inblk > 0:
                c = min(inblk, ncol)
                if li >= len(lines):
                    raise CodecError("%s: file ends inside data" % name)
                line = lines[li]
                li += 1
                if len(line) != c * cw:
                    raise CodecError("%s %s: line of %d chars, expected %d values x %d" % (name, tag, len(line), c, cw))
                for j in range(c):
                    cell = line[j * cw:(j + 1) * cw]
                    if t in ("CHAR", "C0NN"):
                        if cell[0:2] != " '" or cell[-1] != "'":
                            raise CodecError("bad string cell %r" % cell)
                        data.append(cell[2:-1])
                    elif t == "INTE":
                        data.append(int(cell))
                    elif t == "LOGI":
                        if cell not in ("  T", "  F"):
                            raise CodecError("bad LOGI cell %r" % cell)
                        data.append(1 if cell == "  T" else 0)
                    else:
                        if cell[0] != " ":
                            raise CodecError("no blank separating column in %r" % line)
                        data.append(_parse_real(cell))
                inblk -= c
            left -= k
        a["data"] = data
        arrays.append(a)
    return arrays
