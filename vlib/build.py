"""Build trees and harness binaries.  Everything is rebuilt (incrementally) from
/repo's current working tree on every check invocation."""
import fcntl
import glob
import os
import subprocess
import sys
import time

VERIF = os.path.dirname(os.path.dirname(os.path.abspath(__file__)))
REPO = os.environ.get("VERIF_REPO", "/repo")
BUILD = os.environ.get("VERIF_BUILD") or os.path.join(VERIF, "build")
HARNESS = os.path.join(VERIF, "harness")
FMT_DIR = "/usr/lib/x86_64-linux-gnu/cmake/fmt"
GUARD = "OPM_COMMON_VERIF"

COMMON_CMAKE = [
    "-G", "Ninja", "-DCMAKE_BUILD_TYPE=None", "-DBUILD_TESTING=OFF",
    "-DBUILD_EXAMPLES=OFF", "-DOPM_ENABLE_PYTHON=OFF", "-DUSE_MPI=OFF",
    "-DSIBLING_SEARCH=OFF", "-Dfmt_DIR=" + FMT_DIR,
    "-DCMAKE_DISABLE_FIND_PACKAGE_MPI=TRUE",
]

SAN_FLAGS = ("-O1 -gline-tables-only -fsanitize=address,undefined "
             "-fno-sanitize-recover=undefined -fno-omit-frame-pointer "
             "-D%s=1" % GUARD)
FUZZ_COV = "-fsanitize=fuzzer-no-link"

TREES = {
    "plain": dict(cxx="g++", cc="gcc",
                  flags="-O1 -g1 -D%s=1" % GUARD),
    "san": dict(cxx="clang++", cc="clang",
                flags=SAN_FLAGS + " " + FUZZ_COV,
                extra=["-DCMAKE_DISABLE_FIND_PACKAGE_OpenMP=TRUE",
                       "-DUSE_OPENMP=OFF"]),
}

LIBS_PLAIN = ["/usr/lib/x86_64-linux-gnu/libfmt.so", "-lcjson",
              "-lboost_system", "-lboost_filesystem", "-lboost_regex"]


class BuildError(Exception):
    pass


def _run(cmd, log, cwd=None):
    with open(log, "ab") as f:
        f.write(("\n$ " + " ".join(cmd) + "\n").encode())
        f.flush()
        r = subprocess.run(cmd, stdout=f, stderr=subprocess.STDOUT, cwd=cwd)
    return r.returncode


class _Lock:
    def __init__(self, name):
        os.makedirs(BUILD, exist_ok=True)
        self.path = os.path.join(BUILD, ".lock." + name)

    def __enter__(self):
        self.f = open(self.path, "w")
        fcntl.flock(self.f, fcntl.LOCK_EX)
        return self

    def __exit__(self, *a):
        fcntl.flock(self.f, fcntl.LOCK_UN)
        self.f.close()


def tree_dir(kind):
    return os.path.join(BUILD, kind)


def include_flags(kind):
    d = tree_dir(kind)
    return ["-I" + REPO, "-I" + d, "-I" + os.path.join(d, "include"),
            "-DHAVE_CONFIG_H=1", "-DFMT_SHARED"]


def ensure_lib(kind):
    """configure (once) and build target opmcommon in tree `kind`.  Returns
    path of libopmcommon.a"""
    t = TREES[kind]
    d = tree_dir(kind)
    log = os.path.join(BUILD, kind + ".log")
    with _Lock(kind):
        if os.path.exists(log) and os.path.getsize(log) > 20_000_000:
            os.unlink(log)
        cache = os.path.join(d, "CMakeCache.txt")
        need_cfg = not os.path.exists(os.path.join(d, "build.ninja"))
        if not need_cfg:
            # configured against another source dir?  start again
            with open(cache) as f:
                txt = f.read()
            if ("CMAKE_HOME_DIRECTORY:INTERNAL=%s\n" % REPO) not in txt:
                subprocess.run(["rm", "-rf", d])
                need_cfg = True
        if need_cfg:
            cmd = ["cmake", "-S", REPO, "-B", d] + COMMON_CMAKE + [
                "-DCMAKE_CXX_COMPILER=" + t["cxx"],
                "-DCMAKE_C_COMPILER=" + t["cc"],
                "-DCMAKE_CXX_FLAGS=" + t["flags"],
                "-DCMAKE_C_FLAGS=" + t["flags"].replace("-D%s=1" % GUARD, ""),
            ] + t.get("extra", [])
            if _run(cmd, log) != 0:
                raise BuildError("cmake configure failed for %s, see %s" % (kind, log))
        t0 = time.time()
        rc = _run(["ninja", "-C", d, "opmcommon"], log)
        if rc != 0:
            raise BuildError("build of /repo failed in tree %s (see %s)" % (kind, log))
        lib = os.path.join(d, "lib", "libopmcommon.a")
        if not os.path.exists(lib):
            raise BuildError("no libopmcommon.a in " + d)
        return lib


def _newer(target, deps):
    if not os.path.exists(target):
        return False
    tm = os.path.getmtime(target)
    try:
        return all(os.path.getmtime(x) <= tm for x in deps)
    except OSError:
        return False


def _dfile_deps(dfile):
    """dependencies recorded by the compiler (-MMD); None if unknown"""
    try:
        with open(dfile) as f:
            txt = f.read()
    except OSError:
        return None
    txt = txt.replace("\\\n", " ")
    parts = txt.split(":", 1)
    if len(parts) != 2:
        return None
    return parts[1].split()


def _uptodate(target, dfile, extra=()):
    deps = _dfile_deps(dfile)
    if deps is None:
        return False
    return _newer(target, deps + list(extra))


def _compile_objs(kind, srcs, objdir, cxx, cflags, log, extra_deps=()):
    os.makedirs(objdir, exist_ok=True)
    hdrs = glob.glob(os.path.join(HARNESS, "*.hpp")) + list(extra_deps)
    procs = []
    objs = []
    for s in srcs:
        o = os.path.join(objdir, os.path.basename(s) + ".o")
        objs.append(o)
        # object depends on its source, harness headers and the library
        # archive (headers of /repo may have changed -> archive is rebuilt)
        if _uptodate(o, o + ".d", [s] + hdrs):
            continue
        cmd = [cxx, "-std=gnu++17", "-c", s, "-o", o, "-MMD", "-MF", o + ".d"] + cflags
        f = open(log, "ab")
        f.write(("\n$ " + " ".join(cmd) + "\n").encode())
        f.flush()
        procs.append((subprocess.Popen(cmd, stdout=f, stderr=subprocess.STDOUT), s, f))
    for p, s, f in procs:
        rc = p.wait()
        f.close()
        if rc != 0:
            raise BuildError("compile of %s failed (see %s)" % (s, log))
    return objs


def ensure_probe(kind="plain", group="all"):
    """build the probe for command group `group` (harness/probe/main.cpp +
    cmd_<group>*.cpp [+ shared *.cpp named in harness/probe/<group>.deps]) against
    tree `kind`; group "all" links every cmd_*.cpp.  Returns the binary path."""
    lib = ensure_lib(kind)
    t = TREES[kind]
    log = os.path.join(BUILD, "harness-%s.log" % kind)
    pdir = os.path.join(HARNESS, "probe")
    if group == "all":
        srcs = sorted(glob.glob(os.path.join(pdir, "*.cpp")))
    else:
        srcs = [os.path.join(pdir, "main.cpp")] + sorted(glob.glob(os.path.join(pdir, "cmd_%s*.cpp" % group)))
        deps = os.path.join(pdir, group + ".deps")
        if os.path.exists(deps):
            with open(deps) as f:
                srcs += [os.path.join(pdir, x) for x in f.read().split()]
    objdir = os.path.join(BUILD, "obj-probe-" + kind)
    exe = os.path.join(BUILD, "opmprobe-%s-%s" % (kind, group))
    with _Lock("harness-" + kind):
        flags = t["flags"].replace(FUZZ_COV, "").split() + include_flags(kind) + ["-I" + HARNESS, "-I" + pdir]
        if kind == "plain":
            flags += ["-fopenmp"]
        objs = _compile_objs(kind, srcs, objdir, t["cxx"], flags, log)
        if not _newer(exe, objs + [lib]):
            cmd = [t["cxx"]] + objs + [lib] + LIBS_PLAIN + ["-o", exe]
            if kind == "plain":
                cmd += ["-fopenmp"]
            else:
                cmd += ["-fsanitize=address,undefined"]
            if _run(cmd, log) != 0:
                raise BuildError("link of opmprobe failed (see %s)" % log)
    return exe


def ensure_single(name, src, kind="plain", extra_flags=(), extra_libs=(), needs_lib=True,
                  fuzzer=False):
    """build a single-TU harness binary"""
    t = TREES[kind]
    lib = ensure_lib(kind) if needs_lib else None
    log = os.path.join(BUILD, "harness-%s.log" % kind)
    exe = os.path.join(BUILD, name)
    with _Lock("single-" + name):
        deps = [src] + ([lib] if lib else [])
        if _uptodate(exe, exe + ".d", deps):
            return exe
        flags = t["flags"].replace(FUZZ_COV, "").split() + include_flags(kind) + ["-I" + HARNESS]
        cmd = [t["cxx"], "-std=gnu++17", src, "-o", exe, "-MMD", "-MF", exe + ".d"] + flags + list(extra_flags)
        if fuzzer:
            cmd += ["-fsanitize=fuzzer,address,undefined"]
        elif kind == "san":
            cmd += ["-fsanitize=address,undefined"]
        if lib:
            cmd += [lib] + LIBS_PLAIN
            if kind == "plain":
                cmd += ["-fopenmp"]
        cmd += list(extra_libs)
        if _run(cmd, log) != 0:
            raise BuildError("build of %s failed (see %s)" % (name, log))
    return exe


if __name__ == "__main__":
    for k in sys.argv[1:] or ["plain"]:
        print(ensure_probe(k))
