"""Grammar-driven deck generator (DESIGN 3.1).

The grammar is the code's own keyword schema: the JSON keyword definitions in
/repo/opm/input/eclipse/share/keywords that the build turns into the built-in
parser keywords.  A generated deck is an *abstract* deck: keywords with records
of atoms; layouts (concrete text, possibly several files) are rendered from it
by vlib/layout.py.  Next to every record the generator keeps the *model* of what
the parser must produce (per item: list of [status, value]).

atom forms (JSON lists):
  ["v", text]         one explicit token
  ["r", n, text]      n*text
  ["d", n]            n defaulted values (written n*, or 1* n times, or omitted at record end)
"""
import json
import os
import re

from hypothesis import strategies as st

REPO = os.environ.get("VERIF_REPO", "/repo")
KWDIR = os.path.join(REPO, "opm/input/eclipse/share/keywords")

EXCLUDED = {
    "INCLUDE": "parser directive (produced by the include rewrite, not by the grammar)",
    "PATHS": "parser directive", "ENDINC": "parser directive", "END": "parser directive",
    "IMPORT": "reads a binary file", "PYINPUT": "embedded Python (disabled in this build)",
    "PYACTION": "embedded Python", "SKIP": "skips input", "SKIP100": "skips input", "SKIP300": "skips input",
    "ENDSKIP": "skips input", "DYNAMICR": "code keyword (free text up to an end marker)",
    "ROCK": "record count depends on ROCKOPTS/ROCKCOMP/TABDIMS (special case)",
    "ECHO": "harmless, but NOECHO/ECHO not interesting", "NOECHO": "same",
}
UNIT_KEYWORDS = ["METRIC", "FIELD", "LAB", "PVT-M"]
REGEX_EXAMPLES = {
    "FIP_PROBE": ["FIPXYZ", "FIPAB"], "TBLK": ["TBLKFAB", "TBLKSX1"], "TNUM": ["TNUMFAB", "TNUMSX"],
    "TRDCY": ["TRDCYAB"], "TRDIF": ["TRDIFAB"], "TRDIS": ["TRDISAB"], "TRKPF": ["TRKPFAB"],
    "TRNHD": ["TRNHDAB"], "TVDP": ["TVDPA", "TVDPXY"], "AQUIFER_PROBE_ANALYTIC_NAMED": ["ALQR"],
    "REGION2REGION_PROBE": ["ROFT", "RGFTL", "RWFT"], "REGION2REGION_PROBE_E300": ["ROFR", "RGFT+"],
}


def _load_json(path):
    with open(path) as f:
        t = f.read()
    t = re.sub(r"(\d)\.(?=[eE,\s}])", r"\1.0", t)      # cJSON accepts "35." ; Python does not
    return json.loads(t, strict=False)


class Item:
    def __init__(self, j, data=False):
        self.name = "data" if data else j["name"]
        self.type = j["value_type"]
        self.all = data or j.get("size_type") == "ALL"
        self.default = j.get("default")
        self.has_default = "default" in j
        d = j.get("dimension")
        self.dims = [] if d is None else (d if isinstance(d, list) else [d])


class Kw:
    def __init__(self, j):
        self.name = j["name"]
        self.sections = j.get("sections", [])
        self.requires = j.get("requires", [])
        self.prohibits = j.get("prohibits", [])
        names = list(j.get("deck_names", []))
        if not names and "deck_name_regex" not in j:
            names = [self.name]
        names += REGEX_EXAMPLES.get(self.name, [])
        self.deck_names = names
        self.records = []
        self.kind = None
        self.size_kw = None
        self.fixed = None
        self.min_size = j.get("min_size")
        size = j.get("size")
        if "items" in j:
            self.records = [[Item(i) for i in j["items"]]]
        for key in ("records", "alternating_records", "records_set"):
            if key in j:
                self.records = [[Item(i) for i in r] for r in j[key]]
        if "data" in j:
            self.records = [[Item(j["data"], data=True)]]
        self.raw = any(i.type == "RAW_STRING" for r in self.records for i in r)
        if isinstance(size, int):
            self.kind = "fixed" if size > 0 else "empty"
            self.fixed = size
            if not self.records and size > 0:
                self.kind = "unsupported"
        elif isinstance(size, dict):
            self.kind = "sized"
            self.size_kw = (size["keyword"], size["item"], size.get("shift", 0))
        elif isinstance(size, str):
            self.kind = "unknown" if size == "UNKNOWN" else "unsupported"
        elif "num_tables" in j:
            self.kind = "tablecoll"
            nt = j["num_tables"]
            self.size_kw = (nt["keyword"], nt["item"], nt.get("shift", 0))
        elif "records_set" in j:
            self.kind = "double_slash"
        elif "code" in j:
            self.kind = "unsupported"
        elif "data" in j:
            self.kind = "data"
            self.fixed = 1
        elif self.records:
            self.kind = "slash"
        else:
            self.kind = "empty"
        self.alternating = "alternating_records" in j
        if self.name == "TITLE":
            self.kind = "title"
        if self.name in EXCLUDED or self.name in UNIT_KEYWORDS or self.name == "PVT_M":
            self.kind = "excluded"

    def record_def(self, i):
        if i < len(self.records):
            return self.records[i]
        if self.alternating:
            return self.records[i % len(self.records)]
        return self.records[-1]


_GRAMMAR = None


def grammar():
    global _GRAMMAR
    if _GRAMMAR is None:
        lst = open(os.path.join(KWDIR, "keyword_list.cmake")).read()
        files = re.findall(r"^\s+(\d\d\d_[^\s)]+)", lst, re.M)
        g = {}
        for f in files:
            p = os.path.join(KWDIR, f)
            if not os.path.exists(p):
                continue
            k = Kw(_load_json(p))
            g[k.name] = k
        # a deck name claimed by several keyword definitions (e.g. WAPI: SCHEDULE keyword and
        # summary vector) is resolved by the parser in ways the grammar does not model: drop it
        raw = {}
        for f in files:
            p = os.path.join(KWDIR, f)
            if os.path.exists(p):
                j = _load_json(p)
                raw[j["name"]] = j
        owners = {}
        for k in g.values():
            for n in k.deck_names:
                owners.setdefault(n, set()).add(k.name)
        regexes = []
        for name, j in raw.items():
            if "deck_name_regex" in j:
                regexes.append((name, re.compile("^(?:" + j["deck_name_regex"] + ")$")))
            if "deck_name_regex_suffix" in j:
                sfx = re.compile("^(?:" + j["deck_name_regex_suffix"] + ")$")
                for dn in j.get("deck_names", []):
                    regexes.append((name, re.compile("^" + re.escape(dn) + "(?:" + j["deck_name_regex_suffix"] + ")$")))
        for k in g.values():
            keep = []
            for n in k.deck_names:
                amb = len(owners[n]) > 1 or any(o != k.name and rx.match(n) for o, rx in regexes)
                if not amb:
                    keep.append(n)
            k.deck_names = keep
        _GRAMMAR = g
    return _GRAMMAR


# ------------------------------------------------------------------ token strategies
BARE = "ABCDEFGHIJKLMNOPQRSTUVWXYZabcdefghijklmnopqrstuvwxyz0123456789_+.:-"


def _bare_ok(s):
    if not s or s[0] in "-+.0123456789*'/":
        return False
    if "--" in s or "/" in s:
        return False
    return True


bare_string = st.one_of(
    st.sampled_from(["P1", "OPEN", "SHUT", "ORAT", "W_1", "G1", "FIELD", "YES", "NO", "A", "P*", "WELL-A2", "x", "Inj.3", "P:1"]),
    st.text(alphabet=BARE + "*", min_size=1, max_size=8).filter(lambda s: _bare_ok(s) and not re.match(r"^\d*\*", s)))
quoted_string = st.one_of(
    st.sampled_from(["A B", "P 1", "a/b", "x--y", "5*", "*", "2*X", "/", "", " lead", "trail ", "-- c", "1*"]),
    st.text(alphabet=BARE + " */", min_size=0, max_size=10))


@st.composite
def string_token(draw):
    """-> (text, value)"""
    if draw(st.integers(0, 2)) == 0:
        v = draw(quoted_string).replace("'", "")
        return "'" + v + "'", v
    v = draw(bare_string)
    if draw(st.booleans()):
        return "'" + v + "'", v
    return v, v


@st.composite
def int_token(draw):
    v = draw(st.one_of(st.integers(-5, 20), st.sampled_from([0, 1, -1, 2147483647, -2147483648, 1000000]),
                       st.integers(-2 ** 31, 2 ** 31 - 1)))
    t = str(v)
    if v >= 0 and draw(st.integers(0, 9)) == 0:
        t = "+" + t
    return t, v


def _py_float(text):
    return float(text.replace("D", "E").replace("d", "e"))


@st.composite
def double_token(draw):
    kind = draw(st.integers(0, 9))
    if kind <= 2:
        t = str(draw(st.integers(-1000, 100000)))
    elif kind == 3:
        t = draw(st.sampled_from(["0", "0.0", "-0.0", "1.", ".5", "-.25", "12.", "+3.5", "1e5", "1E+05", "1.5D3", "1d-3",
                                  "2.5e-3", "1.0E10", "0.1", "0.2", "0.3", "1e-300", "1E300", "4.9e-324", "2.2250738585072014e-308",
                                  "1.7976931348623157e308", "123456789.123456789", "0.30000000000000004", "1e22", "1e23"]))
    elif kind <= 6:
        m = draw(st.integers(0, 10 ** draw(st.integers(1, 17)) - 1))
        e = draw(st.integers(-30, 30))
        sgn = draw(st.sampled_from(["", "-"]))
        ms = str(m)
        p = draw(st.integers(0, len(ms)))
        ms = ms[:p] + "." + ms[p:]
        if ms == ".":
            ms = "0."
        t = sgn + ms + draw(st.sampled_from(["e", "E", "D", "d"])) + ("%+d" % e if draw(st.booleans()) else str(e))
    else:
        x = draw(st.floats(allow_nan=False, allow_infinity=False, width=64))
        t = repr(x)
        if "inf" in t or "nan" in t:
            t = "1.0"
    try:
        v = _py_float(t)
    except ValueError:
        t, v = "1.0", 1.0
    if v in (float("inf"), float("-inf")):
        t, v = "1.0", 1.0
    return t, v.hex()


@st.composite
def uda_token(draw):
    if draw(st.integers(0, 3)) == 0:
        name = draw(st.sampled_from(["WUOPRL", "FUX", "GUG1", "WU_A", "FUNEW"]))
        if draw(st.booleans()):
            return "'" + name + "'", ["s", name]
        return name, ["s", name]
    t, v = draw(double_token())
    return t, ["d", v]


def value_token(typ):
    if typ == "INT":
        return int_token()
    if typ == "DOUBLE":
        return double_token()
    if typ == "STRING":
        return string_token()
    if typ == "UDA":
        return uda_token()
    raise KeyError(typ)


def default_model(item):
    """model of a defaulted value: [status, value]"""
    if not item.has_default:
        return [2, None]
    d = item.default
    if item.type == "INT":
        return [1, int(d)]
    if item.type == "DOUBLE":
        return [1, float(d).hex()]
    if item.type == "UDA":
        if isinstance(d, str):
            return [1, ["s", d]]
        return [1, ["d", float(d).hex()]]
    return [1, str(d)]


# ------------------------------------------------------------------ records
@st.composite
def gen_record(draw, rdef, allow_empty, maxall=40, raw_ok=False, force_value=False):
    """-> {"atoms": [...], "model": [[ [status,value]... ] per item], "nitems": n}"""
    atoms = []
    model = []
    n = len(rdef)
    # how many leading items are written before the record ends early
    stop = n
    if draw(st.integers(0, 2)) == 0:
        stop = draw(st.integers(0 if allow_empty else 1, n))
    force = force_value and not allow_empty
    i = 0
    while i < n:
        it = rdef[i]
        if i >= stop:
            model.append([default_model(it)] if not it.all else [])
            i += 1
            continue
        if it.type == "RAW_STRING":
            raise ValueError("raw")
        if it.all:
            vals = []
            k = draw(st.integers(0 if (allow_empty or atoms) else 1, maxall if draw(st.integers(0, 5)) == 0 else 8))
            while len(vals) < k:
                c = draw(st.integers(0, 9))
                if force and not atoms:
                    c = 9
                if c == 0:
                    m = draw(st.integers(1, 4))
                    atoms.append(["d", m, "A"])
                    vals += [default_model(it)] * m
                elif c == 1:
                    m = draw(st.integers(1, 5))
                    t, v = draw(value_token(it.type))
                    if t.startswith("'") and (" " in t or "\t" in t):
                        atoms.append(["v", t])
                        vals.append([0, v])
                    else:
                        atoms.append(["r", m, t])
                        vals += [[0, v]] * m
                else:
                    t, v = draw(value_token(it.type))
                    atoms.append(["v", t])
                    vals.append([0, v])
            if force_value and atoms and atoms[-1][0] == "d" and vals:
                # (C19) trailing defaults of an ALL item are a recorded finding: end with an explicit value
                t, v = draw(value_token(it.type))
                atoms.append(["v", t])
                vals.append([0, v])
            model.append(vals)
            i += 1
            stop = i          # an ALL item swallows the rest of the record: later items see an empty record
            continue
        c = draw(st.integers(0, 9))
        if force and not atoms:
            c = 9
        if c <= 1:
            # a run of defaults possibly spanning several SINGLE items
            run = 1
            while i + run < stop and not rdef[i + run].all and draw(st.integers(0, 2)) == 0:
                run += 1
            atoms.append(["d", run, "S"])
            for k in range(run):
                model.append([default_model(rdef[i + k])])
            i += run
            continue
        if c == 2:
            # n*v spanning several consecutive SINGLE items of the same type
            run = 1
            while i + run < stop and not rdef[i + run].all and rdef[i + run].type == it.type and draw(st.booleans()):
                run += 1
            t, v = draw(value_token(it.type))
            if run > 1 and t.startswith("'") and (" " in t or "\t" in t):
                run = 1
            if run > 1 or (draw(st.booleans()) and not (t.startswith("'") and (" " in t or "\t" in t))):
                atoms.append(["r", run, t])
            else:
                atoms.append(["v", t])
            for k in range(run):
                model.append([[0, v]])
            i += run
            continue
        t, v = draw(value_token(it.type))
        atoms.append(["v", t])
        model.append([[0, v]])
        i += 1
    if not atoms and not allow_empty:
        # a record without tokens would be read as the keyword terminator: write one default
        atoms.append(["d", 1, "S" if not rdef[0].all else "A"])
        if rdef[0].all:
            model[0] = [default_model(rdef[0])]
    return {"atoms": atoms, "model": model}


# ------------------------------------------------------------------ keywords
def usable(k):
    if k.size_kw:
        g = grammar()
        skw = g.get(k.size_kw[0])
        if skw is None or not skw.records or k.size_kw[1] not in [i.name for i in skw.records[0]]:
            return False        # e.g. DISPERSE names a size item that does not exist
    return k.kind in ("empty", "fixed", "data", "slash", "sized", "tablecoll", "double_slash", "unknown", "title") \
        and not k.raw and k.deck_names


@st.composite
def gen_keyword(draw, k, sizes, fv=False):
    """sizes: dict (size keyword, item) -> value already fixed in this deck"""
    name = draw(st.sampled_from(k.deck_names))
    out = {"name": name, "def": k.name, "kind": k.kind, "recs": [], "empty_ok": k.min_size is None}
    if k.kind == "empty":
        return out
    if k.kind == "title":
        words = draw(st.lists(st.text(alphabet="ABCDEFGHIJKLMNOPQRSTUVWXYZabcdefgh0123456789", min_size=1, max_size=8), min_size=1, max_size=5))
        out["title"] = words
        return out
    if k.kind in ("fixed", "data"):
        nrec = k.fixed
        for i in range(nrec):
            out["recs"].append(draw(gen_record(k.record_def(i), allow_empty=(k.kind == "fixed" and k.min_size is None), force_value=fv)))
        return out
    if k.kind == "slash":
        nrec = draw(st.integers(0, 4))
        for i in range(nrec):
            out["recs"].append(draw(gen_record(k.record_def(i), allow_empty=False, force_value=fv)))
        return out
    if k.kind == "unknown":
        nrec = draw(st.integers(1, 4))
        for i in range(nrec):
            out["recs"].append(draw(gen_record(k.record_def(i), allow_empty=False, force_value=fv)))
        return out
    if k.kind == "sized":
        skw, sitem, shift = k.size_kw
        n = sizes[(skw, sitem)] + shift
        if k.alternating:
            n *= len(k.records)
        for i in range(n):
            out["recs"].append(draw(gen_record(k.record_def(i), allow_empty=(k.min_size is None), force_value=fv)))
        return out
    if k.kind == "tablecoll":
        skw, sitem, shift = k.size_kw
        ntab = sizes[(skw, sitem)] + shift
        tables = []
        ri = 0
        for t in range(ntab):
            nrec = draw(st.integers(0, 3))
            recs = []
            for i in range(nrec):
                recs.append(draw(gen_record(k.record_def(ri), allow_empty=False, force_value=fv)))
                ri += 1
            ri += 1          # the table's closing slash counts as a (empty) record for the parser
            tables.append(recs)
        out["tables"] = tables
        return out
    if k.kind == "double_slash":
        nsets = draw(st.integers(1, 3))
        sets = []
        for s in range(nsets):
            nrec = draw(st.integers(1, 3))
            sets.append([draw(gen_record(k.record_def(i), allow_empty=False, force_value=fv)) for i in range(nrec)])
        out["sets"] = sets
        return out
    raise KeyError(k.kind)


@st.composite
def gen_deck(draw, names=None, maxkw=8, avoid_all_default=False):
    """abstract deck: {"unit": name|None, "kws": [...]}"""
    g = grammar()
    pool = [k for k in g.values() if usable(k)] if names is None else [g[n] for n in names]
    pool.sort(key=lambda k: k.name)
    nk = draw(st.integers(1, maxkw))
    chosen = []
    for _ in range(nk):
        # weight the size classes evenly rather than by their population
        kind = draw(st.sampled_from(["empty", "fixed", "data", "slash", "slash", "sized", "sized", "tablecoll",
                                     "double_slash", "unknown", "title", "any", "any"]))
        cands = [k for k in pool if k.kind == kind] if kind != "any" else pool
        if not cands:
            cands = pool
        chosen.append(draw(st.sampled_from(cands)))
    # prerequisites: requires / size keywords first, prohibits never together
    present = set()
    order = []
    sizes = {}

    def add_size_kw(skw, sitem):
        if (skw, sitem) in sizes:
            return
        sizes[(skw, sitem)] = draw(st.integers(1, 3))

    final = []
    for k in chosen:
        if any(p in present for p in k.prohibits):
            continue
        if any(k.name in g[o].prohibits for o in present if o in g):
            continue
        ok = True
        for r in k.requires:
            if r not in present:
                rk = g.get(r)
                if rk is None or not usable(rk) or rk.kind in ("sized", "tablecoll") or rk.requires or \
                        any(p in present for p in rk.prohibits):
                    ok = False
                    break
        if not ok:
            continue
        for r in k.requires:
            if r not in present:
                final.append(g[r])
                present.add(r)
        if k.size_kw:
            add_size_kw(k.size_kw[0], k.size_kw[1])
        final.append(k)
        present.add(k.name)
    if not final:
        final = [g["OIL"]]
    # size keywords: one instance each, placed first, with the needed items explicit
    kws = []
    by_kw = {}
    for (skw, sitem), v in sizes.items():
        by_kw.setdefault(skw, {})[sitem] = v
    for skw, items in sorted(by_kw.items()):
        kd = g[skw]
        rdef = kd.records[0]
        atoms = []
        model = []
        last = max(i for i, it in enumerate(rdef) if it.name in items)
        for i, it in enumerate(rdef):
            if i > last:
                model.append([default_model(it)])
            elif it.name in items:
                atoms.append(["v", str(items[it.name])])
                model.append([[0, items[it.name]]])
            else:
                atoms.append(["d", 1, "S"])
                model.append([default_model(it)])
        kws.append({"name": skw, "def": skw, "kind": "fixed", "recs": [{"atoms": atoms, "model": model}], "sizekw": True})
    for k in final:
        if k.name in by_kw:
            continue        # the explicit instance above is the one that counts
        kws.append(draw(gen_keyword(k, sizes, avoid_all_default)))
    unit = draw(st.sampled_from([None, None, "METRIC", "FIELD", "LAB", "PVT-M"]))
    return {"unit": unit, "kws": kws}


def expected_dump(deck):
    """model of what dump_deck must return (names, per record per item statuses/values)"""
    out = []
    g = grammar()
    if deck["unit"]:
        out.append({"kw": deck["unit"], "recs": []})
    for kw in deck["kws"]:
        recs = []
        if kw["kind"] == "title":
            recs.append([[[0, w] for w in kw["title"]]])
        elif kw["kind"] == "tablecoll":
            kd = g[kw["def"]]
            nrec = 0
            for ti, t in enumerate(kw["tables"]):
                for r in t:
                    recs.append(r["model"])
                    nrec += 1
                if ti != len(kw["tables"]) - 1:
                    # the lone slash closing a table (but the last) is seen as an empty record
                    recs.append([[default_model(it)] if not it.all else [] for it in kd.record_def(nrec)])
                    nrec += 1
        elif kw["kind"] == "double_slash":
            for s in kw["sets"]:
                for r in s:
                    recs.append(r["model"])
                recs.append([])
        else:
            for r in kw["recs"]:
                recs.append(r["model"])
        out.append({"kw": kw["name"], "recs": recs, "kind": kw["kind"]})
    return out
