"""Client for the persistent C++ probe (one JSON object per line each way)."""
import json
import os
import select
import shutil
import subprocess
import tempfile
import time


class ProbeCrash(Exception):
    """the probe process died (signal / sanitizer abort / exit) while serving a request"""

    def __init__(self, msg, request=None, stderr=""):
        super().__init__(msg)
        self.request = request
        self.stderr = stderr


class LibError(Exception):
    """the library threw a std::exception: a clean rejection"""

    def __init__(self, exc, what):
        super().__init__("%s: %s" % (exc, what))
        self.exc = exc
        self.what = what


def hexf(x):
    """decode a probe double"""
    if isinstance(x, str):
        if x.startswith("nan"):
            return float("nan")
        if x == "inf":
            return float("inf")
        if x == "-inf":
            return float("-inf")
        return float.fromhex(x)
    return float(x)


class Probe:
    def __init__(self, exe, env=None, tmp_root=None):
        self.exe = exe
        self.tmp_root = tmp_root or tempfile.gettempdir()
        self.tmp = tempfile.mkdtemp(prefix="vprobe.", dir=self.tmp_root)
        self.env = dict(os.environ)
        self.env["VERIF_TMP"] = self.tmp
        self.env.setdefault("ASAN_OPTIONS", "detect_leaks=0:abort_on_error=1:allocator_may_return_null=1")
        self.env.setdefault("UBSAN_OPTIONS", "print_stacktrace=1:halt_on_error=1")
        if env:
            self.env.update(env)
        self.p = None
        self.timeout = float(os.environ.get("VERIF_PROBE_TIMEOUT", "900"))   # seconds per request: beyond = hang
        self.calls = 0
        self.restarts = 0
        self._start()

    def _start(self):
        self.errf = open(os.path.join(self.tmp, "stderr.%d" % self.restarts), "wb+")
        self.p = subprocess.Popen([self.exe], stdin=subprocess.PIPE, stdout=subprocess.PIPE,
                                  stderr=self.errf, env=self.env, bufsize=0)
        self.rfd = self.p.stdout.fileno()
        self.rbuf = bytearray()

    def _stderr_tail(self):
        try:
            self.errf.flush()
            self.errf.seek(0)
            data = self.errf.read()
            if len(data) > 12000:
                # head (error kind and the top frames decide the signature) and tail (summary line)
                data = data[:7000] + b"\n[...]\n" + data[-4500:]
            return data.decode("latin-1")
        except Exception:
            return ""

    def restart(self):
        try:
            self.p.kill()
            self.p.wait()
        except Exception:
            pass
        self.restarts += 1
        self._start()

    def raw(self, req):
        """send request, return decoded reply dict (no exception mapping)"""
        line = (json.dumps(req, ensure_ascii=True) + "\n").encode("ascii")
        self.calls += 1
        self._deadline = time.time() + self.timeout
        try:
            self.p.stdin.write(line)
            self.p.stdin.flush()
            rep = self._readline()
            # replies are marked "@@R " at line start; anything else is chatter of the library on stdout
            while rep and not rep.startswith(b"@@R "):
                rep = self._readline()
        except TimeoutError:
            err = self._stderr_tail()
            self.restart()
            raise ProbeCrash("probe did not answer within %.0f s (hang)" % self.timeout, req, "HANG: no reply within the time bound\n" + err)
        except (BrokenPipeError, OSError):
            rep = b""
        rep = rep[4:] if rep else rep
        if not rep:
            rc = self.p.wait()
            err = self._stderr_tail()
            self.restart()
            raise ProbeCrash("probe died rc=%s" % rc, req, err)
        try:
            r = json.loads(rep)
        except ValueError:
            err = self._stderr_tail()
            self.restart()
            raise ProbeCrash("probe sent garbage: %r" % rep[:200], req, err)
        if "fatal" in r:
            err = self._stderr_tail()
            self.restart()
            raise ProbeCrash("probe: " + r["fatal"], req, err)
        return r

    def _readline(self):
        """next line from the probe's stdout; b"" on EOF; raises TimeoutError after self.timeout seconds"""
        deadline = getattr(self, "_deadline", None)
        while True:
            i = self.rbuf.find(b"\n")
            if i >= 0:
                line = bytes(self.rbuf[:i + 1])
                del self.rbuf[:i + 1]
                return line
            wait = None if deadline is None else max(0.0, deadline - time.time())
            r, _, _ = select.select([self.rfd], [], [], wait)
            if not r:
                raise TimeoutError()
            chunk = os.read(self.rfd, 1 << 16)
            if not chunk:
                rest = bytes(self.rbuf)
                self.rbuf.clear()
                return rest if rest.endswith(b"\n") else b""
            self.rbuf += chunk

    def call(self, cmd, **kw):
        kw["cmd"] = cmd
        r = self.raw(kw)
        if "ok" in r:
            return r["ok"]
        if r.get("exc") == "BadRequest":
            raise RuntimeError("harness bug: bad request: %s (%s)" % (r.get("what"), cmd))
        raise LibError(r.get("exc"), r.get("what"))

    def close(self):
        try:
            self.p.stdin.close()
            self.p.wait(timeout=5)
        except Exception:
            try:
                self.p.kill()
            except Exception:
                pass
        try:
            self.errf.close()
        except Exception:
            pass
        shutil.rmtree(self.tmp, ignore_errors=True)
