"""Client for the persistent C++ probe (one JSON object per line each way)."""
import json
import os
import shutil
import subprocess
import tempfile


class ProbeCrash(Exception):
    """the probe process died (signal / sanitizer abort / exit) while serving a request"""

    def __init__(self, msg, request=None, stderr=""):
        super().__init__(msg)
        self.request = request
        self.stderr = stderr


class LibError(Exception):
    """the library threw a std::exception: a clean rejection"""

    def __init__(self, exc, what):
        super().__init__("%s: %s" % (exc, what))
        self.exc = exc
        self.what = what


def hexf(x):
    """decode a probe double"""
    if isinstance(x, str):
        if x.startswith("nan"):
            return float("nan")
        if x == "inf":
            return float("inf")
        if x == "-inf":
            return float("-inf")
        return float.fromhex(x)
    return float(x)


class Probe:
    def __init__(self, exe, env=None, tmp_root=None):
        self.exe = exe
        self.tmp_root = tmp_root or tempfile.gettempdir()
        self.tmp = tempfile.mkdtemp(prefix="vprobe.", dir=self.tmp_root)
        self.env = dict(os.environ)
        self.env["VERIF_TMP"] = self.tmp
        self.env.setdefault("ASAN_OPTIONS", "detect_leaks=0:abort_on_error=1:allocator_may_return_null=1")
        self.env.setdefault("UBSAN_OPTIONS", "print_stacktrace=1:halt_on_error=1")
        if env:
            self.env.update(env)
        self.p = None
        self.calls = 0
        self.restarts = 0
        self._start()

    def _start(self):
        self.errf = open(os.path.join(self.tmp, "stderr.%d" % self.restarts), "wb+")
        self.p = subprocess.Popen([self.exe], stdin=subprocess.PIPE, stdout=subprocess.PIPE,
                                  stderr=self.errf, env=self.env, bufsize=1 << 16)
        self.rf = self.p.stdout

    def _stderr_tail(self):
        try:
            self.errf.flush()
            self.errf.seek(0)
            return self.errf.read()[-6000:].decode("latin-1")
        except Exception:
            return ""

    def restart(self):
        try:
            self.p.kill()
            self.p.wait()
        except Exception:
            pass
        self.restarts += 1
        self._start()

    def raw(self, req):
        """send request, return decoded reply dict (no exception mapping)"""
        line = (json.dumps(req, ensure_ascii=True) + "\n").encode("ascii")
        self.calls += 1
        try:
            self.p.stdin.write(line)
            self.p.stdin.flush()
            rep = self._readline()
        except (BrokenPipeError, OSError):
            rep = b""
        # replies are marked "@@R " at line start; anything else is chatter of the library on stdout
        while rep and not rep.startswith(b"@@R "):
            rep = self._readline()
        rep = rep[4:] if rep else rep
        if not rep:
            rc = self.p.wait()
            err = self._stderr_tail()
            self.restart()
            raise ProbeCrash("probe died rc=%s" % rc, req, err)
        try:
            r = json.loads(rep)
        except ValueError:
            err = self._stderr_tail()
            self.restart()
            raise ProbeCrash("probe sent garbage: %r" % rep[:200], req, err)
        if "fatal" in r:
            err = self._stderr_tail()
            self.restart()
            raise ProbeCrash("probe: " + r["fatal"], req, err)
        return r

    def _readline(self):
        buf = bytearray()
        while True:
            chunk = self.rf.readline()
            if not chunk:
                return bytes(buf)
            buf += chunk
            if buf.endswith(b"\n"):
                return bytes(buf)

    def call(self, cmd, **kw):
        kw["cmd"] = cmd
        r = self.raw(kw)
        if "ok" in r:
            return r["ok"]
        if r.get("exc") == "BadRequest":
            raise RuntimeError("harness bug: bad request: %s (%s)" % (r.get("what"), cmd))
        raise LibError(r.get("exc"), r.get("what"))

    def close(self):
        try:
            self.p.stdin.close()
            self.p.wait(timeout=5)
        except Exception:
            try:
                self.p.kill()
            except Exception:
                pass
        try:
            self.errf.close()
        except Exception:
            pass
        shutil.rmtree(self.tmp, ignore_errors=True)
