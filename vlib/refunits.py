"""Independent unit table for the four ECLIPSE deck unit systems (DESIGN 3.3).

Everything here is typed from the *physical definitions* of the units and from
the ECLIPSE unit conventions (which unit each quantity is measured in under
METRIC / FIELD / LAB / PVT-M) - not from opm/input/eclipse/Units/Units.hpp.

SI value of the units used
  inch            0.0254 m  (international inch, exact)
  foot            12 inch
  pound (mass)    0.45359237 kg (international avoirdupois pound, exact)
  g_n             9.80665 m/s^2 (standard gravity, exact)
  lbf             1 lb * g_n
  psi             lbf / inch^2
  bar             1e5 Pa            atm   101325 Pa (exact)
  day             86400 s           hour  3600 s
  US gallon       231 inch^3        stb   42 US gallons
  Mscf            1000 ft^3
  cP              1e-3 Pa s
  darcy           permeability that lets 1 cm^3/s of a 1 cP fluid through 1 cm^2 under 1 atm/cm
                  = (1e-6 m^3/s * 1e-3 Pa s * 1e-2 m) / (1e-4 m^2 * 101325 Pa) = 9.869232667160130e-13 m^2
  Btu             thermochemical, 1054.3503 J  (the Btu flavour is a convention: DESIGN 3.3 fixes this one)
  dyne/cm         1e-5 N / 1e-2 m = 1e-3 N/m
  temperatures    K = degC + 273.15 ;  K = (degF + 459.67) * 5/9 ;  K = degR * 5/9
  kg-mol 1000 mol ; lb-mol 453.59237 mol ; g-mol 1 mol
"""
import math

INCH = 0.0254
FOOT = 12 * INCH
CM = 1.0e-2
POUND = 0.45359237
GRAM = 1.0e-3
G_N = 9.80665
LBF = POUND * G_N
PSI = LBF / (INCH * INCH)
BAR = 1.0e5
ATM = 101325.0
DAY = 86400.0
HOUR = 3600.0
GALLON = 231 * INCH ** 3
STB = 42 * GALLON
FT3 = FOOT ** 3
MSCF = 1000 * FT3
M3 = 1.0
CC = CM ** 3
CP = 1.0e-3
DARCY = (1.0e-6 * 1.0e-3 * 1.0e-2) / (1.0e-4 * ATM)
MD = 1.0e-3 * DARCY
BTU = 1054.3503
KJ = 1000.0
DYNE_PER_CM = 1.0e-5 / 1.0e-2
GPA = 1.0e9
PPM = 1.0e-6
RANKINE = 5.0 / 9.0
DEGF_OFFSET = 459.67 * 5.0 / 9.0     # 0 degF in K
DEGC_OFFSET = 273.15                 # 0 degC in K

SYSTEMS = ["METRIC", "FIELD", "LAB", "PVT-M"]

# ---------------------------------------------------------------------------
# Base dimension names (the vocabulary of the keyword "dimension" annotations)
# -> (SI factor, SI offset) per unit system.  Which unit each quantity uses is
# the ECLIPSE convention (reference manual, "Units" table); the numbers come
# from the definitions above.
# ---------------------------------------------------------------------------


def _base(length, time, mass, pressure, lsv, gsv, rv, gv, energy, moles, temp, temp_off,
          density=None, polymer=None, foam=None):
    b = {
        "1": (1.0, 0.0),
        "Unit": (1.0, 0.0),
        "Pressure": (pressure, 0.0),
        "Temperature": (temp, temp_off),           # degC / degF: carries an offset
        "AbsoluteTemperature": (temp, 0.0),        # K / degR
        "Length": (length, 0.0),
        "Time": (time, 0.0),
        "RunTime": (1.0, 0.0),                     # wall-clock seconds in every system
        "Mass": (mass, 0.0),
        "Permeability": (MD, 0.0),                 # mD in every system
        "Area": (length * length, 0.0),
        # transmissibility: cP * reservoir volume / (time * pressure)
        "Transmissibility": (CP * rv / (time * pressure), 0.0),
        "GasDissolutionFactor": (gsv / lsv, 0.0),  # Rs: gas surface volume per liquid surface volume
        "OilDissolutionFactor": (lsv / gsv, 0.0),  # Rv
        "LiquidSurfaceVolume": (lsv, 0.0),
        "GasSurfaceVolume": (gsv, 0.0),
        "ReservoirVolume": (rv, 0.0),
        "GeometricVolume": (gv, 0.0),
        "Density": (mass / gv, 0.0),               # kg/m3, lb/ft3, g/cc
        "PolymerDensity": (mass / lsv, 0.0),       # polymer concentration kg/sm3, lb/stb, g/scc
        "FoamDensity": (mass / gsv, 0.0),          # gas-transported foam: kg/sm3, lb/Mscf, g/scc
        "FoamSurfactantConcentration": (mass / lsv, 0.0),
        "Salinity": (mass / lsv, 0.0),             # kg/sm3, lb/stb, g/scc
        "Viscosity": (CP, 0.0),
        "Timestep": (time, 0.0),
        "SurfaceTension": (DYNE_PER_CM, 0.0),      # dynes/cm in every system
        "Energy": (energy, 0.0),
        "PPM": (PPM, 0.0),
        "Moles": (moles, 0.0),
        "Ymodule": (GPA, 0.0),                     # GPa in every system
    }
    return b


BASE = {
    "METRIC": _base(length=1.0, time=DAY, mass=1.0, pressure=BAR, lsv=M3, gsv=M3, rv=M3, gv=M3,
                    energy=KJ, moles=1000.0, temp=1.0, temp_off=DEGC_OFFSET),
    "FIELD": _base(length=FOOT, time=DAY, mass=POUND, pressure=PSI, lsv=STB, gsv=MSCF, rv=STB, gv=FT3,
                   energy=BTU, moles=1000.0 * POUND, temp=RANKINE, temp_off=DEGF_OFFSET),
    "LAB": _base(length=CM, time=HOUR, mass=GRAM, pressure=ATM, lsv=CC, gsv=CC, rv=CC, gv=CC,
                 energy=1.0, moles=1.0, temp=1.0, temp_off=DEGC_OFFSET),
    "PVT-M": _base(length=1.0, time=DAY, mass=1.0, pressure=ATM, lsv=M3, gsv=M3, rv=M3, gv=M3,
                   energy=KJ, moles=1000.0, temp=1.0, temp_off=DEGC_OFFSET),
}
BASE_NAMES = sorted(BASE["METRIC"])
CONTEXT_DEPENDENT = "ContextDependent"


class DimError(Exception):
    pass


def dim(system, s):
    """(factor, offset) of the dimension string `s` = 'A*B/C*D' meaning (A*B)/(C*D): the product of the
    base factors left of the single '/', divided by the product of those right of it.  A base with an
    offset (Temperature) is only meaningful on its own; in a composite it raises DimError."""
    b = BASE[system]
    if s.count("/") > 1:
        raise DimError("more than one '/'")
    parts = s.split("/")
    num = parts[0].split("*")
    den = parts[1].split("*") if len(parts) == 2 else []
    names = num + den
    for n in names:
        if n not in b:
            raise DimError("unknown base dimension %r" % n)
    if len(names) == 1:
        return b[names[0]]
    f = 1.0
    for n in num:
        if b[n][1] != 0.0:
            raise DimError("offset dimension in composite")
        f *= b[n][0]
    g = 1.0
    for n in den:
        if b[n][1] != 0.0:
            raise DimError("offset dimension in composite")
        g *= b[n][0]
    return (f / g, 0.0)


# ---------------------------------------------------------------------------
# UnitSystem::measure entries, in the order of the public enum, with the
# physical meaning of each (as a dimension string over the base names, or a
# function for the few that need a power / a "per second").
# ---------------------------------------------------------------------------


def _sq(x):
    return x * x


MEASURES = [
    ("identity", "1"),
    ("length", "Length"),
    ("time", "Time"),
    ("runtime", "RunTime"),
    ("density", "Density"),
    ("pressure", "Pressure"),
    ("temperature_absolute", "AbsoluteTemperature"),
    ("temperature", "Temperature"),
    ("viscosity", "Viscosity"),
    ("permeability", "Permeability"),
    ("area", "Area"),
    ("liquid_surface_volume", "LiquidSurfaceVolume"),
    ("gas_surface_volume", "GasSurfaceVolume"),
    ("volume", "ReservoirVolume"),
    ("geometric_volume", "GeometricVolume"),
    ("liquid_surface_rate", "LiquidSurfaceVolume/Time"),
    ("gas_surface_rate", "GasSurfaceVolume/Time"),
    ("rate", "ReservoirVolume/Time"),
    ("geometric_volume_rate", "GeometricVolume/Time"),
    ("pipeflow_velocity", lambda b: b["Length"][0] / 1.0),          # length unit per SECOND
    ("transmissibility", "Transmissibility"),
    ("effective_Kh", "Permeability*Length"),
    ("mass", "Mass"),
    ("mass_rate", "Mass/Time"),
    ("gas_oil_ratio", "GasSurfaceVolume/LiquidSurfaceVolume"),
    ("oil_gas_ratio", "LiquidSurfaceVolume/GasSurfaceVolume"),
    ("water_cut", "1"),
    ("gas_formation_volume_factor", "ReservoirVolume/GasSurfaceVolume"),
    ("oil_formation_volume_factor", "ReservoirVolume/LiquidSurfaceVolume"),
    ("water_formation_volume_factor", "ReservoirVolume/LiquidSurfaceVolume"),
    ("gas_inverse_formation_volume_factor", "GasSurfaceVolume/ReservoirVolume"),
    ("oil_inverse_formation_volume_factor", "LiquidSurfaceVolume/ReservoirVolume"),
    ("water_inverse_formation_volume_factor", "LiquidSurfaceVolume/ReservoirVolume"),
    ("liquid_productivity_index", "LiquidSurfaceVolume/Time*Pressure"),
    ("gas_productivity_index", "GasSurfaceVolume/Time*Pressure"),
    ("energy", "Energy"),
    ("energy_rate", "Energy/Time"),
    # ICD strength: pressure drop per (reservoir volume rate)^2, volume measured geometrically (m3, ft3, cc)
    ("icd_strength", lambda b: b["Pressure"][0] / _sq(b["GeometricVolume"][0] / b["Time"][0])),
    ("aicd_strength", lambda b: b["Pressure"][0] / b["Density"][0] / _sq(b["GeometricVolume"][0] / b["Time"][0])),
    ("polymer_density", "PolymerDensity"),
    ("salinity", "Salinity"),
    ("gas_oil_ratio_rate", "GasSurfaceVolume/LiquidSurfaceVolume*Time"),
    ("moles", "Moles"),
    ("ppm", "PPM"),
    ("ymodule", "Ymodule"),
    ("dfactor", "Time/GasSurfaceVolume"),
]
MEASURE_INDEX = {n: i for i, (n, _) in enumerate(MEASURES)}


def measure(system, m):
    """(factor, offset) of measure index/name m"""
    if isinstance(m, str):
        m = MEASURE_INDEX[m]
    spec = MEASURES[m][1]
    if callable(spec):
        return (spec(BASE[system]), 0.0)
    return dim(system, spec)


# ---------------------------------------------------------------------------
# Unit *symbols* as printed in ECLIPSE summary / restart files -> SI value, and
# a small parser for the composite symbols ("SM3/DAY/BARS", "PSI/(RFT3/DAY)2").
# Division is left associative here (A/B/C = A/(B*C)), a trailing 2 after a
# parenthesis is a square.
# ---------------------------------------------------------------------------
SYMBOLS = {
    "M": 1.0, "FT": FOOT, "CM": CM,
    "DAYS": DAY, "DAY": DAY, "D": DAY, "HOURS": HOUR, "HR": HOUR, "H": HOUR, "SECONDS": 1.0, "SEC": 1.0,
    "KG": 1.0, "LB": POUND, "G": GRAM,
    "M3": M3, "SM3": M3, "RM3": M3, "R3": M3, "FT3": FT3, "RFT3": FT3, "STB": STB, "RB": STB, "MSCF": MSCF,
    "CC": CC, "SCC": CC, "RCC": CC,
    "SM2": 1.0, "M2": 1.0, "FT2": FOOT * FOOT, "CM2": CM * CM,
    "BARSA": BAR, "BARS": BAR, "BARSG": BAR, "B": BAR, "PSIA": PSI, "PSI": PSI, "ATM": ATM, "ATMA": ATM,
    "K": 1.0, "R": RANKINE, "C": 1.0, "F": RANKINE,
    "CP": CP, "MD": MD,
    "KJ": KJ, "BTU": BTU, "J": 1.0,
    "PPM": PPM, "GPA": GPA,
    "KG-M": 1000.0, "LB-M": 1000.0 * POUND, "G-M": 1.0,
}
SYMBOL_OFFSETS = {"C": DEGC_OFFSET, "F": DEGF_OFFSET}


class SymbolError(Exception):
    pass


def _atom(tok):
    t = tok.upper()
    if t in SYMBOLS:
        return SYMBOLS[t]
    # concatenated products such as MDM, MDFT, CPM3, CPRB, CPRCC: split into two known symbols
    hits = []
    for k in range(1, len(t)):
        a, b = t[:k], t[k:]
        if a in SYMBOLS and b in SYMBOLS:
            hits.append(SYMBOLS[a] * SYMBOLS[b])
    if not hits:
        raise SymbolError("unknown unit symbol %r" % tok)
    if max(hits) - min(hits) > 1e-12 * max(hits):
        raise SymbolError("ambiguous unit symbol %r" % tok)
    return hits[0]


def symbol_factor(name):
    """SI factor denoted by a unit name, '' = dimensionless.  Raises SymbolError if not understood."""
    s = name.replace(" ", "")
    if s == "":
        return 1.0
    pos = 0

    def parse_expr():
        nonlocal pos
        v = parse_term()
        while pos < len(s) and s[pos] == "/":
            pos += 1
            v = v / parse_term()
        return v

    def parse_term():
        nonlocal pos
        if pos < len(s) and s[pos] == "(":
            pos += 1
            v = parse_expr()
            if pos >= len(s) or s[pos] != ")":
                raise SymbolError("unbalanced parenthesis in %r" % name)
            pos += 1
            if pos < len(s) and s[pos] == "2":
                pos += 1
                v = v * v
            return v
        start = pos
        while pos < len(s) and s[pos] not in "/()":
            pos += 1
        if start == pos:
            raise SymbolError("empty symbol in %r" % name)
        return _atom(s[start:pos])

    v = parse_expr()
    if pos != len(s):
        raise SymbolError("trailing text in %r" % name)
    return v


def symbol_offset(name):
    return SYMBOL_OFFSETS.get(name.replace(" ", "").upper(), 0.0)


if __name__ == "__main__":
    for sysname in SYSTEMS:
        for i, (n, _) in enumerate(MEASURES):
            print(sysname, i, n, measure(sysname, i))
    assert math.isclose(DARCY, 9.869232667160130e-13, rel_tol=1e-15)
