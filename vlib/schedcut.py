"""Text-level cutting of a deck's SCHEDULE section at DATES/TSTEP boundaries."""
import re


def strip_comment(line):
    # quote-aware "--" comment removal
    out = []
    q = None
    i = 0
    while i < len(line):
        c = line[i]
        if q:
            if c == q:
                q = None
        elif c in "'\"":
            q = c
        elif c == "-" and line[i:i + 2] == "--":
            break
        out.append(c)
        i += 1
    return "".join(out)


def split_schedule(text):
    """-> (head_lines, sched_lines) ; head includes the SCHEDULE keyword line"""
    lines = text.split("\n")
    for i, l in enumerate(lines):
        if strip_comment(l).strip().upper() == "SCHEDULE":
            return lines[:i + 1], lines[i + 1:]
    return None, None


def time_keyword_ends(sched_lines):
    """indices (exclusive end line, number of report steps closed so far) after each DATES / TSTEP keyword.
    Returns None if the section uses constructs this cutter does not understand (INCLUDE, SKIPREST...)"""
    ends = []
    nsteps = 0
    i = 0
    n = len(sched_lines)
    in_action = False
    while i < n:
        raw = strip_comment(sched_lines[i])
        word = raw.strip().split()[0].upper() if raw.strip() else ""
        if word in ("INCLUDE", "SKIPREST", "END", "PYACTION", "PYINPUT", "SKIP", "SKIP100", "SKIP300", "ENDSKIP", "RESTART"):
            return None
        if word == "ACTIONX":
            in_action = True
        if word == "ENDACTIO":
            in_action = False
        if word in ("DATES", "TSTEP") and raw[:1] not in " \t" and not in_action:
            j = i + 1
            if word == "TSTEP":
                # one record, may span lines; count values (n*v expands)
                cnt = 0
                done = False
                while j < n and not done:
                    l = strip_comment(sched_lines[j])
                    for tok in l.replace("/", " / ").split():
                        if tok == "/":
                            done = True
                            break
                        m = re.match(r"^(\d+)\*(.+)$", tok)
                        cnt += int(m.group(1)) if m else 1
                    j += 1
                nsteps += cnt
            else:
                # records until a lone slash
                while j < n:
                    l = strip_comment(sched_lines[j]).strip()
                    j += 1
                    if l == "/":
                        break
                    if l.endswith("/") or "/" in l:
                        nsteps += 1
            ends.append((j, nsteps))
            i = j
            continue
        i += 1
    return ends
