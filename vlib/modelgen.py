"""Curated model generator (DESIGN 3.2): a small complete model (fixed RUNSPEC..SUMMARY prelude,
4x4x3 grid) and generated SCHEDULE sections over a handler set whose preconditions are kept by
construction.  A schedule is a list of blocks; block = {"kws": [keyword text...], "time": text,
"nsteps": report steps closed by the time keyword}.  Every keyword text is self-contained."""
import copy

from hypothesis import strategies as st

NX, NY, NZ = 4, 4, 3

PRELUDE = """RUNSPEC
TITLE
 GENERATED MODEL
DIMENS
 {nx} {ny} {nz} /
{phases}{unit}
START
 1 'JAN' 2020 /
WELLDIMS
 12 12 8 12 6* 4 4 /
TABDIMS
 1 1 20 20 2 20 /
EQLDIMS
 1 /
REGDIMS
 2 /
UDQDIMS
 20 20 4 20 20 4 4 4 4 4 /
UDQPARAM
 3* 0.0001 /
ACTDIMS
 10 10 10 10 /
WSEGDIMS
 3 12 6 /
NETWORK
 6 5 /
{runspec_extra}GRID
DX
 {n}*100 /
DY
 {n}*100 /
DZ
 {n}*10 /
TOPS
 {nxy}*2000 /
PORO
 {n}*0.2 /
PERMX
 {n}*100 /
PERMY
 {n}*80 /
PERMZ
 {n}*10 /
{grid_extra}PROPS
SWOF
 0.2 0.0 1.0 0.0
 0.5 0.2 0.3 0.0
 1.0 1.0 0.0 0.0 /
SGOF
 0.0 0.0 1.0 0.0
 0.4 0.3 0.2 0.0
 0.8 1.0 0.0 0.0 /
PVTW
 200 1.0 4.0e-5 0.5 0.0 /
PVDO
 100 1.10 1.0
 200 1.05 1.1
 300 1.00 1.2 /
PVDG
 100 0.010 0.010
 200 0.005 0.015
 300 0.003 0.020 /
DENSITY
 850 1000 1.0 /
ROCK
 200 4.0e-5 /
{props_extra}REGIONS
FIPNUM
 {h1}*1 {h2}*2 /
SOLUTION
{solution}SUMMARY
FOPR
WOPR
/
SCHEDULE
{schedule_head}"""

EQUIL_TEXT = "EQUIL\n 2000 200 2100 0 1900 0 /\n"

MONTHS = ["JAN", "FEB", "MAR", "APR", "MAY", "JUN", "JUL", "AUG", "SEP", "OCT", "NOV", "DEC"]


def prelude(unit="METRIC", runspec_extra="", dims=None, phases=("OIL", "WATER", "GAS"), grid_extra="", solution=None,
            schedule_head="", props_extra=""):
    """the fixed RUNSPEC..SUMMARY part.  Defaults give the 4x4x3 three-phase model used by C03/C04/C11; C05 varies the
    grid size, the phases, adds ACTNUM (grid_extra), replaces EQUIL by RESTART (solution) and puts SKIPREST / RPTRST
    at the top of SCHEDULE (schedule_head)."""
    nx, ny, nz = dims or (NX, NY, NZ)
    n = nx * ny * nz
    return PRELUDE.format(unit=unit, runspec_extra=runspec_extra, nx=nx, ny=ny, nz=nz, n=n, nxy=nx * ny,
                          phases="".join(p + "\n" for p in phases), grid_extra=grid_extra, h1=n // 2, h2=n - n // 2,
                          solution=EQUIL_TEXT if solution is None else solution, schedule_head=schedule_head,
                          props_extra=props_extra)


class Model:
    """what exists at the current point of the schedule"""

    def __init__(self, dims=None, blocked=()):
        # dims / blocked (columns (i, j) no well may touch, e.g. holding inactive cells) are used by C05 only
        self.nx, self.ny, self.nz = dims or (NX, NY, NZ)
        self.blocked = set(tuple(b) for b in blocked)
        self.wells = {}        # name -> dict(group, kind 'P'|'I', i, j, conns: [k...], injtype)
        self.groups = {"FIELD": None}   # name -> parent
        self.wlists = {}
        self.udqs = {}         # name -> kind
        self.actions = []
        self.action_defs = {}   # name -> dict(body=[texts], qkind=None|'P'|'I', def_step=int)
        self.date = [1, 0, 2020]   # day, month index, year
        self.step = 0
        self.uda_devices = True    # WSEGVALV with a UDQ-valued area (C05 switches it off: not in the restart file)

    def clone(self):
        return copy.deepcopy(self)


def _free_column(m, i, j):
    """(i, j) itself unless the column is blocked; then a deterministic free column (no extra draws)"""
    if (i, j) not in m.blocked:
        return i, j
    free = [(a, b) for a in range(1, m.nx + 1) for b in range(1, m.ny + 1) if (a, b) not in m.blocked]
    return free[(i * 31 + j) % len(free)]


def fnum(x):
    return repr(float(x)) if not float(x).is_integer() else str(int(x))


rate = st.sampled_from([0, 10, 50, 100, 250.5, 1000, 1e4])
press = st.sampled_from([20, 50, 100, 150.5, 250, 400])
frac = st.sampled_from([0.1, 0.25, 0.5, 0.75, 0.9, 1.0, 0.0, 1e-3])


@st.composite
def kw_welspecs(draw, m):
    name = ("P%d" if draw(st.booleans()) else "I%d") % (len(m.wells) + 1)
    kind = name[0]
    grp = draw(st.sampled_from([g for g in m.groups if g != "FIELD"] + ["G1", "G2", "G3"]))
    if grp not in m.groups:
        m.groups[grp] = "FIELD"
    i, j = _free_column(m, draw(st.integers(1, m.nx)), draw(st.integers(1, m.ny)))
    phase = "OIL" if kind == "P" else draw(st.sampled_from(["WATER", "GAS"]))
    depth = draw(st.sampled_from(["1*", "2005", "2010.5"]))
    extra = draw(st.sampled_from(["", " 1* 'STD' 'SHUT' 'YES'", " 0.5", " 1* 'STD' 'STOP' 'NO' 1"]))
    m.wells[name] = dict(group=grp, kind=kind, i=i, j=j, conns=[], injtype=phase, open=True)
    return "WELSPECS\n '%s' '%s' %d %d %s '%s'%s /\n/\n" % (name, grp, i, j, depth, phase, extra)


@st.composite
def kw_compdat(draw, m):
    w = draw(st.sampled_from(sorted(m.wells)))
    W = m.wells[w]
    k1 = draw(st.integers(1, m.nz))
    k2 = draw(st.integers(k1, m.nz))
    state = draw(st.sampled_from(["OPEN", "OPEN", "SHUT"]))
    ij = draw(st.sampled_from(["well", "other"]))
    if ij == "well":
        i, j, itxt = W["i"], W["j"], "2*" if draw(st.booleans()) else "%d %d" % (W["i"], W["j"])
    else:
        i, j = _free_column(m, draw(st.integers(1, m.nx)), draw(st.integers(1, m.ny)))
        itxt = "%d %d" % (i, j)
    tail = draw(st.sampled_from(["1* 1* 0.2", "1* 10.5 0.2", "1* 1* 0.3 1* 2.5", "1* 1* 0.2 1* 0 1* 'X'", "2 1* 0.25 500"]))
    if W.get("msw") and W["conns"]:
        # a multisegment well gets no new connections (they would lack a COMPSEGS entry): re-specify an existing one
        i, j, k1 = W["conns"][(k1 * 7 + k2) % len(W["conns"])]
        k2 = k1
        itxt = "%d %d" % (i, j)
    for k in range(k1, k2 + 1):
        if (i, j, k) not in W["conns"]:
            W["conns"].append((i, j, k))
    return "COMPDAT\n '%s' %s %d %d '%s' %s /\n/\n" % (w, itxt, k1, k2, state, tail)


def _wells(m, kind=None, conn=True):
    return sorted(w for w, W in m.wells.items() if (kind is None or W["kind"] == kind) and (W["conns"] or not conn))


@st.composite
def well_pattern(draw, m, names):
    """a well name, a pattern or a well list matching only wells of `names`"""
    w = draw(st.sampled_from(names))
    return w


@st.composite
def kw_wconprod(draw, m):
    # now and then an injector is turned into a producer (the well keeps its name)
    conv = _wells(m, "I") if draw(st.integers(0, 7)) == 0 and not getattr(m, "no_convert", False) else []
    w = draw(st.sampled_from(conv or _wells(m, "P")))
    if m.wells[w]["kind"] != "P":
        m.wells[w]["kind"] = "P"
        m.wells[w]["converted"] = True
    m.wells[w]["ctl"] = "prod"
    status = draw(st.sampled_from(["OPEN", "OPEN", "SHUT", "STOP"]))
    mode = draw(st.sampled_from(["ORAT", "WRAT", "GRAT", "LRAT", "RESV", "BHP"]))
    vals = [draw(st.one_of(st.just("1*"), rate.map(fnum))) for _ in range(5)]
    # the controlling quantity must be given
    idx = {"ORAT": 0, "WRAT": 1, "GRAT": 2, "LRAT": 3, "RESV": 4}.get(mode)
    if idx is not None and vals[idx] == "1*":
        vals[idx] = fnum(draw(rate))
    if mode == "GRUP" and m.wells[w]["group"] == "FIELD":
        mode = "BHP"
    bhp = fnum(draw(press))
    return "WCONPROD\n '%s' '%s' '%s' %s %s /\n/\n" % (w, status, mode, " ".join(vals), bhp)


@st.composite
def kw_wconinje(draw, m):
    # ... and a producer into an injector
    conv = _wells(m, "P") if draw(st.integers(0, 7)) == 0 and not getattr(m, "no_convert", False) else []
    w = draw(st.sampled_from(conv or _wells(m, "I")))
    if m.wells[w]["kind"] != "I":
        m.wells[w]["kind"] = "I"
        m.wells[w]["converted"] = True
        if m.wells[w]["injtype"] not in ("WATER", "GAS"):
            m.wells[w]["injtype"] = "WATER"
    typ = m.wells[w]["injtype"]
    m.wells[w]["ctl"] = "inje"
    status = draw(st.sampled_from(["OPEN", "OPEN", "SHUT", "STOP"]))
    mode = draw(st.sampled_from(["RATE", "RESV", "BHP"]))
    r = fnum(draw(rate))
    rv = draw(st.sampled_from(["1*", "500"]))
    if mode == "RESV":
        rv = "500"
    return "WCONINJE\n '%s' '%s' '%s' '%s' %s %s %s /\n/\n" % (w, typ, status, mode, r, rv, fnum(draw(press) + 200))


@st.composite
def kw_wconhist(draw, m):
    w = draw(st.sampled_from(_wells(m, "P")))
    return "WCONHIST\n '%s' '%s' '%s' %s %s %s /\n/\n" % (
        w, draw(st.sampled_from(["OPEN", "SHUT", "STOP"])), draw(st.sampled_from(["ORAT", "LRAT", "RESV", "WRAT", "GRAT"])),
        fnum(draw(rate)), fnum(draw(rate)), fnum(draw(rate)))


@st.composite
def kw_welopen(draw, m):
    w = draw(st.sampled_from(_wells(m)))
    st_ = draw(st.sampled_from(["OPEN", "SHUT", "STOP", "AUTO"]))
    if draw(st.integers(0, 2)) == 0 and m.wells[w]["conns"]:
        i, j, k = draw(st.sampled_from(m.wells[w]["conns"]))
        st_ = draw(st.sampled_from(["OPEN", "SHUT"]))
        return "WELOPEN\n '%s' '%s' %d %d %d /\n/\n" % (w, st_, i, j, k)
    return "WELOPEN\n '%s' '%s' /\n/\n" % (w, st_)


@st.composite
def kw_weltarg(draw, m):
    prods = _wells(m, "P")
    injs = _wells(m, "I")
    if prods and (not injs or draw(st.booleans())):
        w = draw(st.sampled_from(prods))
        what = draw(st.sampled_from(["ORAT", "WRAT", "GRAT", "LRAT", "RESV", "BHP", "GUID"]))
    else:
        w = draw(st.sampled_from(injs))
        what = draw(st.sampled_from(["WRAT" if m.wells[w]["injtype"] == "WATER" else "GRAT", "BHP", "RESV"]))
    return "WELTARG\n '%s' '%s' %s /\n/\n" % (w, what, fnum(draw(rate) + 1))


@st.composite
def kw_wefac(draw, m):
    w = draw(st.sampled_from(sorted(m.wells)))
    return "WEFAC\n '%s' %s%s /\n/\n" % (w, fnum(draw(frac)), draw(st.sampled_from(["", "", " 'YES'", " 'NO'"])))


@st.composite
def kw_gefac(draw, m):
    g = draw(st.sampled_from(sorted(g for g in m.groups if g != "FIELD")))
    return "GEFAC\n '%s' %s%s /\n/\n" % (g, fnum(draw(frac)), draw(st.sampled_from(["", "", " 'YES'", " 'NO'"])))


@st.composite
def kw_gruptree(draw, m):
    # attach a (possibly new) group below an existing one, keeping the tree acyclic:
    # only groups without wells may become parents of groups (Eclipse rule), new groups are leaves
    # (N1..N3 never get wells, so they can become parents: trees of depth > 2 and moves between non-FIELD parents)
    child = draw(st.sampled_from(["G1", "G2", "G3", "G4", "N1", "N2", "N3", "N2", "N3"]))
    deep = sorted(c for c, p in m.groups.items() if p != "FIELD" and c != "FIELD")
    if deep and draw(st.booleans()):
        child = draw(st.sampled_from(deep))         # move a group that hangs below a non-FIELD parent
    wellgroups = {W["group"] for W in m.wells.values()}
    def desc(g):
        out = {g}
        for c, p in m.groups.items():
            if p in out:
                out |= desc(c)
        return out
    cands = sorted(g for g in m.groups if g not in wellgroups and g not in desc(child) and g != child)
    if "FIELD" not in cands:
        cands.append("FIELD")
    # a node group that does not exist yet may be named as parent (GRUPTREE creates it below FIELD)
    cands += [n for n in ("N1", "N2", "N3") if n not in m.groups and n != child]
    parent = draw(st.sampled_from(cands))
    if parent not in m.groups:
        m.groups[parent] = "FIELD"
    m.groups[child] = parent
    return "GRUPTREE\n '%s' '%s' /\n/\n" % (child, parent)


@st.composite
def kw_gconprod(draw, m):
    g = draw(st.sampled_from(sorted(m.groups)))
    mode = draw(st.sampled_from(["NONE", "ORAT", "WRAT", "GRAT", "LRAT", "RESV", "FLD"]))
    if g == "FIELD" and mode == "FLD":
        mode = "ORAT"
    vals = [fnum(draw(rate) + 1) for _ in range(4)]
    act = draw(st.sampled_from(["NONE", "RATE", "WELL", "CON"]))
    return "GCONPROD\n '%s' '%s' %s '%s' /\n/\n" % (g, mode, " ".join(vals), act)


@st.composite
def kw_gconinje(draw, m):
    g = draw(st.sampled_from(sorted(m.groups)))
    ph = draw(st.sampled_from(["WATER", "GAS"]))
    mode = draw(st.sampled_from(["NONE", "RATE", "RESV", "REIN", "VREP", "FLD"]))
    if g == "FIELD" and mode == "FLD":
        mode = "RATE"
    return "GCONINJE\n '%s' '%s' '%s' %s %s %s %s /\n/\n" % (g, ph, mode, fnum(draw(rate) + 1), fnum(draw(rate) + 1),
                                                          fnum(draw(frac)), fnum(draw(frac)))


@st.composite
def kw_wgrupcon(draw, m):
    w = draw(st.sampled_from(sorted(m.wells)))
    return "WGRUPCON\n '%s' '%s' %s '%s' /\n/\n" % (w, draw(st.sampled_from(["YES", "NO"])), fnum(draw(rate)),
                                                    draw(st.sampled_from(["OIL", "WAT", "GAS", "LIQ", "RES"])))


@st.composite
def kw_wlist(draw, m):
    if len(m.wells) >= 2 and draw(st.integers(0, 2)) == 0:
        # a short history in one keyword: two lists sharing a well, then that well leaves the list it joined first
        # (DEL, MOV to the other list, or the first list redefined without it)
        ws = sorted(m.wells)
        w1 = draw(st.sampled_from(ws))
        others = [w for w in ws if w != w1]
        w2 = draw(st.sampled_from(others))
        la, lb = draw(st.sampled_from([("*L1", "*L2"), ("*L2", "*L1"), ("*LX", "*L1"), ("*L2", "*LX")]))
        recs = [" '%s' 'NEW' '%s' /" % (la, w1), " '%s' 'NEW' '%s' '%s' /" % (lb, w1, w2)]
        last = draw(st.sampled_from(["DEL", "DEL", "NEW", "MOV", "none"]))
        if last == "DEL":
            recs.append(" '%s' 'DEL' '%s' /" % (la, w1))
        elif last == "NEW":
            recs.append(" '%s' 'NEW' '%s' /" % (la, w2))
        elif last == "MOV":
            recs.append(" '%s' 'MOV' '%s' /" % (lb, w2))
        m.wlists.setdefault(la, set())
        m.wlists.setdefault(lb, set())
        return "WLIST\n%s\n/\n" % "\n".join(recs)
    name = draw(st.sampled_from(["*L1", "*L2", "*LX"]))
    wells = draw(st.lists(st.sampled_from(sorted(m.wells)), min_size=1, max_size=3, unique=True))
    op = "NEW" if name not in m.wlists else draw(st.sampled_from(["NEW", "ADD", "DEL", "MOV"]))
    m.wlists.setdefault(name, set())
    return "WLIST\n '%s' '%s' %s /\n/\n" % (name, op, " ".join("'%s'" % w for w in wells))


@st.composite
def kw_wtest(draw, m):
    w = draw(st.sampled_from(sorted(m.wells)))
    return "WTEST\n '%s' %s '%s' %d %s /\n/\n" % (w, fnum(draw(st.sampled_from([1, 10, 30.5]))), draw(st.sampled_from(["P", "E", "PE", "G", "PEG"])),
                                                  draw(st.integers(0, 5)), fnum(draw(st.sampled_from([0, 1, 5]))))


@st.composite
def kw_wecon(draw, m):
    w = draw(st.sampled_from(_wells(m, "P") or sorted(m.wells)))
    # items 9..12 (follow-on well, quantity, secondary water-cut limit and its workover) in a third of the records; the
    # secondary workover defaults to the primary one, so an explicit 'NONE' next to a real primary procedure matters
    tail = ""
    if draw(st.integers(0, 2)) == 0:
        tail = " 1* '%s' %s %s" % (draw(st.sampled_from(["RATE", "POTN"])), fnum(draw(st.sampled_from([0.95, 0.5, 0]))),
                                   draw(st.sampled_from(["'NONE'", "'NONE'", "'CON'", "'WELL'", "1*", "'+CON'", "'PLUG'"])))
    return "WECON\n '%s' %s %s %s 2* '%s' '%s'%s /\n/\n" % (w, fnum(draw(rate)), fnum(draw(rate)), fnum(draw(frac)),
                                                           draw(st.sampled_from(["NONE", "CON", "+CON", "WELL", "PLUG"])),
                                                           draw(st.sampled_from(["YES", "NO"])), tail)


@st.composite
def kw_wpimult(draw, m):
    w = draw(st.sampled_from(_wells(m)))
    f = fnum(draw(st.sampled_from([0.5, 2, 1.5, 10])))
    if draw(st.booleans()):
        i, j, k = draw(st.sampled_from(m.wells[w]["conns"]))
        return "WPIMULT\n '%s' %s %d %d %d /\n/\n" % (w, f, i, j, k)
    return "WPIMULT\n '%s' %s /\n/\n" % (w, f)


@st.composite
def int_controls(draw):
    """old-style integer controls of RPTRST / RPTSCHED / RPTSOL: a list of small integers of ANY length (the positions
    have meanings up to about 30..80; lengths around those bounds matter)"""
    n = draw(st.sampled_from([1, 8, 20, 25, 26, 27, 30, 31, 32, 33, 47, 48, 49]) | st.integers(1, 90))
    vals = [draw(st.sampled_from([0, 0, 0, 1, 1, 2, 3])) for _ in range(n)]
    # written with repeat counts where neighbours are equal (as decks do)
    out, i = [], 0
    while i < n:
        j = i
        while j + 1 < n and vals[j + 1] == vals[i]:
            j += 1
        out.append("%d*%d" % (j - i + 1, vals[i]) if j > i and draw(st.booleans()) else " ".join(str(vals[i]) for _ in range(j - i + 1)))
        i = j + 1
    return " ".join(out)


@st.composite
def vfp_table(draw):
    """a small, complete VFPPROD or VFPINJ table (table numbers 5..7)"""
    num = draw(st.integers(5, 7))
    if draw(st.booleans()):
        nf, nt = draw(st.integers(1, 3)), draw(st.integers(1, 2))
        flo = " ".join(str(10 * (i + 1)) for i in range(nf))
        thp = " ".join(str(20 * (i + 1)) for i in range(nt))
        rows = "".join(" %d %s /\n" % (t + 1, " ".join(str(100 + 10 * t + 5 * f) for f in range(nf))) for t in range(nt))
        return "VFPINJ\n %d 2000 '%s' 'THP' 1* 'BHP' /\n %s /\n %s /\n%s" % (
            num, draw(st.sampled_from(["WAT", "WAT", "OIL", "GAS"])), flo, thp, rows)
    nf, nt, nw, ng, na = draw(st.integers(1, 3)), draw(st.integers(1, 2)), draw(st.integers(1, 2)), draw(st.integers(1, 2)), 1
    flo = " ".join(str(10 * (i + 1)) for i in range(nf))
    rows = ""
    for a in range(na):
        for g in range(ng):
            for w in range(nw):
                for t in range(nt):
                    rows += " %d %d %d %d %s /\n" % (t + 1, w + 1, g + 1, a + 1, " ".join(str(100 + 10 * t + 5 * f + w + g) for f in range(nf)))
    kinds = draw(st.sampled_from(["'LIQ' 'WCT' 'GOR' 'THP' ' '", "'LIQ' 'WCT' 'GOR' 'THP' ' '", "'OIL' 'WOR' 'GLR' 'THP' 'GRAT'",
                                  "'GAS' 'WGR' 'OGR' 'THP' 1*", "'LIQ' 'WCT' 'GLR' 'THP' 'IGLR'", "'OIL' 'WCT' 'GOR' 'THP' 'TGLR'"]))
    return ("VFPPROD\n %d 2000 %s 1* 'BHP' /\n %s /\n %s /\n %s /\n %s /\n 0 /\n%s" % (
        num, kinds, flo, " ".join(str(20 * (i + 1)) for i in range(nt)), " ".join(str(0.25 * i) for i in range(nw)),
        " ".join(str(100 * (i + 1)) for i in range(ng)), rows))


@st.composite
def kw_misc(draw, m):
    if draw(st.integers(0, 15)) == 0:
        return draw(vfp_table())
    if draw(st.integers(0, 7)) == 0:
        return "%s\n %s /\n" % (draw(st.sampled_from(["RPTRST", "RPTRST", "RPTSCHED"])), draw(int_controls()))
    return draw(st.sampled_from([
        "TUNING\n 1 10 0.1 0.15 3 0.3 0.1 1.25 /\n /\n 12 1 25 1 8 8 /\n",
        "TUNING\n 0.5 5 /\n /\n 10 1 20 /\n",
        "NEXTSTEP\n 0.5 /\n", "NEXTSTEP\n 2 'YES' /\n", "NUPCOL\n 4 /\n", "NUPCOL\n 12 /\n",
        "RPTRST\n BASIC=2 /\n", "RPTRST\n BASIC=3 FREQ=2 /\n", "RPTSCHED\n FIP=2 WELLS=1 /\n", "RPTSCHED\n NOTHING /\n",
        "MESSAGES\n 10 10 10 10 10 10 100 100 100 100 100 100 /\n", "SAVE\n", "WHISTCTL\n 'ORAT' /\n",
        "SUMTHIN\n 10 /\n", "RPTONLY\n", "RPTONLYO\n", "DRVDT\n 0.001 /\n", "VAPPARS\n 2 0.1 /\n", "GUIDERAT\n 10 'OIL' 1 0.5 1 1 0 0 'YES' 0.5 /\n",
        "WRFTPLT\n '*' 'YES' 'NO' 'NO' /\n/\n", "WRFT\n/\n", "GCONSALE\n 'FIELD' 50000 55000 45000 'WELL' /\n/\n",
        "GCONSUMP\n 'FIELD' 20 50 /\n/\n", "LIFTOPT\n 12500 5e-3 0.0 'YES' /\n", "GECON\n 'FIELD' 100 200 0.9 5 2 'CON' 'NO' /\n/\n",
        "WELPI\n '*' 5 /\n/\n", "BRANPROP\n 'FIELD' 'N1' 0 /\n/\n",
    ]))


@st.composite
def kw_udq(draw, m):
    recs = []
    for _ in range(draw(st.integers(1, 3))):
        c = draw(st.integers(0, 4))
        if c == 0:
            n = draw(st.sampled_from(["FU_A", "FU_B", "FU_C"]))
            m.udqs[n] = "F"
            recs.append(" ASSIGN %s %s /" % (n, fnum(draw(rate))))
        elif c == 1:
            n = draw(st.sampled_from(["WU_A", "WU_B"]))
            m.udqs[n] = "W"
            sel = draw(st.sampled_from(["", " 'P*'"] + [" '%s'" % w for w in sorted(m.wells)][:2]))
            recs.append(" ASSIGN %s%s %s /" % (n, sel, fnum(draw(rate))))
        elif c == 2:
            n = draw(st.sampled_from(["FU_D", "FU_E"]))
            m.udqs[n] = "F"
            recs.append(" DEFINE %s %s /" % (n, draw(st.sampled_from(["FOPR * 2", "FOPR + FWPR", "SUM(WOPR) / 2", "MAX(WWPR 'P*')", "(FOPR - 5) * 3"]))))
        elif c == 3:
            n = draw(st.sampled_from(["WU_C", "WU_D"]))
            m.udqs[n] = "W"
            recs.append(" DEFINE %s %s /" % (n, draw(st.sampled_from(["WOPR * 2", "WOPR + WWPR", "WOPR / (WOPR + WWPR + 1)", "WOPR 'P*' - 1"]))))
        else:
            if m.udqs:
                n = draw(st.sampled_from(sorted(m.udqs)))
                if draw(st.booleans()):
                    recs.append(" UNITS %s '%s' /" % (n, draw(st.sampled_from(["SM3/DAY", "BARSA", "XX"]))))
    if not recs:
        recs.append(" ASSIGN FU_A 1 /")
        m.udqs["FU_A"] = "F"
    return "UDQ\n" + "\n".join(recs) + "\n/\n"


ACTION_BODY = ["welopen", "wconprod", "wconinje", "weltarg", "wefac", "gconprod", "gconinje", "wgrupcon", "wtest", "wecon",
               "nextstep"]


Q_KINDS = {"welpi": None, "welopen": None, "wconprod": "P", "wconinje": "I", "weltarg": None, "wefac": None, "wgrupcon": None, "wtest": None, "wecon": "P"}


@st.composite
def kw_actionx(draw, m, body_kinds=None):
    name = "A%d" % (len(m.actions) + 1)
    m.actions.append(name)
    nrun = draw(st.sampled_from([1, 2, 5, 10000]))
    conds = draw(st.sampled_from([
        ["FOPR > 50"], ["WOPR 'P*' > 10"], ["FOPR > 50 AND", "FWPR < 1000"], ["WOPR '*' < 500 OR", "FGPR > 1"],
        ["DAY > 3"], ["WWCT 'P*' > 0.5 AND", "MNTH >= FEB"]]))
    body = []
    mm = m.clone()
    mm.no_convert = True        # (well type conversions only by keywords of the deck proper)
    qkind = "none"
    for _ in range(draw(st.integers(1, 3))):
        kind = draw(st.sampled_from(body_kinds or getattr(m, "action_body", None) or ACTION_BODY))
        t = draw(gen_kw(mm, kind))
        if not t:
            continue
        import re as _re
        if kind == "welopen" and _re.search(r"' \d+ \d+ \d+ /", t):
            # connection level WELOPEN: per-report-step semantics (automatic shut-in), exempted by the C04 statement
            t = _re.sub(r"' \d+ \d+ \d+ /", "' /", t)
        if kind in Q_KINDS and draw(st.booleans()):
            # use the matching-wells placeholder instead of the explicit well (whole-well records only)
            import re as _re
            mt = _re.match(r"^(\w+)\n '(\w+)' ", t)
            if mt and mt.group(2) in mm.wells and not _re.search(r"' \d+ \d+ \d+ /", t):
                wk = mm.wells[mt.group(2)]["kind"]
                need = Q_KINDS[kind] or (wk if kind == "weltarg" else None)
                if qkind in ("none", need) or need is None:
                    t = t.replace("'%s'" % mt.group(2), "'?'", 1)
                    if need is not None:
                        qkind = need
                    elif qkind == "none":
                        qkind = "any"
        body.append(t)
    if not body:
        body = ["NEXTSTEP\n 1 /\n"]
    text = "ACTIONX\n '%s' %d %s /\n" % (name, nrun, draw(st.sampled_from(["", "10", "0.5"])))
    for c in conds:
        text += " %s /\n" % c
    text += "/\n" + "".join(body) + "ENDACTIO\n"
    m.action_defs[name] = {"body": body, "qkind": qkind, "def_step": m.step}
    return text


@st.composite
def kw_welpi(draw, m):
    w = draw(st.sampled_from(sorted(w for w, W in m.wells.items() if W["conns"])))
    return "WELPI\n '%s' %s /\n/\n" % (w, fnum(draw(st.sampled_from([1, 5, 20.5, 100]))))


GENERATORS = {
    "welpi": (kw_welpi, lambda m: any(W["conns"] for W in m.wells.values())),
    "welspecs": (kw_welspecs, lambda m: len(m.wells) < 6),
    "compdat": (kw_compdat, lambda m: bool(m.wells)),
    "wconprod": (kw_wconprod, lambda m: bool(_wells(m, "P"))),
    "wconinje": (kw_wconinje, lambda m: bool(_wells(m, "I"))),
    "wconhist": (kw_wconhist, lambda m: bool(_wells(m, "P"))),
    "welopen": (kw_welopen, lambda m: bool(_wells(m))),
    "weltarg": (kw_weltarg, lambda m: bool(_wells(m))),
    "wefac": (kw_wefac, lambda m: bool(m.wells)),
    "gefac": (kw_gefac, lambda m: len(m.groups) > 1),
    "gruptree": (kw_gruptree, lambda m: True),
    "gconprod": (kw_gconprod, lambda m: True),
    "gconinje": (kw_gconinje, lambda m: True),
    "wgrupcon": (kw_wgrupcon, lambda m: bool(m.wells)),
    "wlist": (kw_wlist, lambda m: bool(m.wells)),
    "wtest": (kw_wtest, lambda m: bool(m.wells)),
    "wecon": (kw_wecon, lambda m: bool(m.wells)),
    "wpimult": (kw_wpimult, lambda m: bool(_wells(m))),
    "misc": (kw_misc, lambda m: True),
    "udq": (kw_udq, lambda m: True),
    "actionx": (kw_actionx, lambda m: len(m.actions) < 4 and bool(_wells(m))),
    "nextstep": (lambda m: st.just("NEXTSTEP\n 1.5 /\n"), lambda m: True),
}


# ---- generators used by C05 only (not part of the default pool, so C03/C04/C11 draw exactly as before) ----
@st.composite
def kw_msw(draw, m):
    """turn a well with connections into a multisegment well: WELSEGS (top segment, a main branch and 0..3 laterals)
    and a COMPSEGS entry for every connection it has.  Segment numbers are handed out in creation order while the main
    branch and the laterals grow in turns, so that segment and branch numbering interleave (e.g. main branch 2,3,5,6 and
    lateral 4 off segment 2): WellSegments then stores the segments in an order that differs from their numbers."""
    cands = [w for w in _wells(m) if not m.wells[w].get("msw")]
    w = draw(st.sampled_from(cands))
    W = m.wells[w]
    nseg = draw(st.integers(2, 8))                   # segments besides the top segment (WSEGDIMS allows 12)
    nlat = draw(st.integers(0, min(3, nseg - 1)))
    seglen = draw(st.sampled_from([10, 25.5, 40]))
    diam = draw(st.sampled_from([0.15, 0.2, 0.3]))
    rough = draw(st.sampled_from([0.0001, 0.00015, 0.001]))
    pdrop = draw(st.sampled_from(["HFA", "HF-", "H--"]))
    W["pdrop"] = pdrop
    ltop = draw(st.sampled_from([0, 5]))
    txt = "WELSEGS\n '%s' %s %s 1* 'INC' '%s' /\n" % (w, draw(st.sampled_from(["2000", "2001.5"])), fnum(ltop), pdrop)
    # grow the tree: branch 1 is the main branch; lateral b (branch b+1) hangs off a main-branch segment
    tips = {1: 1}                  # branch -> its last segment
    tlen = {1: float(ltop)}        # segment -> length from the top
    branch_of = {1: 1}
    started = 0
    segs = []
    for num in range(2, nseg + 2):
        remaining = nseg + 2 - num
        main_len = sum(1 for sg in segs if sg[1] == 1)
        choices = []
        if remaining > (nlat - started):
            choices.append("main")                                   # room to extend the main branch
            choices.extend("ext%d" % b for b in tips if b != 1)      # ... or an existing lateral
        if started < nlat and main_len >= 1:
            choices.append("new")
        if not choices:
            choices = ["main"]
        what = draw(st.sampled_from(choices))
        if what == "main":
            br, outlet = 1, tips[1]
        elif what == "new":
            started += 1
            br = started + 1
            mains = [sg[0] for sg in segs if sg[1] == 1]
            outlet = draw(st.sampled_from(mains))
        else:
            br = int(what[3:])
            outlet = tips[br]
        tips[br] = num
        branch_of[num] = br
        tlen[num] = tlen[outlet] + seglen
        segs.append((num, br, outlet))
        ddepth = seglen / 2 if br == 1 else 1
        txt += " %d %d %d %d %s %s %s %s /\n" % (num, num, br, outlet, fnum(seglen), fnum(ddepth), fnum(diam), fnum(rough))
    txt += "/\nCOMPSEGS\n '%s' /\n" % w
    for c, (i, j, k) in enumerate(W["conns"]):
        num, br, outlet = segs[c % len(segs)]
        a = tlen[num] - seglen + 1 + (c // len(segs)) % 3
        txt += " %d %d %d %d %s %s /\n" % (i, j, k, br, fnum(a), fnum(a + 3))
    txt += "/\n"
    W["msw"] = True
    W["nseg"] = nseg + 1
    return txt


@st.composite
def kw_wsegvalv(draw, m):
    w = draw(st.sampled_from(sorted(w for w, W in m.wells.items() if W.get("msw") and W.get("pdrop") != "H--")))
    seg = draw(st.integers(2, m.wells[w]["nseg"]))
    form = draw(st.sampled_from(["valv", "valv", "valv+", "sicd", "sicd-", "sicd+", "aicd"] + (["valv-uda"] if m.uda_devices else [])))
    if form == "valv-uda":
        # the valve area is a UDA item: a segment UDQ assigned just before (an ASSIGN is a complete definition)
        return ("UDQ\n ASSIGN SUAREA '%s' %d %s /\n/\nWSEGVALV\n '%s' %d %s SUAREA /\n/\n" % (
            w, seg, fnum(draw(st.sampled_from([4.5e-5, 0.002]))), w, seg, fnum(draw(st.sampled_from([0.7, 1.0])))))
    if form == "valv":
        return "WSEGVALV\n '%s' %d %s %s /\n/\n" % (w, seg, fnum(draw(st.sampled_from([0.7, 0.85, 1.0]))), fnum(draw(st.sampled_from([0.002, 0.01]))))
    if form == "valv+":
        return "WSEGVALV\n '%s' %d 0.7 0.002 0.1 1e-4 0.008 0.003 '%s' 0.004 /\n/\n" % (w, seg, draw(st.sampled_from(["OPEN", "SHUT"])))
    if form == "sicd":
        return "WSEGSICD\n '%s' %d %d 0.001 %s /\n/\n" % (w, seg, seg, draw(st.sampled_from(["1*", "5.0", "12"])))
    if form == "sicd-":
        # negative device length + default scaling method: |length| is an absolute scaling length
        return "WSEGSICD\n '%s' %d %d 0.001 %s /\n/\n" % (w, seg, seg, draw(st.sampled_from(["-2.5", "-10"])))
    if form == "sicd+":
        return "WSEGSICD\n '%s' %d %d 0.001 %s 1000.25 1.45 0.6 0.05 5 %s 1* '%s' /\n/\n" % (
            w, seg, seg, draw(st.sampled_from(["5.0", "-2.5"])), draw(st.sampled_from(["-1", "0", "1", "2"])), draw(st.sampled_from(["OPEN", "SHUT"])))
    return "WSEGAICD\n '%s' %d %d 0.002 %s 1000.25 1.45 0.6 0.05 5 %s 1* 1.1 0.9 'OPEN' 1.0 1.0 1.0 1.1 1.2 1.3 /\n/\n" % (
        w, seg, seg, draw(st.sampled_from(["-1.5", "4.0", "1*"])), draw(st.sampled_from(["-1", "1", "0"])))


@st.composite
def kw_network(draw, m):
    groups = sorted(g for g in m.groups if g != "FIELD" and m.groups[g] == "FIELD")[:2]
    if draw(st.integers(0, 3)) == 0:
        # branches taken out again (VFP table number 0), also ones that were never defined, also as the very first record
        return "BRANPROP\n" + "".join(" '%s' 'FIELD' 0 /\n" % g for g in groups) + "/\n"
    txt = "BRANPROP\n" + "".join(" '%s' 'FIELD' %s /\n" % (g, draw(st.sampled_from(["9999", "9999", "9999", "0"]))) for g in groups) + "/\n"
    txt += "NODEPROP\n 'FIELD' %s /\n" % fnum(draw(press))
    for g in groups:
        choke = draw(st.sampled_from(["NO", "NO", "YES"]))
        kinds = [W["kind"] for W in m.wells.values() if W["group"] == g]
        if choke == "YES" and (not kinds or "I" in kinds):
            # the auto-choke option is for groups of producers (NODEPROP switches every well of the group to a
            # THP-controlled producer, injectors included)
            choke = "NO"
        txt += " '%s' 1* '%s' '%s' /\n" % (g, choke, draw(st.sampled_from(["NO", "YES"])))
    return txt + "/\n"


@st.composite
def kw_wconprod_uda(draw, m):
    w = draw(st.sampled_from(_wells(m, "P")))
    u = draw(st.sampled_from(sorted(k for k, v in m.udqs.items() if v in ("F", "W"))))
    mode = draw(st.sampled_from(["ORAT", "WRAT", "GRAT", "LRAT"]))
    vals = ["1*"] * 4
    vals[["ORAT", "WRAT", "GRAT", "LRAT"].index(mode)] = "'%s'" % u
    return "WCONPROD\n '%s' 'OPEN' '%s' %s 1* %s /\n/\n" % (w, mode, " ".join(vals), fnum(draw(press)))


@st.composite
def kw_gconprod_uda(draw, m):
    g = draw(st.sampled_from(sorted(m.groups)))
    u = draw(st.sampled_from(sorted(k for k, v in m.udqs.items() if v == "F")))
    return "GCONPROD\n '%s' 'ORAT' '%s' 3* 'RATE' /\n/\n" % (g, u)


@st.composite
def kw_wconinjh(draw, m):
    w = draw(st.sampled_from(_wells(m, "I")))
    return "WCONINJH\n '%s' '%s' '%s' %s %s /\n/\n" % (w, m.wells[w]["injtype"], draw(st.sampled_from(["OPEN", "OPEN", "STOP", "SHUT"])),
                                                       fnum(draw(rate)), fnum(draw(press) + 100))


@st.composite
def kw_wellextra(draw, m):
    """well keywords that most decks do not use (each one a whole keyword with one record)"""
    w = draw(st.sampled_from(_wells(m)))
    W = m.wells[w]
    opts = ["WPAVE\n %s %s '%s' '%s' /\n" % (fnum(draw(st.sampled_from([0.5, 0.25, 1]))), fnum(draw(st.sampled_from([0.5, -1, 1]))),
                                            draw(st.sampled_from(["WELL", "RES"])), draw(st.sampled_from(["ALL", "OPEN"]))),
            "WPAVEDEP\n '%s' %s /\n/\n" % (w, draw(st.sampled_from(["2031.5", "1*", "2004.25"]))),
            "WDFAC\n '%s' %s /\n/\n" % (w, draw(st.sampled_from(["1e-5", "0", "2.5e-4"]))),
            "WDFACCOR\n '%s' 1.2e-3 -1.045 0.0 /\n/\n" % w,
            "WVFPEXP\n '%s' '%s' '%s' '%s' /\n/\n" % (w, draw(st.sampled_from(["EXP", "IMP"])), draw(st.sampled_from(["NO", "YES"])),
                                                    draw(st.sampled_from(["NO", "YES1", "YES2"]))),
            "WVFPDP\n '%s' %s %s /\n/\n" % (w, draw(st.sampled_from(["2.5", "0", "-1.5"])), draw(st.sampled_from(["0.9", "1*"]))),
            "COMPLUMP\n '%s' %d %d %d %d %d /\n/\n" % ((w,) + tuple(W["conns"][0]) + (W["conns"][0][2], draw(st.integers(1, 3)))),
            "WELSPECS\n '%s' '%s' %d %d %s '%s' %s /\n/\n" % (w, W["group"], W["i"], W["j"], draw(st.sampled_from(["2007.5", "1*"])),
                                                            "OIL" if W["kind"] == "P" else W["injtype"],
                                                            draw(st.sampled_from(["0.3 'GPP'", "1* 'STD' 'STOP'", "0.0 'STD' 'SHUT' 'NO' 1 'AVG'"]))),
            "WORKLIM\n %d /\n" % draw(st.sampled_from([10, 30])), "WLIMTOL\n 0.1 /\n", "WELSOMIN\n 0.2 /\n",
            "WDRILTIM\n '%s' %d /\n/\n" % (w, draw(st.sampled_from([5, 10]))),
            "WSEGITER\n 40 20 0.3 2.0 /\n"]
    if W["kind"] == "P":
        if W.get("ctl") == "prod":      # (a multiplier needs the target it multiplies)
            opts += ["WTMULT\n '%s' 'BHP' %s /\n/\n" % (w, fnum(draw(st.sampled_from([0.8, 1.25]))))]
        opts += [
                 "WTADD\n '%s' 'ORAT' %s 1 /\n/\n" % (w, fnum(draw(st.sampled_from([50, -5])))),
                 "WCUTBACK\n '%s' 0.5 1* 1* 1* 0.8 'OIL' /\n/\n" % w,
                 "WECON\n '%s' 10 20 0.9 100 50 '%s' '%s' 1* 'RATE' 0.95 'NONE' /\n/\n" % (w, draw(st.sampled_from(["CON", "WELL", "NONE"])),
                                                                                   draw(st.sampled_from(["YES", "NO"])))]
    else:
        opts += ["WINJTEMP\n '%s' 1* %s /\n/\n" % (w, draw(st.sampled_from(["50", "35.5"]))), "WTEMP\n '%s' 40 /\n/\n" % w,
                 ] + (["WINJMULT\n '%s' 5000 1.5 '%s' /\n/\n" % (w, draw(st.sampled_from(["WREV", "CREV", "CIRR"]))),
                       # per-connection records (modes CREV / CIRR), one connection after the other
                       "WINJMULT\n%s/\n" % "".join(" '%s' %s 1.5 '%s' %d %d %d /\n" % ((w, draw(st.sampled_from(["5000", "4000"])), md) + tuple(c))
                                                    for md in [draw(st.sampled_from(["CREV", "CIRR"]))]
                                                    for c in W["conns"][:draw(st.integers(1, 3))])]
                      * (3 if len(W["conns"]) > 1 else 1) if W.get("ctl") == "inje" else [])
    return draw(st.sampled_from(opts))


@st.composite
def kw_groupextra(draw, m):
    g = draw(st.sampled_from(sorted(x for x in m.groups if x != "FIELD")))
    return draw(st.sampled_from([
        "GSATPROD\n '%s' 100 50 1000 /\n/\n" % g,
        "GCONPROD\n '%s' 'ORAT' 1000 2000 3000 4000 'RATE' '%s' 0.5 'OIL' 'WELL' 'CON' 'RATE' 500 /\n/\n" % (g, draw(st.sampled_from(["YES", "NO"]))),
        "GCONINJE\n '%s' 'WATER' 'VREP' 1000 1* 0.8 0.9 '%s' 1.5 'RATE' '%s' /\n/\n" % (g, draw(st.sampled_from(["YES", "NO"])), g),
        "GPMAINT\n '%s' 'WINJ' 1 1* 250 0.01 100 /\n/\n" % g,
        "GDRILPOT\n '%s' 'QO' 100 /\n/\n" % g,
        "PRORDER\n 'DRILL' 'THP' /\n /\n", "NETBALAN\n 1 0.1 10 /\n",
        "LIFTOPT\n 12500 5e-3 0.0 'YES' /\nGLIFTOPT\n '%s' 1* 10000 /\n/\n" % g,
    ]))


@st.composite
def kw_actionextra(draw, m):
    """rarely used keywords that are allowed inside ACTIONX (each one a whole keyword)"""
    g = draw(st.sampled_from(sorted(m.groups)))
    opts = ["GCONSUMP\n '%s' %s %s /\n/\n" % (g, fnum(draw(st.sampled_from([20, 0, 150.5]))), draw(st.sampled_from(["50", "1*"]))),
            "NEXT\n %s /\n" % fnum(draw(st.sampled_from([0.5, 2])))]
    ws = sorted(w for w, W in m.wells.items() if W["conns"])
    if ws:
        w = draw(st.sampled_from(ws))
        W = m.wells[w]
        opts += ["COMPLUMP\n '%s' %d %d %d %d %d /\n/\n" % ((w,) + tuple(W["conns"][0]) + (W["conns"][0][2], draw(st.integers(1, 3)))),
                 "WELSPECS\n '%s' '%s' %d %d %s '%s' /\n/\n" % (w, W["group"], W["i"], W["j"], draw(st.sampled_from(["2007.5", "1*"])),
                                                                 "OIL" if W["kind"] == "P" else W["injtype"])]
        if W["kind"] == "P" and W.get("ctl") == "prod":
            opts += ["WTMULT\n '%s' '%s' %s /\n/\n" % (w, draw(st.sampled_from(["BHP", "ORAT"])), fnum(draw(st.sampled_from([0.8, 1.25]))))]
    return draw(st.sampled_from(opts))


@st.composite
def kw_rare(draw, m):
    """keywords with a SCHEDULE handler that hardly any deck uses (injected-fluid properties, filter cake, skin, dissolution
    rate limits, grid multipliers in SCHEDULE, boundary conditions ...); each entry is accepted by the fixed model"""
    opts = ["FBHPDEF\n %s %s /\n" % (draw(st.sampled_from(["5", "1*"])), draw(st.sampled_from(["500", "1*"]))),
            "DRSDT\n %s /\n" % draw(st.sampled_from(["0.001", "0"])), "DRSDTR\n 0.001 /\n", "DRVDTR\n 0.002 /\n", "DRSDTCON\n 0.04 /\n",
            "BOX\n 1 2 1 2 1 1 /\n%s\n 4*%s /\nENDBOX\n" % (draw(st.sampled_from(["MULTX", "MULTY", "MULTZ", "MULTX-", "MULTY-", "MULTZ-"])),
                                                           draw(st.sampled_from(["0.5", "0", "2"]))),
            "MULTPV\n %d*1.5 /\n" % (m.nx * m.ny * m.nz),
            "BCPROP\n 1 RATE WATER %s /\n/\n" % draw(st.sampled_from(["1.0", "0"])),
            "SOURCE\n 1 1 1 %s 0.1 /\n/\n" % draw(st.sampled_from(["WATER", "OIL", "GAS"])),
            "AQUFLUX\n 1 0.01 /\n/\n"]
    ws = sorted(w for w, W in m.wells.items() if W["conns"])
    if ws:
        w = draw(st.sampled_from(ws))
        W = m.wells[w]
        c = W["conns"][0]
        opts += ["CSKIN\n '%s' %d %d %d %d %s /\n/\n" % (w, c[0], c[1], c[2], c[2], draw(st.sampled_from(["5.5", "-1", "0"]))),
                 "CSKIN\n '%s' 4* %s /\n/\n" % (w, draw(st.sampled_from(["2.5", "0"]))),
                 "COMPORD\n '%s' '%s' /\n/\n" % (draw(st.sampled_from([w, "*"])), draw(st.sampled_from(["INPUT", "DEPTH", "TRACK"]))),
                 "WWPAVE\n '%s' 0.5 %s '%s' '%s' /\n/\n" % (w, draw(st.sampled_from(["0.5", "1"])), draw(st.sampled_from(["WELL", "RES"])),
                                                           draw(st.sampled_from(["ALL", "OPEN"])))]
        if W["kind"] == "P":
            opts += ["WLIFTOPT\n '%s' '%s' %s 1.01 /\n/\n" % (w, draw(st.sampled_from(["YES", "NO"])), draw(st.sampled_from(["1000", "1*"]))),
                     "LIFTOPT\n 12500 5e-3 0.0 'YES' /\nWLIFTOPT\n '%s' 'YES' 1000 1.01 1* 0.5 'YES' /\n/\n" % w]
        else:
            conc = draw(st.sampled_from(["35", "0", "0.5"]))
            opts += ["WSALT\n '%s' %s /\n/\n" % (w, conc), "WFOAM\n '%s' %s /\n/\n" % (w, conc),
                     "WPOLYMER\n '%s' %s 0.5 /\n/\n" % (w, conc), "WMICP\n '%s' 0.1 0.2 %s /\n/\n" % (w, conc),
                     "WINJFCNC\n '%s' %s /\n/\n" % (w, conc), "WSKPTAB\n '%s' 1 1 /\n/\n" % w, "WPMITAB\n '%s' 1 /\n/\n" % w,
                     "WTRACER\n '%s' 'T1' %s /\n/\n" % (w, conc),
                     "WINJDAM\n '%s' '%s' 100 0.3 %s 1* /\n/\n" % (w, draw(st.sampled_from(["RADIAL", "LINEAR", "LINRAD"])),
                                                                  draw(st.sampled_from(["1*", "0.2"]))),
                     "WINJCLN\n '%s' %s /\n/\n" % (w, draw(st.sampled_from(["0.5", "1*", "0"]))),
                     "WINJCLN\n '%s' 0.25 %d %d %d /\n/\n" % (w, c[0], c[1], c[2])]
            if len(W["conns"]) > 1:
                # injection multipliers connection by connection (modes CREV / CIRR), after the control they multiply
                md = draw(st.sampled_from(["CREV", "CIRR"]))
                opts += ["WCONINJE\n '%s' '%s' 'OPEN' 'RATE' 100 1* 400 /\n/\nWINJMULT\n%s/\n" % (
                    w, W["injtype"], "".join(" '%s' 5000 1.5 '%s' %d %d %d /\n" % ((w, md) + tuple(cc)) for cc in W["conns"][:3]))] * 2
            if W.get("injtype") == "GAS":
                opts += ["WSOLVENT\n '%s' %s /\n/\n" % (w, draw(st.sampled_from(["0.5", "0", "1"])))]
    return draw(st.sampled_from(opts))


EXTRA_GENERATORS = {
    "rare": (kw_rare, lambda m: True),
    "actionextra": (kw_actionextra, lambda m: True),
    "wellextra": (kw_wellextra, lambda m: bool(_wells(m))),
    "groupextra": (kw_groupextra, lambda m: len(m.groups) > 1),
    "msw": (kw_msw, lambda m: any(not W.get("msw") for w, W in m.wells.items() if W["conns"]) and
            sum(1 for W in m.wells.values() if W.get("msw")) < 2),
    "wsegvalv": (kw_wsegvalv, lambda m: any(W.get("msw") and W.get("pdrop") != "H--" for W in m.wells.values())),
    "network": (kw_network, lambda m: any(g != "FIELD" and p == "FIELD" for g, p in m.groups.items())),
    "wconprod_uda": (kw_wconprod_uda, lambda m: bool(_wells(m, "P")) and any(v in ("F", "W") for v in m.udqs.values())),
    "gconprod_uda": (kw_gconprod_uda, lambda m: any(v == "F" for v in m.udqs.values())),
    "wconinjh": (kw_wconinjh, lambda m: bool(_wells(m, "I"))),
}


@st.composite
def gen_kw(draw, m, kind):
    g, pre = GENERATORS[kind] if kind in GENERATORS else EXTRA_GENERATORS[kind]
    if not pre(m):
        return None
    return draw(g(m))


@st.composite
def gen_time(draw, m, single=False):
    """-> (text, number of report steps)"""
    if draw(st.booleans()):
        n = 1 if single else draw(st.integers(1, 2))
        recs = []
        for _ in range(n):
            d, mo, y = m.date
            mo += draw(st.integers(1, 3))
            y += mo // 12
            mo %= 12
            m.date = [1, mo, y]
            recs.append(" 1 '%s' %d /" % (MONTHS[mo], y))
        return "DATES\n" + "\n".join(recs) + "\n/\n", n
    vals = draw(st.lists(st.sampled_from([1, 5, 10, 30.5]), min_size=1, max_size=1 if single else 3))
    # keep the model's calendar consistent: TSTEP days are added approximately (dates stay on day 1 + offset)
    m.date = [1, m.date[1], m.date[2] + 1]      # jump a year ahead of any TSTEP sum (<= 92 days)
    return "TSTEP\n %s /\n" % " ".join(fnum(v) for v in vals), len(vals)


@st.composite
def gen_block(draw, m, first=False, kinds=None, maxkw=6, single=False):
    kws = []
    if first:
        # make sure there is something to work with
        for kind in ("welspecs", "compdat", "welspecs", "compdat"):
            t = draw(gen_kw(m, kind))
            if t:
                kws.append(t)
    pool = kinds or list(GENERATORS)
    for _ in range(draw(st.integers(0, maxkw))):
        kind = draw(st.sampled_from(pool))
        t = draw(gen_kw(m, kind))
        if t:
            kws.append(t)
    ttxt, n = draw(gen_time(m, single))
    m.step += n
    return {"kws": kws, "time": ttxt, "nsteps": n}


@st.composite
def gen_schedule(draw, nblocks=None, kinds=None):
    m = Model()
    nb = nblocks or draw(st.integers(2, 5))
    blocks = []
    for b in range(nb):
        blocks.append(draw(gen_block(m, first=(b == 0), kinds=kinds)))
    return blocks


@st.composite
def grid_multipliers(draw, n=None):
    """GRID-section transmissibility multipliers between regions and across faults: MULTNUM / FLUXNUM arrays, MULTREGT
    with 1..4 records (same-region records, defaulted directions / NNC behaviour / region set in any order), FAULTS +
    MULTFLT.  All valid for the fixed model; they only change what TransMult holds."""
    n = n or NX * NY * NZ
    out = []
    # (the library refuses a MULTREGT record whose region set is not in the deck: MULTNUM, the default set, always)
    arrays = ["MULTNUM"] + draw(st.lists(st.sampled_from(["FLUXNUM", "OPERNUM"]), max_size=2, unique=True))
    for a in arrays:
        k = draw(st.integers(1, n - 1))
        out.append("%s\n %d*1 %d*2 /\n" % (a, k, n - k) if draw(st.booleans()) else "%s\n %d*%d /\n" % (a, n, draw(st.integers(1, 3))))
    for _ in range(draw(st.integers(1, 2))):
        recs = []
        for _ in range(draw(st.integers(1, 4))):
            a = draw(st.sampled_from(["1", "2", "3", "1*"]))
            b = a if draw(st.integers(0, 2)) == 0 else draw(st.sampled_from(["1", "2", "3", "1*"]))
            tail = draw(st.sampled_from(["", " XYZ", " X", " 1* NNC", " XY ALL", " Z NONNC M", " 1* 1* F", " XYZ ALL M", " 2* O",
                                         " XYZ NOAQUNNC"]))
            if " F" in tail and "FLUXNUM" not in arrays:
                tail = tail.replace(" F", " M")
            if tail.endswith(" O") and "OPERNUM" not in arrays:
                tail = tail[:-2] + " M"
            recs.append(" %s %s %s%s /\n" % (a, b, fnum(draw(st.sampled_from([0, 0.1, 0.5, 1, 2]))), tail))
        out.append("MULTREGT\n%s/\n" % "".join(recs))
    if draw(st.booleans()):
        out.append("FAULTS\n 'F1' 2 2 1 %d 1 %d X /\n 'F2' 1 %d 3 3 1 %d Y /\n/\n" % (NY, NZ, NX, NZ))
        out.append("MULTFLT\n 'F%d' %s /\n/\n" % (draw(st.integers(1, 2)), fnum(draw(st.sampled_from([0, 0.01, 0.5, 10])))))
    return "".join(out)


@st.composite
def gen_static(draw):
    """variations of the static sections that change what the EclipseState holds (output / report configuration,
    run options); every variant is a valid deck for the fixed model"""
    rs = []
    for kw in draw(st.lists(st.sampled_from(["FMTOUT\n", "UNIFIN\n", "NOSIM\n", "MULTOUT\n", "FMTIN\n", "ENDSCALE\n /\n",
                                             "MESSAGES\n 2* 10 /\n", "NUPCOL\n 5 /\n", "SAVE\n /\n"]), max_size=3, unique=True)):
        rs.append(kw)
    grid = []
    for kw in draw(st.lists(st.sampled_from(["INIT\n", "GRIDFILE\n 0 1 /\n", "MINPV\n 0.001 /\n", "PINCH\n 0.01 /\n",
                                             "MAPAXES\n 0 100 0 0 100 0 /\n", "NEWTRAN\n"]), max_size=3, unique=True)):
        grid.append(kw)
    if draw(st.integers(0, 2)) == 0:
        grid.append(draw(grid_multipliers()))
    sol = [EQUIL_TEXT]
    if draw(st.booleans()):
        mn = draw(st.lists(st.sampled_from(["FIP", "FIP=1", "FIP=2", "FIP=3", "FIPFOAM=2", "FIPPLY", "FIPSOL", "FIPSURF=2", "FIPHEAT",
                                            "FIPTEMP", "FIPTR=2", "FIPRESV", "FIPVE", "PRES", "SOIL", "SWAT", "RESTART=2", "THPRES"]),
                           min_size=1, max_size=5, unique=True))
        sol.append("RPTSOL\n %s /\n" % " ".join("'%s'" % m for m in mn))
    if draw(st.booleans()):
        mn = draw(st.lists(st.sampled_from(["BASIC=2", "BASIC=3", "FREQ=2", "PRES", "DEN", "KRO", "RSSAT", "ALLPROPS", "FLOWS", "VISC"]),
                           min_size=1, max_size=4, unique=True))
        sol.append("RPTRST\n %s /\n" % " ".join(mn))
    elif draw(st.integers(0, 3)) == 0:
        sol.append("%s\n %s /\n" % (draw(st.sampled_from(["RPTRST", "RPTSOL"])), draw(int_controls())))
    # tables whose C++ type carries more than the columns (reference values, a direction flag)
    props = []
    if draw(st.integers(0, 3)) == 0:
        rs.append("POLYMER\n")
        props.append("PLYSHLOG\n %s /\n 1e-7 1.0\n 1.0 1.2\n 1000 2.4 /\n" % draw(st.sampled_from(
            ["1.0", "1.0 3.0", "1.0 1* 80.0", "1.0 3.0 80.0", "0.5 1* 45.5"])))
    if draw(st.integers(0, 3)) == 0:
        direc = False        # (RKTRMDIR, which makes the table directional, is refused by the library)
        rs.append("ROCKCOMP\n 'REVERS' 1 /\n" + ("RKTRMDIR\n" if direc else ""))
        props.append("ROCKTAB\n" + "".join(" %s %s %s\n" % (p_, pv, tr if direc else tr.split()[0]) for p_, pv, tr in
                                           [("100", "0.9", "0.8 0.7 0.6"), ("200", "1.0", "1.0 1.0 1.0"), ("300", "1.05", "1.1 1.2 1.3")]).rstrip("\n") + " /\n")
    return {"runspec_extra": "".join(rs), "grid_extra": "".join(grid), "solution": "".join(sol), "props_extra": "".join(props)}


def render(blocks, unit="METRIC", final_kws=None, static=None):
    out = [prelude(unit, **(static or {}))]
    for b in blocks:
        out.extend(b["kws"])
        out.append(b["time"])
    if final_kws:
        out.extend(final_kws)
    return "".join(out)
