"""Sharded driver: regression replay, exhaustive enumeration, Hypothesis search,
3x confirmation of shrunk failures, known-findings matching, evidence."""
import hashlib
import json
import multiprocessing as mp
import os
import sys
import time
import traceback

from . import build
from .probe import Probe, ProbeCrash, LibError

VERIF = build.VERIF
OUT = os.path.join(VERIF, "out")
EVID = os.path.join(VERIF, "evidence")
REGRESS = os.path.join(VERIF, "regress")
# VERIF_KNOWN_FILE: another known-findings file (only used while verifying a repair in a scratch tree: a copy of
# the committed file with the repaired entry flipped to "fixed")
KNOWN = os.environ.get("VERIF_KNOWN_FILE") or os.path.join(VERIF, "known_findings.jsonl")


class Discard(Exception):
    """case outside the property's domain (counted, never a pass or a failure)"""


def canon(x):
    return json.dumps(x, sort_keys=True, separators=(",", ":"), default=str)


def sha(x, n=12):
    return hashlib.sha256(canon(x).encode()).hexdigest()[:n]


def load_known(pid):
    res = []
    if os.path.exists(KNOWN):
        with open(KNOWN) as f:
            for line in f:
                line = line.strip()
                if not line or line.startswith("#"):
                    continue
                e = json.loads(line)
                if e.get("property") == pid:
                    res.append(e)
    return res


class Check:
    """Base class of a property check.  Subclasses set ID, RULE and implement
    strategy()/check()/classify()."""
    ID = "C00"
    LEVEL = "exploration"
    RULE = ""
    ASSUMPTIONS = []
    PROBE = "plain"          # which build tree the probe uses; None = no probe
    PROBE_GROUP = "all"      # harness/probe/cmd_<group>*.cpp
    SHARDS = 16
    EXAMPLES = {"quick": 100, "thorough": 2000}     # per shard
    TIME_CAP = {"quick": 240, "thorough": 1500}     # soft cap (s) for the search phase
    MIN_EVALS = {"quick": 50, "thorough": 500}      # below this the run is inconclusive
    MAX_REJECT = 0.2
    EXHAUSTIVE = False
    CRASH_IS_VIOLATION = True
    PROBE_ENV = None

    def strategy(self, tier):
        return None

    def enumerate(self, tier):
        return ()

    def check(self, case, ctx):
        raise NotImplementedError

    def classify(self, case):
        """-> (nontrivial, fingerprint or None (=hash of case), labels)"""
        return True, None, []

    def known_key(self, case, viol):
        """signature of a violation, matched against known_findings 'key'"""
        return viol.get("key")

    def sample_view(self, case):
        return case

    def floors(self, tier):
        """{label: minimal fraction of evaluations} enforced (vacuity guard)"""
        return {}

    def extra_evidence(self, stats):
        return {}


class Ctx:
    def __init__(self, chk, tier, shard, nshards, seed):
        self.chk = chk
        self.tier = tier
        self.shard = shard
        self.nshards = nshards
        self.seed = seed
        self._probe = None
        self.labels = {}
        self.tmp_root = os.environ.get("VERIF_TMPDIR") or "/tmp"
        self.notes = {}

    @property
    def P(self):
        if self._probe is None:
            exe = build.ensure_probe(self.chk.PROBE, self.chk.PROBE_GROUP) if not os.environ.get("VERIF_NOBUILD") else \
                os.path.join(build.BUILD, "opmprobe-%s-%s" % (self.chk.PROBE, self.chk.PROBE_GROUP))
            self._probe = Probe(exe, env=self.chk.PROBE_ENV, tmp_root=self.tmp_root)
        return self._probe

    @property
    def tmp(self):
        return self.P.tmp

    def label(self, name, n=1):
        self.labels[name] = self.labels.get(name, 0) + n

    def close(self):
        if self._probe is not None:
            self._probe.close()
            self._probe = None


def _trim(x, lim=1500):
    if isinstance(x, str):
        return x if len(x) <= lim else x[:lim] + "...[%d chars]" % len(x)
    if isinstance(x, list):
        y = [_trim(v, lim) for v in x[:40]]
        if len(x) > 40:
            y.append("...[%d items]" % len(x))
        return y
    if isinstance(x, dict):
        return {k: _trim(v, lim) for k, v in list(x.items())[:60]}
    return x


class Stats:
    def __init__(self):
        self.evaluations = 0
        self.fps = set()
        self.labels = {}
        self.rejected = 0
        self.discarded = 0
        self.excluded_known = 0
        self.crashed = 0
        self.samples = []
        self.nsample_seen = 0
        self.known_hits = {}
        self.exhaustive_done = 0
        self.regress_replayed = 0
        self.timed_out = False
        self.reject_examples = []

    def to_dict(self):
        d = dict(self.__dict__)
        d["fps"] = list(self.fps)
        return d


def evaluate(chk, ctx, st, case, known):
    """run one case through the oracle. returns violation dict or None"""
    try:
        v = chk.check(case, ctx)
    except Discard:
        st.discarded += 1
        return None
    except LibError as e:
        st.rejected += 1
        if len(st.reject_examples) < 5:
            st.reject_examples.append(str(e)[:300])
        return None
    except ProbeCrash as e:
        st.crashed += 1
        if not chk.CRASH_IS_VIOLATION:
            return None
        v = {"rule": "library crashed (signal / sanitizer / exit) on a generated case",
             "detail": str(e), "stderr": e.stderr[-3000:], "key": "crash"}
    st.evaluations += 1
    try:
        nontriv, fp, labels = chk.classify(case)
    except Exception:
        nontriv, fp, labels = False, None, ["classify-error"]
    for l in labels:
        st.labels[l] = st.labels.get(l, 0) + 1
    if nontriv:
        st.fps.add(fp if fp is not None else sha(case, 16))
        # deterministic reservoir: keep the 6 cases with the smallest hash
        st.nsample_seen += 1
        h = sha(case, 16)
        st.samples.append((h, _trim(chk.sample_view(case))))
        st.samples.sort(key=lambda t: t[0])
        del st.samples[6:]
    if v is not None:
        key = chk.known_key(case, v)
        for e in known:
            if e.get("status") == "known" and key is not None and e.get("key") == key:
                st.excluded_known += 1
                st.known_hits[e["key"]] = e.get("what", "")
                return None
    return v


def run_shard(args):
    (modname, clsname, tier, seed, shard, nshards, cases_override) = args
    import importlib
    mod = importlib.import_module(modname)
    chk = getattr(mod, clsname)()
    ctx = Ctx(chk, tier, shard, nshards, seed)
    st = Stats()
    known = load_known(chk.ID)
    viols = []
    t0 = time.time()
    try:
        # 1. regression inputs (shard 0)
        if shard == 0 and cases_override is None:
            rdir = os.path.join(REGRESS, chk.ID)
            if os.path.isdir(rdir):
                for fn in sorted(os.listdir(rdir)):
                    if not fn.endswith(".json"):
                        continue
                    if getattr(chk, "REGRESS_PREFIX", None) and not fn.startswith(chk.REGRESS_PREFIX):
                        continue        # (several check classes share one property's directory)
                    with open(os.path.join(rdir, fn)) as f:
                        case = json.load(f)["case"]
                    st.regress_replayed += 1
                    v = evaluate(chk, ctx, st, case, known)
                    if v is not None:
                        viols.append({"case": case, "viol": v, "phase": "regress:" + fn})
        if cases_override is not None:
            for case in cases_override:
                v = evaluate(chk, ctx, st, case, known)
                if v is not None:
                    viols.append({"case": case, "viol": v, "phase": "replay"})
            return st.to_dict(), viols, ctx.labels, None
        # 2. exhaustive part, split round-robin
        for i, case in enumerate(chk.enumerate(tier)):
            if i % nshards != shard:
                continue
            st.exhaustive_done += 1
            v = evaluate(chk, ctx, st, case, known)
            if v is not None:
                viols.append({"case": case, "viol": v, "phase": "enumerate"})
                break
        # 3. Hypothesis search
        strat = chk.strategy(tier)
        nex = chk.EXAMPLES[tier]
        if "VERIF_EXAMPLES" in os.environ:
            nex = int(os.environ["VERIF_EXAMPLES"])
        if strat is not None and not viols and nex > 0:
            from hypothesis import given, settings, seed as hseed, HealthCheck, Phase
            cap = chk.TIME_CAP[tier]
            last = {}

            class Found(Exception):
                pass

            @hseed(seed * 1000 + shard)
            @settings(max_examples=nex, database=None, deadline=None,
                      report_multiple_bugs=False, derandomize=False,
                      suppress_health_check=list(HealthCheck),
                      phases=[Phase.generate, Phase.shrink], print_blob=False)
            @given(strat)
            def prop(case):
                if time.time() - t0 > cap and "case" not in last:
                    st.timed_out = True
                    return
                v = evaluate(chk, ctx, st, case, known)
                if v is not None:
                    last["case"] = case
                    last["viol"] = v
                    raise Found()

            try:
                prop()
            except Found:
                viols.append({"case": last["case"], "viol": last["viol"], "phase": "search"})
            except Exception as e:  # hypothesis wraps; the minimal case is in `last`
                if "case" in last:
                    viols.append({"case": last["case"], "viol": last["viol"], "phase": "search"})
                else:
                    raise
        return st.to_dict(), viols, ctx.labels, None
    except Exception:
        return st.to_dict(), viols, ctx.labels, traceback.format_exc()
    finally:
        ctx.close()


def confirm(chk, case, known, n=3):
    """replay a case n times with a fresh probe each time"""
    fails = 0
    lastv = None
    for _ in range(n):
        ctx = Ctx(chk, "quick", 0, 1, 0)
        st = Stats()
        try:
            v = evaluate(chk, ctx, st, case, known)
        finally:
            ctx.close()
        if v is not None:
            fails += 1
            lastv = v
    return fails, lastv


def evidence_dir():
    """/verif/evidence for runs against /repo itself; runs against another source tree (mutants, seeded changes:
    VERIF_REPO / VERIF_BUILD) must not overwrite the evidence of the unchanged tree"""
    if os.environ.get("VERIF_EVIDENCE_DIR"):
        return os.environ["VERIF_EVIDENCE_DIR"]
    if build.REPO != "/repo" or os.environ.get("VERIF_BUILD"):
        return os.path.join(build.BUILD, "evidence")
    return EVID


def write_evidence(chk, tier, seed, merged, wall, nviol, extra=None):
    EVID = evidence_dir()
    os.makedirs(EVID, exist_ok=True)
    cov = {
        "evaluations": merged["evaluations"],
        "distinct_nontrivial": len(merged["fps"]),
        "rule": chk.RULE,
        "samples": [s[1] for s in merged["samples"][:6]],
        "exhaustive": bool(chk.EXHAUSTIVE and merged.get("exhaustive_complete", False)),
        "classes": dict(sorted(merged["labels"].items())),
        "rejected_by_library": merged["rejected"],
        "rejected_examples": merged["reject_examples"][:5],
        "discarded_outside_domain": merged["discarded"],
        "excluded_known": merged["excluded_known"],
        "crashed": merged["crashed"],
        "exhaustive_cases": merged["exhaustive_done"],
        "regression_inputs_replayed": merged["regress_replayed"],
        "time_cap_hit": merged["timed_out"],
        "shards": merged["shards"],
    }
    if extra:
        cov.update(extra)
    ev = {
        "property_id": chk.ID, "tier": tier, "seed": seed, "level": chk.LEVEL,
        "coverage": cov, "assumptions": list(chk.ASSUMPTIONS), "wall_s": round(wall, 2),
        "violations": nviol,
    }
    tmp = os.path.join(EVID, chk.ID + ".json.tmp")
    with open(tmp, "w") as f:
        json.dump(ev, f, indent=1, sort_keys=True, default=str)
    os.replace(tmp, os.path.join(EVID, chk.ID + ".json"))


def merge(results):
    m = dict(evaluations=0, fps=set(), labels={}, rejected=0, discarded=0, excluded_known=0,
             crashed=0, samples=[], known_hits={}, exhaustive_done=0, regress_replayed=0,
             timed_out=False, reject_examples=[], shards=len(results))
    for st, _, ctxlabels, _ in results:
        for k in ("evaluations", "rejected", "discarded", "excluded_known", "crashed",
                  "exhaustive_done", "regress_replayed"):
            m[k] += st[k]
        m["fps"].update(st["fps"])
        for src in (st["labels"], ctxlabels):
            for k, v in src.items():
                m["labels"][k] = m["labels"].get(k, 0) + v
        m["samples"].extend([tuple(s) for s in st["samples"]])
        m["known_hits"].update(st["known_hits"])
        m["timed_out"] = m["timed_out"] or st["timed_out"]
        m["reject_examples"].extend(st["reject_examples"])
    m["samples"].sort(key=lambda t: t[0])
    return m


def main_check(modname, clsname, tier, seed, replay=None):
    import importlib
    t0 = time.time()
    mod = importlib.import_module(modname)
    chk = getattr(mod, clsname)()
    pid = chk.ID
    if hasattr(chk, "run_custom"):
        # engines other than Hypothesis+probe (rapidcheck, libFuzzer): the check drives
        # its own binary, writes evidence via write_evidence() and returns the exit code
        try:
            return chk.run_custom(tier, seed, replay)
        except build.BuildError as e:
            print("BUILD-ERROR property=%s %s" % (pid, e))
            return 2
    # build first (serialised by flock), so that shards only run
    try:
        if chk.PROBE:
            build.ensure_probe(chk.PROBE, chk.PROBE_GROUP)
        if hasattr(chk, "prepare"):
            chk.prepare(tier)
    except build.BuildError as e:
        print("BUILD-ERROR property=%s %s" % (pid, e))
        return 2
    os.environ["VERIF_NOBUILD"] = "1"
    known = load_known(pid)

    if replay:
        with open(replay) as f:
            case = json.load(f)["case"]
        fails, v = confirm(chk, case, known, 1)
        if fails:
            print("VIOLATION property=%s replay=%s" % (pid, replay))
            print(json.dumps(_trim(v), indent=1, default=str)[:4000])
            return 1
        print("replay passes: property=%s" % pid)
        return 0

    nshards = int(os.environ.get("VERIF_SHARDS", chk.SHARDS))
    args = [(modname, clsname, tier, seed, i, nshards, None) for i in range(nshards)]
    if nshards == 1:
        results = [run_shard(args[0])]
    else:
        with mp.get_context("fork").Pool(nshards) as pool:
            results = pool.map(run_shard, args)
    merged = merge(results)
    merged["exhaustive_complete"] = True
    errors = [r[3] for r in results if r[3]]
    allv = [v for r in results for v in r[1]]
    rc = 0
    nviol = 0
    reported = set()
    for e in known:
        if e.get("status") == "known":
            # a known finding is announced whenever it is listed (the check saw it or excluded it)
            print("KNOWN-FINDING: property=%s %s [%s; seen %s this run]" % (
                pid, e.get("what", ""), e.get("key"),
                "yes" if e.get("key") in merged["known_hits"] else "no"))
    flaky = 0
    for item in allv:
        key = sha(item["case"])
        if key in reported or len(reported) >= 3:
            continue
        fails, v = confirm(chk, item["case"], known, 3)
        if fails == 3:
            reported.add(key)
            d = os.path.join(OUT, pid)
            os.makedirs(d, exist_ok=True)
            path = os.path.join(d, key + ".json")
            with open(path, "w") as f:
                json.dump({"property": pid, "case": item["case"], "violation": _trim(v, 4000),
                           "phase": item["phase"], "tier": tier, "seed": seed}, f, indent=1, default=str)
            print("VIOLATION property=%s replay=%s" % (pid, path))
            print("  rule: %s" % v.get("rule"))
            print("  detail: %s" % json.dumps(_trim(v.get("detail"), 600), default=str)[:1500])
            nviol += 1
            rc = 1
        elif fails == 0 and chk.known_key(item["case"], item["viol"]) is not None and False:
            pass
        else:
            flaky += 1
            print("FLAKY-DISCARDED property=%s case failed %d/3 on replay (harness problem, not a finding)" % (pid, fails))
    wall = time.time() - t0
    extra = chk.extra_evidence(merged) or {}
    extra["flaky_discarded"] = flaky
    ev_ok = True
    if merged["evaluations"] < 1 or len(merged["fps"]) < 2:
        ev_ok = False
    write_evidence(chk, tier, seed, merged, wall, nviol, extra)
    if errors:
        print("HARNESS-ERROR property=%s\n%s" % (pid, errors[0]))
        return max(rc, 2) if rc != 1 else 1
    if rc == 1:
        return 1
    # vacuity guards -> inconclusive (2), never a silent pass
    total = merged["evaluations"] + merged["rejected"]
    if flaky:
        return 2
    if total and merged["rejected"] / total > chk.MAX_REJECT:
        print("INCONCLUSIVE property=%s: %d of %d generated cases rejected by the library (generator problem): %s" % (
            pid, merged["rejected"], total, merged["reject_examples"][:2]))
        return 2
    if merged["evaluations"] < chk.MIN_EVALS[tier] and "VERIF_EXAMPLES" not in os.environ:
        print("INCONCLUSIVE property=%s: only %d evaluations (< %d)" % (pid, merged["evaluations"], chk.MIN_EVALS[tier]))
        return 2
    for lab, frac in chk.floors(tier).items():
        got = merged["labels"].get(lab, 0)
        if got < frac * merged["evaluations"]:
            print("INCONCLUSIVE property=%s: class '%s' only %d of %d evaluations (floor %.3f)" % (
                pid, lab, got, merged["evaluations"], frac))
            return 2
    if not ev_ok:
        print("INCONCLUSIVE property=%s: fewer than 2 distinct non-trivial cases" % pid)
        return 2
    print("OK property=%s tier=%s seed=%d evaluations=%d distinct_nontrivial=%d rejected=%d excluded_known=%d wall=%.1fs" % (
        pid, tier, seed, merged["evaluations"], len(merged["fps"]), merged["rejected"],
        merged["excluded_known"], wall))
    return 0
