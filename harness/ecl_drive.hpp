// Shared by the libFuzzer target (fuzz/fz_eclfile.cpp) and the probe command ecl_open (probe/cmd_deck_ecl.cpp):
// opens a byte string as an Eclipse result file with the reader selected by `kind` and walks what the reader offers.
// Oracle (in the callers): return or std::exception.
#pragma once
#include <opm/io/eclipse/EclFile.hpp>
#include <opm/io/eclipse/EGrid.hpp>
#include <opm/io/eclipse/ERft.hpp>
#include <opm/io/eclipse/ERst.hpp>
#include <opm/io/eclipse/ESmry.hpp>
#include <opm/io/eclipse/ExtESmry.hpp>
#include <opm/io/eclipse/EInit.hpp>

#include <array>
#include <cstdint>
#include <fstream>
#include <string>
#include <vector>

namespace ecldrive {
namespace E = Opm::EclIO;
struct Counters { unsigned long long opened = 0, arrays = 0; };

inline void put(const std::string& path, const uint8_t* d, size_t n) {
    std::ofstream o(path, std::ios::binary | std::ios::trunc);
    o.write(reinterpret_cast<const char*>(d), (std::streamsize)n);
}

template <class F> inline void read_all(F& f, Counters& c) {
    auto list = f.getList();
    for (std::size_t i = 0; i < list.size() && i < 64; ++i) {
        try {
            switch (std::get<1>(list[i])) {
            case E::INTE: f.template get<int>((int)i); break;
            case E::REAL: f.template get<float>((int)i); break;
            case E::DOUB: f.template get<double>((int)i); break;
            case E::LOGI: f.template get<bool>((int)i); break;
            case E::CHAR:
            case E::C0NN: f.template get<std::string>((int)i); break;
            default: break;
            }
            ++c.arrays;
        } catch (const std::exception&) {}
    }
}

// kind 0..10: EclFile unformatted / formatted, ERst unf / fmt, EGrid unf / fmt, ESmry unf / fmt (spec and data part split
// at the first 0x1C byte), ERft, ExtESmry (kind 10), EInit (9 and everything else)
inline void drive(unsigned kind, const uint8_t* d, size_t n, const std::string& g_dir, Counters& c) {
    unsigned long long& g_opened = c.opened;
    unsigned long long& g_arrays = c.arrays;
    try {
        switch (kind) {
        case 0: case 1: {
            const std::string p = g_dir + (kind ? "/F.FDATA" : "/F.DATAX");
            put(p, d, n);
            E::EclFile f(p, E::EclFile::Formatted{kind == 1});
            ++g_opened;
            read_all(f, c);
            f.is_ix();
            break;
        }
        case 2: case 3: {
            const std::string p = g_dir + (kind == 3 ? "/F.FUNRST" : "/F.UNRST");
            put(p, d, n);
            E::ERst r(p);
            ++g_opened;
            for (int s : r.listOfReportStepNumbers()) {
                try {
                    auto arrays = r.listOfRstArrays(s);
                    r.loadReportStepNumber(s);
                    g_arrays += arrays.size();
                    for (auto& a : arrays) r.occurrence_count(std::get<0>(a), s);
                } catch (const std::exception&) {}
            }
            break;
        }
        case 4: case 5: {
            const std::string p = g_dir + (kind == 5 ? "/F.FEGRID" : "/F.EGRID");
            put(p, d, n);
            E::EGrid g(p);
            ++g_opened;
            auto dims = g.dimension();
            if ((long)dims[0] * dims[1] * dims[2] < 100000 && dims[0] > 0 && dims[1] > 0 && dims[2] > 0) {
                g.load_grid_data();
                std::array<double, 8> X, Y, Z;
                try { g.getCellCorners(0, X, Y, Z); } catch (const std::exception&) {}
                try { g.activeCells(); g.get_mapaxes(); g.get_mapunits(); } catch (const std::exception&) {}
                ++g_arrays;
            }
            break;
        }
        case 6: case 7: {
            // summary: spec part and data part split at the first 0x1C byte
            size_t cut = 0;
            while (cut < n && d[cut] != 0x1c) ++cut;
            const bool fmt = kind == 7;
            const std::string spec = g_dir + (fmt ? "/S.FSMSPEC" : "/S.SMSPEC");
            const std::string uns = g_dir + (fmt ? "/S.FUNSMRY" : "/S.UNSMRY");
            put(spec, d, cut);
            if (cut < n) put(uns, d + cut + 1, n - cut - 1); else put(uns, d, 0);
            E::ESmry s(spec, false);
            ++g_opened;
            s.loadData();
            auto kws = s.keywordList();
            for (std::size_t i = 0; i < kws.size() && i < 32; ++i) {
                try { s.get(kws[i]); s.get_unit(kws[i]); ++g_arrays; } catch (const std::exception&) {}
            }
            try { s.dates(); s.startdate(); } catch (const std::exception&) {}
            break;
        }
        case 8: {
            const std::string p = g_dir + "/F.RFT";
            put(p, d, n);
            E::ERft r(p);
            ++g_opened;
            for (auto& rep : r.listOfRftReports()) {
                try { r.listOfRftArrays(std::get<0>(rep), std::get<1>(rep)); ++g_arrays; } catch (const std::exception&) {}
            }
            break;
        }
        case 10: {
            const std::string p = g_dir + "/S.ESMRY";
            put(p, d, n);
            E::ExtESmry s(p, false);
            ++g_opened;
            s.loadData();
            auto kws = s.keywordList();
            for (std::size_t i = 0; i < kws.size() && i < 32; ++i) {
                try { s.get(kws[i]); s.get_unit(kws[i]); ++g_arrays; } catch (const std::exception&) {}
            }
            try { s.dates(); s.startdate(); s.all_steps_available(); } catch (const std::exception&) {}
            break;
        }
        default: {
            const std::string p = g_dir + "/F.INIT";
            put(p, d, n);
            E::EInit in(p);
            ++g_opened;
            try { in.list_arrays(); ++g_arrays; } catch (const std::exception&) {}
            break;
        }
        }
    } catch (const std::exception&) {
    }
}
} // namespace ecldrive
