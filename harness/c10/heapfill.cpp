// LD_PRELOAD shim for C10: every malloc'ed block is filled, over its whole usable size, with the byte given
// in C10_HEAP_FILL (decimal).  Makes reads of uninitialised heap bytes and short over-reads behind a
// buffer deterministic (heap poisoning, as sanitizers/fuzzers do), without rebuilding the library.
#include <cstddef>
#include <cstdlib>
#include <cstring>
#include <malloc.h>

extern "C" void* __libc_malloc(std::size_t);

static int fill_byte()
{
    static int b = -2;
    if (b == -2) {
        const char* e = std::getenv("C10_HEAP_FILL");
        b = e ? std::atoi(e) : -1;
    }
    return b;
}

extern "C" void* malloc(std::size_t n)
{
    void* p = __libc_malloc(n);
    const int b = fill_byte();
    if (p && b >= 0) std::memset(p, b, malloc_usable_size(p));
    return p;
}
