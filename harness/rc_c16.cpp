// C16 -- automatic differentiation (opm/material/densead) is exact in every variant.
//
// rapidcheck, in process.  One random expression tree is generated (valid by
// construction: every function argument is moved into the function's domain by
// ordinary scalar add/multiply/negate nodes that are part of the tree) and then
// evaluated by a templated interpreter for
//     Evaluation<double,N>            N = 1..12   (unrolled specialisations)
//     Evaluation<double,N>            N = 13..16  (generic static implementation)
//     Evaluation<double,DynamicSize,6> and <..,0> (dynamic, run-time size 1..16)
//
// Oracle (this file never looks at Math.hpp's formulas; textbook calculus only):
//  (L) node-local: for every node, the library result must equal the reference
//      dual-number operation applied to the library's own operand results:
//      value() bit for bit, derivative(i) within 16 ulp x sum|terms|.
//  (G) end-to-end: an independent 16-wide dual evaluation of the whole tree,
//      carrying a running magnitude sum|terms|, must match the root of every
//      variant on the slots it has (truncation), tolerance 16 ulp x (depth+1) x magnitude.
//  (X) cross-variant: every variant's root value is bit-identical with the
//      Evaluation<double,16> root and its derivatives agree within the (G) tolerance.
//  Mixed scalar/Evaluation forms are separate node kinds whose reference is the
//  all-dual form with the scalar promoted to a constant dual.
//
// The binary prints one JSON object with counters on stdout; a failing (shrunk)
// tree is written as JSON to --fail-out and can be re-run with --replay.
#include <rapidcheck.h>

#include <opm/material/densead/Evaluation.hpp>
#include <opm/material/densead/Math.hpp>
#include <opm/material/common/MathToolbox.hpp>

#include <cjson/cJSON.h>

#include <algorithm>
#include <array>
#include <cinttypes>
#include <cmath>
#include <csignal>
#include <cstdint>
#include <cstdio>
#include <cstdlib>
#include <cstring>
#include <ctime>
#include <fstream>
#include <map>
#include <set>
#include <sstream>
#include <string>
#include <unistd.h>
#include <vector>

namespace DA = Opm::DenseAd;

static constexpr int W = 16;              // widest gradient
static constexpr double EPS = 2.220446049250313e-16;   // 2^-52 = 1 ulp relative (upper bound)
// Tolerance for one operation.  The reference and the library may legitimately use
// different but mathematically equal expressions for f'(x) (1+tan^2 vs 1/cos^2,
// pow(x,y)/x*y vs y*pow(x,y-1), 1/x*log10(e) vs 1/(x ln 10)).  Each such expression
// consists of at most two libm calls (<= 1 ulp each in glibc for the functions used,
// entering at most squared -> 2 ulp each) and at most 5 roundings of + - * /
// (0.5 ulp each), followed by the product with the operand derivative and, for binary
// operations, one addition (1 ulp together) on either side:
// 2*2 + 5*0.5 + 1 = 7.5 ulp per side, 15 for the difference -> 16.  All bounds are
// relative to the sum of the absolute values of the terms, so cancellation in
// u'v - uv' cannot raise an alarm.  The generator keeps arguments away from points
// where f' itself is ill conditioned (|x| <= 0.9 for asin/acos, x >= 1.1 for acosh).
static constexpr double KLOCAL = 16.0;

enum Op : int {
    VAR = 0, CONST, DENSE,
    COPY, ASSIGN, MOVE, NEG,
    ADD, SUB, MUL, DIV, CADD, CSUB, CMUL, CDIV,
    ADDS, SUBS, MULS, DIVS, CADDS, CSUBS, CMULS, CDIVS,
    SADD, SSUB, SMUL, SDIV,
    SELFADD, SELFMUL, SELFDIV,
    SQRT, EXP, LOG, LOG10, SIN, COS, TAN, ASIN, ACOS, ATAN, SINH, COSH, ASINH, ACOSH, ABS,
    POWEE, POWES, POWSE, ATAN2EE, ATAN2ES, ATAN2SE,
    MINEE, MINES, MINSE, MAXEE, MAXES, MAXSE,
    NOPS
};

struct OpInfo { const char* name; int arity; bool scalar; bool nonlinear; bool toolbox; };
static const OpInfo OPS[NOPS] = {
    {"VAR", 0, false, false, true}, {"CONST", 0, false, false, true}, {"DENSE", 0, false, false, false},
    {"COPY", 1, false, false, false}, {"ASSIGN", 1, false, false, false}, {"MOVE", 1, false, false, false},
    {"NEG", 1, false, false, false},
    {"ADD", 2, false, false, false}, {"SUB", 2, false, false, false}, {"MUL", 2, false, true, false},
    {"DIV", 2, false, true, false}, {"CADD", 2, false, false, false}, {"CSUB", 2, false, false, false},
    {"CMUL", 2, false, true, false}, {"CDIV", 2, false, true, false},
    {"ADDS", 1, true, false, false}, {"SUBS", 1, true, false, false}, {"MULS", 1, true, false, false},
    {"DIVS", 1, true, false, false}, {"CADDS", 1, true, false, false}, {"CSUBS", 1, true, false, false},
    {"CMULS", 1, true, false, false}, {"CDIVS", 1, true, false, false},
    {"SADD", 1, true, false, false}, {"SSUB", 1, true, false, false}, {"SMUL", 1, true, false, false},
    {"SDIV", 1, true, true, false},
    {"SELFADD", 1, false, false, false}, {"SELFMUL", 1, false, true, false}, {"SELFDIV", 1, false, true, false},
    {"SQRT", 1, false, true, true}, {"EXP", 1, false, true, true}, {"LOG", 1, false, true, true},
    {"LOG10", 1, false, true, true}, {"SIN", 1, false, true, true}, {"COS", 1, false, true, true},
    {"TAN", 1, false, true, true}, {"ASIN", 1, false, true, true}, {"ACOS", 1, false, true, true},
    {"ATAN", 1, false, true, true},
#ifdef C16_HAVE_OPM_HYP
    {"SINH", 1, false, true, true}, {"COSH", 1, false, true, true}, {"ASINH", 1, false, true, true},
    {"ACOSH", 1, false, true, true},
#else
    {"SINH", 1, false, true, false}, {"COSH", 1, false, true, false}, {"ASINH", 1, false, true, false},
    {"ACOSH", 1, false, true, false},
#endif
    {"ABS", 1, false, true, true},
    {"POWEE", 2, false, true, true}, {"POWES", 1, true, true, true}, {"POWSE", 1, true, true, true},
    {"ATAN2EE", 2, false, true, true}, {"ATAN2ES", 1, true, true, true}, {"ATAN2SE", 1, true, true, true},
    {"MINEE", 2, false, true, true}, {"MINES", 1, true, true, true}, {"MINSE", 1, true, true, true},
    {"MAXEE", 2, false, true, true}, {"MAXES", 1, true, true, true}, {"MAXSE", 1, true, true, true},
};

static bool opEnabled(int op)
{
#ifndef C16_HAVE_ATAN2_SE
    if (op == ATAN2SE) return false;     // overload does not compile in /repo (finding, see checks/c16.py)
#endif
    return true;
}

struct Node {
    int op = VAR;
    int a = -1, b = -1;
    double s = 0.0;        // scalar operand / constant / value of a DENSE leaf
    int var = 0;           // variable index of a VAR leaf
    int tb = 0;            // 1: call through the Opm:: convenience wrappers (MathToolbox route)
    std::vector<double> g; // gradient of a DENSE leaf (W entries)
};

struct Tree {
    std::vector<Node> nodes;    // post-order, root last
    std::array<double, W> x{};  // values of the variables
    int nv = 1;                 // variables are drawn from [0,nv)
    int dynN = 1;               // run-time size used by the dynamic variants
};

// ---------------------------------------------------------------------------
// reference: scalar semantics and textbook dual numbers
// ---------------------------------------------------------------------------
struct Dual {
    double v = 0.0;
    std::array<double, W> d{};
    std::array<double, W> m{};   // running sum of |terms| of d
};

// value of one operation on plain doubles (what <cmath> gives for the same argument)
static double scalarOp(int op, double a, double b, double s)
{
    switch (op) {
    case COPY: case ASSIGN: case MOVE: return a;
    case NEG: return -a;
    case ADD: case CADD: return a + b;
    case SUB: case CSUB: return a - b;
    case MUL: case CMUL: return a * b;
    case DIV: case CDIV: return a / b;
    case ADDS: case CADDS: return a + s;
    case SUBS: case CSUBS: return a - s;
    case MULS: case CMULS: return a * s;
    case DIVS: case CDIVS: return a / s;
    case SADD: return s + a;
    case SSUB: return s - a;
    case SMUL: return s * a;
    case SDIV: return s / a;
    case SELFADD: return a + a;
    case SELFMUL: return a * a;
    case SELFDIV: return a / a;
    case SQRT: return std::sqrt(a);
    case EXP: return std::exp(a);
    case LOG: return std::log(a);
    case LOG10: return std::log10(a);
    case SIN: return std::sin(a);
    case COS: return std::cos(a);
    case TAN: return std::tan(a);
    case ASIN: return std::asin(a);
    case ACOS: return std::acos(a);
    case ATAN: return std::atan(a);
    case SINH: return std::sinh(a);
    case COSH: return std::cosh(a);
    case ASINH: return std::asinh(a);
    case ACOSH: return std::acosh(a);
    case ABS: return std::fabs(a);
    case POWEE: return std::pow(a, b);
    case POWES: return std::pow(a, s);
    case POWSE: return std::pow(s, a);
    case ATAN2EE: return std::atan2(a, b);
    case ATAN2ES: return std::atan2(a, s);
    case ATAN2SE: return std::atan2(s, a);
    case MINEE: return a < b ? a : b;
    case MINES: return a < s ? a : s;
    case MINSE: return s < a ? s : a;
    case MAXEE: return a > b ? a : b;
    case MAXES: return a > s ? a : s;
    case MAXSE: return s > a ? s : a;
    }
    return std::nan("");
}

// out = ca * A + cb * B   (derivatives and magnitudes)
static void lin(Dual& out, double ca, const Dual* A, double cb, const Dual* B)
{
    for (int i = 0; i < W; ++i) {
        double t = 0.0, mm = 0.0;
        if (A) { t = ca * A->d[i]; mm = std::fabs(ca) * A->m[i]; }
        if (B) { t += cb * B->d[i]; mm += std::fabs(cb) * B->m[i]; }
        out.d[i] = t;
        out.m[i] = mm;
    }
}

// textbook chain rule for one node.  Scalars take part as constants (zero gradient).
static void refNode(const Node& n, const Dual* A, const Dual* B, Dual& out)
{
    const double a = A ? A->v : 0.0;
    const double b = B ? B->v : 0.0;
    const double s = n.s;
    out.v = scalarOp(n.op, a, b, s);
    switch (n.op) {
    case COPY: case ASSIGN: case MOVE: lin(out, 1.0, A, 0.0, nullptr); break;
    case NEG: lin(out, -1.0, A, 0.0, nullptr); break;
    case ADD: case CADD: lin(out, 1.0, A, 1.0, B); break;
    case SUB: case CSUB: lin(out, 1.0, A, -1.0, B); break;
    case MUL: case CMUL: lin(out, b, A, a, B); break;                       // (uv)' = u'v + uv'
    case DIV: case CDIV: lin(out, 1.0 / b, A, -a / (b * b), B); break;      // (u/v)' = u'/v - u v'/v^2
    case ADDS: case CADDS: case SUBS: case CSUBS: case SADD: lin(out, 1.0, A, 0.0, nullptr); break;
    case SSUB: lin(out, -1.0, A, 0.0, nullptr); break;
    case MULS: case CMULS: case SMUL: lin(out, s, A, 0.0, nullptr); break;
    case DIVS: case CDIVS: lin(out, 1.0 / s, A, 0.0, nullptr); break;
    case SDIV: lin(out, -s / (a * a), A, 0.0, nullptr); break;              // (s/u)' = -s u'/u^2
    case SELFADD: lin(out, 1.0, A, 1.0, A); break;
    case SELFMUL: lin(out, a, A, a, A); break;
    case SELFDIV: lin(out, 1.0 / a, A, -a / (a * a), A); break;
    case SQRT: lin(out, 1.0 / (2.0 * std::sqrt(a)), A, 0.0, nullptr); break;
    case EXP: lin(out, std::exp(a), A, 0.0, nullptr); break;
    case LOG: lin(out, 1.0 / a, A, 0.0, nullptr); break;
    case LOG10: lin(out, 1.0 / (a * std::log(10.0)), A, 0.0, nullptr); break;
    case SIN: lin(out, std::cos(a), A, 0.0, nullptr); break;
    case COS: lin(out, -std::sin(a), A, 0.0, nullptr); break;
    case TAN: { const double c = std::cos(a); lin(out, 1.0 / (c * c), A, 0.0, nullptr); break; }
    case ASIN: lin(out, 1.0 / std::sqrt(1.0 - a * a), A, 0.0, nullptr); break;
    case ACOS: lin(out, -1.0 / std::sqrt(1.0 - a * a), A, 0.0, nullptr); break;
    case ATAN: lin(out, 1.0 / (1.0 + a * a), A, 0.0, nullptr); break;
    case SINH: lin(out, std::cosh(a), A, 0.0, nullptr); break;
    case COSH: lin(out, std::sinh(a), A, 0.0, nullptr); break;
    case ASINH: lin(out, 1.0 / std::sqrt(a * a + 1.0), A, 0.0, nullptr); break;
    case ACOSH: lin(out, 1.0 / std::sqrt(a * a - 1.0), A, 0.0, nullptr); break;
    case ABS: lin(out, a > 0.0 ? 1.0 : -1.0, A, 0.0, nullptr); break;
    case POWEE:   // d(u^v) = v u^(v-1) du + u^v ln(u) dv
        lin(out, b * std::pow(a, b - 1.0), A, std::pow(a, b) * std::log(a), B); break;
    case POWES: lin(out, s * std::pow(a, s - 1.0), A, 0.0, nullptr); break;
    case POWSE: lin(out, std::pow(s, a) * std::log(s), A, 0.0, nullptr); break;
    case ATAN2EE: { const double den = a * a + b * b; lin(out, b / den, A, -a / den, B); break; }
    case ATAN2ES: { const double den = a * a + s * s; lin(out, s / den, A, 0.0, nullptr); break; }
    case ATAN2SE: { const double den = s * s + a * a; lin(out, -s / den, A, 0.0, nullptr); break; }
    case MINEE: if (a < b) lin(out, 1.0, A, 0.0, nullptr); else lin(out, 0.0, nullptr, 1.0, B); break;
    case MAXEE: if (a > b) lin(out, 1.0, A, 0.0, nullptr); else lin(out, 0.0, nullptr, 1.0, B); break;
    case MINES: case MINSE: lin(out, a < s ? 1.0 : 0.0, A, 0.0, nullptr); break;
    case MAXES: case MAXSE: lin(out, a > s ? 1.0 : 0.0, A, 0.0, nullptr); break;
    default: break;
    }
}

// The input domain of the property, per node, on the reference operand values.  The generator
// stays inside it by construction (its thresholds are equal or tighter); replayed hand-written
// trees outside it are reported as "outside the domain", never as violations.
static bool domainOK(const Node& n, double a, double b)
{
    const double BIGV = 1e15;   // operands of scaling nodes may be products of two in-range values
    const double s = n.s;
    auto mag = [](double v, double lo, double hi) { return std::fabs(v) >= lo && std::fabs(v) <= hi; };
    if (OPS[n.op].arity >= 1 && !(std::fabs(a) <= BIGV)) return false;
    if (OPS[n.op].arity == 2 && !(std::fabs(b) <= BIGV)) return false;
    switch (n.op) {
    case DIV: case CDIV: return mag(b, 0.05, BIGV);
    case DIVS: case CDIVS: return mag(s, 0.05, BIGV);
    case SDIV: case SELFDIV: return mag(a, 0.05, BIGV);
    case SQRT: case LOG: case LOG10: return a >= 0.01;
    case EXP: case SINH: case COSH: return std::fabs(a) <= 10.0;
    case SIN: case COS: return std::fabs(a) <= 1000.0;
    case TAN: return std::fabs(a) <= 101.0 && std::fabs(std::cos(a)) >= 0.1;
    case ASIN: case ACOS: return std::fabs(a) <= 0.9;
    case ACOSH: return a >= 1.1 && a <= 50.0;
    case ABS: return mag(a, 0.01, BIGV);
    case POWEE: return a >= 0.05 && a <= 20.0 && std::fabs(b) <= 6.0;
    case POWES: return (a >= 0.05 && a <= 20.0 && std::fabs(s) <= 4.0) || (a == 0.0 && !std::signbit(a) && s >= 1.0 && s <= 4.0)
                       || (a <= -0.05 && a >= -20.0 && s == std::floor(s) && std::fabs(s) <= 4.0);
    case POWSE: return std::fabs(a) <= 8.0 && s >= 0.1 && s <= 10.0;
    case ATAN2EE: return mag(a, 0.01, BIGV) && mag(b, 0.05, BIGV);
    case ATAN2ES: return mag(a, 0.01, BIGV) && mag(s, 0.05, BIGV);
    case ATAN2SE: return mag(a, 0.05, BIGV) && mag(s, 0.01, BIGV);
    case MINEE: case MAXEE: return std::fabs(a - b) >= 0.0099 * (1.0 + std::fabs(a));
    case MINES: case MINSE: case MAXES: case MAXSE: return std::fabs(a - s) >= 0.0099 * (1.0 + std::fabs(a));
    default: return true;
    }
}

static void refLeaf(const Tree& t, const Node& n, Dual& out)
{
    out = Dual();
    if (n.op == VAR) { out.v = t.x[n.var]; out.d[n.var] = 1.0; out.m[n.var] = 1.0; }
    else if (n.op == CONST) { out.v = n.s; }
    else { out.v = n.s; for (int i = 0; i < W; ++i) { out.d[i] = n.g[i]; out.m[i] = std::fabs(n.g[i]); } }
}

// ---------------------------------------------------------------------------
// JSON in / out of trees
// ---------------------------------------------------------------------------
static std::string hexd(double x) { char buf[64]; std::snprintf(buf, sizeof buf, "%a", x); return buf; }

static std::string exprOf(const Tree& t, int i)
{
    const Node& n = t.nodes[i];
    std::ostringstream o;
    char buf[48];
    if (n.op == VAR) { o << "x" << n.var; return o.str(); }
    if (n.op == CONST) { std::snprintf(buf, sizeof buf, "%.6g", n.s); o << "c(" << buf << ")"; return o.str(); }
    if (n.op == DENSE) { std::snprintf(buf, sizeof buf, "%.6g", n.s); o << "dense(" << buf << ")"; return o.str(); }
    o << OPS[n.op].name << (n.tb ? "'" : "") << "(" << exprOf(t, n.a);
    if (n.b >= 0) o << "," << exprOf(t, n.b);
    if (OPS[n.op].scalar) { std::snprintf(buf, sizeof buf, "%.6g", n.s); o << ";" << buf; }
    o << ")";
    return o.str();
}

static std::string treeJson(const Tree& t)
{
    std::ostringstream o;
    o << "{\"nv\":" << t.nv << ",\"dynN\":" << t.dynN << ",\"x\":[";
    for (int i = 0; i < W; ++i) o << (i ? "," : "") << "\"" << hexd(t.x[i]) << "\"";
    o << "],\"nodes\":[";
    for (size_t i = 0; i < t.nodes.size(); ++i) {
        const Node& n = t.nodes[i];
        o << (i ? "," : "") << "{\"op\":\"" << OPS[n.op].name << "\",\"a\":" << n.a << ",\"b\":" << n.b
          << ",\"s\":\"" << hexd(n.s) << "\",\"var\":" << n.var << ",\"tb\":" << n.tb;
        if (!n.g.empty()) {
            o << ",\"g\":[";
            for (int k = 0; k < W; ++k) o << (k ? "," : "") << "\"" << hexd(n.g[k]) << "\"";
            o << "]";
        }
        o << "}";
    }
    o << "],\"expr\":\"" << (t.nodes.empty() ? std::string() : exprOf(t, int(t.nodes.size()) - 1)) << "\"}";
    return o.str();
}

static bool treeFromJson(const cJSON* c, Tree& t, std::string& err)
{
    const cJSON* nv = cJSON_GetObjectItem(c, "nv");
    const cJSON* dn = cJSON_GetObjectItem(c, "dynN");
    const cJSON* x = cJSON_GetObjectItem(c, "x");
    const cJSON* nodes = cJSON_GetObjectItem(c, "nodes");
    if (!nv || !dn || !x || !nodes || cJSON_GetArraySize(x) != W) { err = "bad tree object"; return false; }
    t.nv = nv->valueint; t.dynN = dn->valueint;
    if (t.dynN < 1 || t.dynN > W) { err = "dynN out of range"; return false; }
    for (int i = 0; i < W; ++i) t.x[i] = std::strtod(cJSON_GetArrayItem(x, i)->valuestring, nullptr);
    const int nn = cJSON_GetArraySize(nodes);
    for (int i = 0; i < nn; ++i) {
        const cJSON* jn = cJSON_GetArrayItem(nodes, i);
        Node n;
        const char* name = cJSON_GetObjectItem(jn, "op")->valuestring;
        n.op = -1;
        for (int k = 0; k < NOPS; ++k) if (!std::strcmp(name, OPS[k].name)) n.op = k;
        if (n.op < 0 || !opEnabled(n.op)) { err = std::string("unknown/disabled op ") + name; return false; }
        n.a = cJSON_GetObjectItem(jn, "a")->valueint;
        n.b = cJSON_GetObjectItem(jn, "b")->valueint;
        n.s = std::strtod(cJSON_GetObjectItem(jn, "s")->valuestring, nullptr);
        n.var = cJSON_GetObjectItem(jn, "var")->valueint;
        n.tb = cJSON_GetObjectItem(jn, "tb")->valueint;
        const cJSON* g = cJSON_GetObjectItem(jn, "g");
        if (g) for (int k = 0; k < cJSON_GetArraySize(g); ++k) n.g.push_back(std::strtod(cJSON_GetArrayItem(g, k)->valuestring, nullptr));
        if (n.op == DENSE && int(n.g.size()) != W) { err = "dense leaf without gradient"; return false; }
        if (n.tb && OPS[n.op].scalar && !OPS[n.op].toolbox && (n.s != double(int(n.s)) || std::fabs(n.s) > 1e6)) { err = "int-scalar flag with a non-integral scalar"; return false; }
        if (n.tb && !OPS[n.op].toolbox && !(OPS[n.op].scalar)) n.tb = 0;
        if (n.var < 0 || n.var >= W) { err = "var out of range"; return false; }
        if (OPS[n.op].arity >= 1 && (n.a < 0 || n.a >= i)) { err = "child a out of order"; return false; }
        if (OPS[n.op].arity == 2 && (n.b < 0 || n.b >= i)) { err = "child b out of order"; return false; }
        t.nodes.push_back(n);
    }
    if (t.nodes.empty()) { err = "empty tree"; return false; }
    return true;
}

// ---------------------------------------------------------------------------
// failure record
// ---------------------------------------------------------------------------
struct Fail {
    bool set = false;
    bool domain = false;   // the reference itself is not finite at some node: outside the domain, discard
    std::string rule, key, variant, what;
    int node = -1, slot = -1;
    double got = 0, exp = 0, tol = 0;
};

static std::set<std::string> g_known;
static std::map<std::string, long> g_knownHits;

static std::string failJson(const Tree& t, const Fail& f)
{
    std::ostringstream o;
    o << "{\"case\":" << treeJson(t) << ",\"violation\":{\"rule\":\"" << f.rule << "\",\"key\":"
      << (f.key.empty() ? std::string("null") : "\"" + f.key + "\"")
      << ",\"detail\":{\"variant\":\"" << f.variant << "\",\"node\":" << f.node
      << ",\"op\":\"" << (f.node >= 0 ? OPS[t.nodes[f.node].op].name : "-") << "\""
      << ",\"subexpr\":\"" << (f.node >= 0 ? exprOf(t, f.node) : "") << "\""
      << ",\"slot\":" << f.slot << ",\"what\":\"" << f.what << "\""
      << ",\"observed\":\"" << hexd(f.got) << "\",\"expected\":\"" << hexd(f.exp) << "\""
      << ",\"observed_dec\":" << (std::isfinite(f.got) ? std::to_string(f.got) : std::string("null"))
      << ",\"expected_dec\":" << (std::isfinite(f.exp) ? std::to_string(f.exp) : std::string("null"))
      << ",\"tolerance\":\"" << hexd(f.tol) << "\"}}}";
    return o.str();
}

// ---------------------------------------------------------------------------
// variants
// ---------------------------------------------------------------------------
template <int N>
struct StaticTr {
    typedef DA::Evaluation<double, N> E;
    static constexpr bool dynamic = false;
    static int size(const Tree&) { return N; }
    static std::string name(int) { return "Evaluation<double," + std::to_string(N) + ">"; }
    static E cst(int, double c, int tb)
    { return tb ? Opm::constant<E>(c) : E::createConstant(c); }
    static E var(int, double x, int j, int tb)
    { return tb ? Opm::variable<E>(x, unsigned(j)) : E::createVariable(x, j); }
};

template <unsigned S>
struct DynTr {
    typedef DA::Evaluation<double, DA::DynamicSize, S> E;
    static constexpr bool dynamic = true;
    static int size(const Tree& t) { return t.dynN; }
    static std::string name(int n) { return "DynamicEvaluation<double," + std::to_string(S) + ">(n=" + std::to_string(n) + ")"; }
    static E cst(int n, double c, int tb)
    { return tb ? E::createConstant(E::createBlank(E(n)), c) : E::createConstant(n, c); }
    static E var(int n, double x, int j, int tb)
    { return tb ? E::createVariable(E::createConstantZero(E(n)), x, j) : E::createVariable(n, x, j); }
};

template <class E>
static E applyOp(const Node& n, const E& a, const E& b)
{
    const double s = n.s;
    const bool tb = n.tb != 0;
    switch (n.op) {
    case COPY: { E r(a); return r; }
    case ASSIGN: { E r; r = a; return r; }
    case MOVE: { E t(a); E r(std::move(t)); return r; }
    case NEG: return -a;
    case ADD: return a + b;
    case SUB: return a - b;
    case MUL: return a * b;
    case DIV: return a / b;
    case CADD: { E r(a); r += b; return r; }
    case CSUB: { E r(a); r -= b; return r; }
    case CMUL: { E r(a); r *= b; return r; }
    case CDIV: { E r(a); r /= b; return r; }
    // for the arithmetic mixed forms tb==1 means: the scalar operand is an `int`
    case ADDS: return tb ? a + int(s) : a + s;
    case SUBS: return tb ? a - int(s) : a - s;
    case MULS: return tb ? a * int(s) : a * s;
    case DIVS: return tb ? a / int(s) : a / s;
    case CADDS: { E r(a); if (tb) r += int(s); else r += s; return r; }
    case CSUBS: { E r(a); if (tb) r -= int(s); else r -= s; return r; }
    case CMULS: { E r(a); if (tb) r *= int(s); else r *= s; return r; }
    case CDIVS: { E r(a); if (tb) r /= int(s); else r /= s; return r; }
    case SADD: return tb ? int(s) + a : s + a;
    case SSUB: return tb ? int(s) - a : s - a;
    case SMUL: return tb ? int(s) * a : s * a;
    case SDIV: return tb ? int(s) / a : s / a;
    case SELFADD: { E r(a); r += r; return r; }
    case SELFMUL: { E r(a); r *= r; return r; }
    case SELFDIV: { E r(a); r /= r; return r; }
    case SQRT: return tb ? Opm::sqrt(a) : DA::sqrt(a);
    case EXP: return tb ? Opm::exp(a) : DA::exp(a);
    case LOG: return tb ? Opm::log(a) : DA::log(a);
    case LOG10: return tb ? Opm::log10(a) : DA::log10(a);
    case SIN: return tb ? Opm::sin(a) : DA::sin(a);
    case COS: return tb ? Opm::cos(a) : DA::cos(a);
    case TAN: return tb ? Opm::tan(a) : DA::tan(a);
    case ASIN: return tb ? Opm::asin(a) : DA::asin(a);
    case ACOS: return tb ? Opm::acos(a) : DA::acos(a);
    case ATAN: return tb ? Opm::atan(a) : DA::atan(a);
#ifdef C16_HAVE_OPM_HYP
    case SINH: return tb ? Opm::sinh(a) : DA::sinh(a);
    case COSH: return tb ? Opm::cosh(a) : DA::cosh(a);
    case ASINH: return tb ? Opm::asinh(a) : DA::asinh(a);
    case ACOSH: return tb ? Opm::acosh(a) : DA::acosh(a);
#else
    case SINH: return DA::sinh(a);
    case COSH: return DA::cosh(a);
    case ASINH: return DA::asinh(a);
    case ACOSH: return DA::acosh(a);
#endif
    case ABS: return tb ? Opm::abs(a) : DA::abs(a);
    case POWEE: return tb ? Opm::pow(a, b) : DA::pow(a, b);
    case POWES: return tb ? Opm::pow(a, s) : DA::pow(a, s);
    case POWSE: return tb ? Opm::pow(s, a) : DA::pow(s, a);
    case ATAN2EE: return tb ? Opm::atan2(a, b) : DA::atan2(a, b);
    case ATAN2ES: return tb ? Opm::atan2(a, s) : DA::atan2(a, s);
#ifdef C16_HAVE_ATAN2_SE
    case ATAN2SE: return tb ? Opm::atan2(s, a) : DA::atan2(s, a);
#endif
    case MINEE: return tb ? Opm::min(a, b) : DA::min(a, b);
    case MINES: return tb ? Opm::min(a, s) : DA::min(a, s);
    case MINSE: return tb ? Opm::min(s, a) : DA::min(s, a);
    case MAXEE: return tb ? Opm::max(a, b) : DA::max(a, b);
    case MAXES: return tb ? Opm::max(a, s) : DA::max(a, s);
    case MAXSE: return tb ? Opm::max(s, a) : DA::max(s, a);
    default: break;
    }
    return a;
}

struct RootObs {       // root of one variant
    int N = 0;
    std::string name;
    double v = 0;
    std::array<double, W> d{};
    bool deviated = false;   // a known value deviation was tolerated somewhere in the tree
};

static double ulpOf(double x)
{
    x = std::fabs(x);
    if (!(x > 0)) return 4.9e-324;
    return std::nextafter(x, INFINITY) - x;
}

// names of the keyed deviations (see checks/c16.py for the full description)
static const char* K_DIVS = "div-by-scalar-value-uses-reciprocal";
static const char* K_POWSE = "pow-scalar-base-value-via-exp-log";
static const char* K_DYNSDIV = "scalar-over-dynamic-evaluation-garbage";
static const char* K_POW0 = "pow-base-zero-exponent-one-derivative-zero";
static unsigned long long g_negpow = 0;     // pow(E, integer scalar) nodes with a negative base value
static unsigned long long g_reused = 0;     // results move-assigned into a reused object of another size (dynamic variants)

template <class TR>
static void runVariant(const Tree& t, RootObs& ro, Fail& fail)
{
    typedef typename TR::E E;
    const int N = TR::size(t);
    const std::string vname = TR::name(N);
    ro.N = N; ro.name = vname;
    std::vector<E> res;
    res.reserve(t.nodes.size());
    Dual A, B, R;
    for (size_t i = 0; i < t.nodes.size() && !fail.set; ++i) {
        const Node& n = t.nodes[i];
        const OpInfo& oi = OPS[n.op];
        auto toDual = [&](const E& e, Dual& out) {
            out = Dual();
            out.v = e.value();
            for (int k = 0; k < N; ++k) { out.d[k] = e.derivative(k); out.m[k] = std::fabs(out.d[k]); }
        };
        if (oi.arity == 0) {
            if (n.op == VAR) {
                // a variable the variant has no slot for is a constant of that variant
                if (n.var < N) res.push_back(TR::var(N, t.x[n.var], n.var, n.tb));
                else res.push_back(TR::cst(N, t.x[n.var], n.tb));
            } else if (n.op == CONST) {
                res.push_back(TR::cst(N, n.s, n.tb));
            } else {
                E e = TR::cst(N, n.s, 0);
                for (int k = 0; k < N; ++k) e.setDerivative(k, n.g[k]);
                res.push_back(e);
            }
            refLeaf(t, n, R);
            for (int k = N; k < W; ++k) { R.d[k] = 0; R.m[k] = 0; }
        } else {
            const E& ea = res[n.a];
            const E& eb = res[oi.arity == 2 ? n.b : n.a];
            toDual(ea, A);
            if (oi.arity == 2) toDual(eb, B);
            refNode(n, &A, oi.arity == 2 ? &B : nullptr, R);
            if (TR::dynamic && n.op == SDIV && g_known.count(K_DYNSDIV)) {
                // known finding: `scalar / DynamicEvaluation` is broken; keep going with the all-Evaluation form
                g_knownHits[K_DYNSDIV]++;
                res.push_back(TR::cst(N, n.s, 0) / ea);
            } else if (TR::dynamic && (i % 2 == 1)) {
                // object reuse: the result is move-assigned into an object that held an evaluation with ANOTHER number of
                // derivatives before (a work variable reused across expressions); value() and derivative() are then read
                // from that very object (res never reallocates: reserved above).  Sizes 3 / 11 lie on both sides of the
                // inline-storage bound of the <DynamicSize,6> variant.
                const int occ = (N <= 6) ? 11 : 3;
                E occupant = TR::var(occ, 0.75 + double(i), occ - 1, 0);
                for (int k = 0; k < occ; ++k) occupant.setDerivative(k, 100.0 + k);
                res.push_back(occupant);
                res.back() = applyOp<E>(n, ea, eb);
                g_reused++;
            } else {
                res.push_back(applyOp<E>(n, ea, eb));
            }
        }
        const E& r = res.back();
        {
            bool fin = std::isfinite(R.v);
            for (int k = 0; k < N; ++k) fin = fin && std::isfinite(R.d[k]) && std::isfinite(R.m[k]);
            if (!fin) { fail.domain = true; return; }
        }
        auto setFail = [&](const char* rule, const std::string& key, const char* what, int slot, double got, double exp, double tol) {
            fail.set = true; fail.rule = rule; fail.key = key; fail.variant = vname; fail.node = int(i);
            fail.slot = slot; fail.what = what; fail.got = got; fail.exp = exp; fail.tol = tol;
        };
        const std::string dynkey = (TR::dynamic && n.op == SDIV) ? K_DYNSDIV : "";
        if (r.size() != N) {
            setFail("result has the wrong number of derivatives", dynkey, "size()", -1, r.size(), N, 0);
            break;
        }
        // value: exact
        const double gv = r.value();
        if (!(gv == R.v)) {
            std::string key = dynkey;
            const double diff = std::fabs(gv - R.v);
            if ((n.op == DIVS || n.op == CDIVS) && diff <= 2.0 * ulpOf(R.v))
                key = K_DIVS;      // a*(1/s) instead of a/s: two roundings, |error| < 2 ulp
            else if (n.op == POWSE && diff <= (4.0 + 2.0 * std::fabs(A.v * std::log(n.s))) * EPS * std::fabs(R.v))
                key = K_POWSE;     // exp(log(s)*a): relative error ~ |a ln s| ulp
            if (!key.empty() && g_known.count(key)) {
                g_knownHits[key]++;
                ro.deviated = true;
            } else {
                setFail("value() of one operation differs from the scalar function applied to the operand's value()",
                        key, "value", -1, gv, R.v, 0);
                break;
            }
        }
        for (int k = 0; k < N; ++k) {
            const double tol = KLOCAL * EPS * R.m[k] + 1e-300;
            const double gd = r.derivative(k);
            if (!(std::fabs(gd - R.d[k]) <= tol)) {
                if (n.op == POWES && A.v == 0.0 && n.s == 1.0 && gd == 0.0 && g_known.count(K_POW0)) {
                    g_knownHits[K_POW0]++;
                    ro.deviated = true;
                    continue;
                }
                setFail("derivative(i) of one operation differs from the chain rule applied to the operands",
                        (n.op == POWES && A.v == 0.0 && n.s == 1.0 && gd == 0.0) ? std::string(K_POW0) : dynkey,
                        "derivative", k, gd, R.d[k], tol);
                break;
            }
        }
    }
    if (!fail.set) {
        const E& r = res.back();
        ro.v = r.value();
        for (int k = 0; k < N; ++k) ro.d[k] = r.derivative(k);
    }
}

typedef void (*VariantFn)(const Tree&, RootObs&, Fail&);
static const VariantFn VARIANTS[] = {
    runVariant<StaticTr<16>>,   // baseline for the cross-variant comparison
    runVariant<StaticTr<1>>, runVariant<StaticTr<2>>, runVariant<StaticTr<3>>, runVariant<StaticTr<4>>,
    runVariant<StaticTr<5>>, runVariant<StaticTr<6>>, runVariant<StaticTr<7>>, runVariant<StaticTr<8>>,
    runVariant<StaticTr<9>>, runVariant<StaticTr<10>>, runVariant<StaticTr<11>>, runVariant<StaticTr<12>>,
    runVariant<StaticTr<13>>, runVariant<StaticTr<14>>, runVariant<StaticTr<15>>,
    runVariant<DynTr<6>>, runVariant<DynTr<0>>,
};
static constexpr int NVARIANTS = sizeof(VARIANTS) / sizeof(VARIANTS[0]);

// ---------------------------------------------------------------------------
// the oracle for one tree
// ---------------------------------------------------------------------------
struct TreeFacts {
    int depth = 0;
    int nodes = 0;
    bool nonlinear = false;
    int activeSlots = 0;      // slots with a non-zero root magnitude
    uint64_t shape = 0;
    bool finite = true;       // false: reference not finite or an argument outside the domain -> discarded
    std::array<bool, W> active{};
};

static TreeFacts g_facts;       // facts of the tree checked last
static bool g_deviated = false; // the tree checked last hit a tolerated known value deviation
static const Tree* volatile g_current = nullptr;
static std::string g_failOut;

static void checkTree(const Tree& t, Fail& fail)
{
    g_current = &t;
    g_deviated = false;
    // end-to-end reference
    const size_t nn = t.nodes.size();
    std::vector<Dual> ref(nn);
    std::vector<int> depth(nn, 1);
    TreeFacts f;
    uint64_t h = 1469598103934665603ULL;
    auto mix = [&](uint64_t x) { h ^= x; h *= 1099511628211ULL; };
    for (size_t i = 0; i < nn; ++i) {
        const Node& n = t.nodes[i];
        const OpInfo& oi = OPS[n.op];
        if (oi.arity == 0) refLeaf(t, n, ref[i]);
        else {
            refNode(n, &ref[n.a], oi.arity == 2 ? &ref[n.b] : nullptr, ref[i]);
            depth[i] = 1 + std::max(depth[n.a], oi.arity == 2 ? depth[n.b] : 0);
            if (!domainOK(n, ref[n.a].v, oi.arity == 2 ? ref[n.b].v : 0.0)) {
                f.finite = false;
                if (std::getenv("C16_DEBUG_DISCARD"))
                    std::fprintf(stderr, "DISCARD %s a=%.17g b=%.17g s=%.17g\n", OPS[n.op].name, ref[n.a].v, oi.arity == 2 ? ref[n.b].v : 0.0, n.s);
            }
        }
        if (oi.nonlinear) f.nonlinear = true;
        mix(uint64_t(n.op) + 1); mix(uint64_t(n.a + 2)); mix(uint64_t(n.b + 2));
        mix(n.op == VAR ? uint64_t(n.var) + 100 : 7); mix(uint64_t(n.tb) + 3);
        if (!std::isfinite(ref[i].v)) f.finite = false;
        for (int k = 0; k < W; ++k) if (!std::isfinite(ref[i].d[k]) || !std::isfinite(ref[i].m[k])) f.finite = false;
    }
    const Dual& root = ref[nn - 1];
    f.depth = depth[nn - 1]; f.nodes = int(nn); f.shape = h;
    for (int k = 0; k < W; ++k) { f.active[k] = root.m[k] != 0.0; if (f.active[k]) ++f.activeSlots; }
    g_facts = f;
    if (!f.finite) return;     // counted as discarded by the caller (generator should never produce it)

    std::vector<RootObs> obs(NVARIANTS);
    for (int v = 0; v < NVARIANTS && !fail.set && !fail.domain; ++v)
        VARIANTS[v](t, obs[v], fail);
    if (fail.domain) { g_facts.finite = false; return; }
    if (fail.set) return;

    // (G) end-to-end and (X) cross-variant at the root.
    // tolerance: every node on a path perturbs the terms flowing through it by at
    // most KLOCAL ulp (see above), so after `depth` nodes the deviation of a slot is at
    // most KLOCAL*depth ulp x (running sum of |terms|); one more level for the
    // different summation order of variants with fewer slots.
    const RootObs& base = obs[0];
    for (int v = 0; v < NVARIANTS; ++v) if (obs[v].deviated) g_deviated = true;
    for (int v = 0; v < NVARIANTS; ++v) {
        const RootObs& o = obs[v];
        auto setFail = [&](const char* rule, const char* what, int slot, double got, double exp, double tol) {
            fail.set = true; fail.rule = rule; fail.key = ""; fail.variant = o.name; fail.node = int(nn) - 1;
            fail.slot = slot; fail.what = what; fail.got = got; fail.exp = exp; fail.tol = tol;
        };
        if (!(o.v == base.v)) { setFail("root value() differs between variants (vs Evaluation<double,16>)", "value", -1, o.v, base.v, 0); return; }
        if (!o.deviated && !(o.v == root.v)) { setFail("root value() differs from the independent end-to-end evaluation", "value", -1, o.v, root.v, 0); return; }
        for (int k = 0; k < o.N; ++k) {
            const double tol = KLOCAL * (f.depth + 1) * EPS * root.m[k] + 1e-300;
            // two library results, each within `tol` of the exact chain rule -> 2*tol between them
            if (!(std::fabs(o.d[k] - base.d[k]) <= 2.0 * tol)) { setFail("root derivative differs between variants (vs Evaluation<double,16>)", "derivative", k, o.d[k], base.d[k], tol); return; }
            if (!o.deviated && !(std::fabs(o.d[k] - root.d[k]) <= tol)) { setFail("root derivative differs from the independent end-to-end evaluation", "derivative", k, o.d[k], root.d[k], tol); return; }
        }
    }
}

// ---------------------------------------------------------------------------
// generator (valid by construction)
// ---------------------------------------------------------------------------
static int pickInt(int lo, int hi)   // [lo,hi)
{ return *rc::gen::resize(rc::kNominalSize, rc::gen::inRange(lo, hi)); }

static double pickUnit()             // [0,1) with 53 random bits, shrinks towards 0
{
    const int a = pickInt(0, 1 << 30);
    const int b = pickInt(0, 1 << 23);
    return (double(a) * 8388608.0 + double(b)) / 9007199254740992.0;
}

static double pickReal(double lo, double hi) { return lo + (hi - lo) * pickUnit(); }

static double pickSigned(double lo, double hi)   // magnitude in [lo,hi], random sign
{ const double m = pickReal(lo, hi); return pickInt(0, 2) ? -m : m; }

struct Builder {
    Tree t;
    std::vector<double> val;

    int push(const Node& n)
    {
        double v;
        if (n.op == VAR) v = t.x[n.var];
        else if (n.op == CONST || n.op == DENSE) v = n.s;
        else v = scalarOp(n.op, val[n.a], n.b >= 0 ? val[n.b] : 0.0, n.s);
        t.nodes.push_back(n);
        val.push_back(v);
        return int(t.nodes.size()) - 1;
    }
    int unaryS(int op, int a, double s) { Node n; n.op = op; n.a = a; n.s = s; return push(n); }

    // move the value of node i into [lo,hi] with ordinary nodes
    int fit(int i, double lo, double hi)
    {
        const double v = val[i];
        if (v >= lo && v <= hi) return i;
        if (lo > 0 && -v >= lo && -v <= hi) { Node n; n.op = NEG; n.a = i; return push(n); }
        double target = lo + (hi - lo) * (0.1 + 0.8 * pickUnit());
        // keep the target at a human scale when the interval is huge
        if (hi - lo > 100.0) target = std::max(lo, std::min(hi, (lo > 0 ? lo + 0.5 : 0.3) + 3.0 * pickUnit()));
        if (std::fabs(v) > 1.0 && std::fabs(target) > 1e-3)
            return unaryS(pickInt(0, 2) ? MULS : CMULS, i, target / v);
        return unaryS(pickInt(0, 2) ? ADDS : CADDS, i, target - v);
    }
    // |value| in [eps,hi]
    int away0(int i, double eps, double hi)
    {
        const double v = val[i];
        if (std::fabs(v) >= eps && std::fabs(v) <= hi) return i;
        const double target = pickSigned(std::max(eps * 2, 0.3), std::min(hi, 3.0));
        if (std::fabs(v) > hi) return unaryS(MULS, i, target / v);
        return unaryS(ADDS, i, target - v);
    }

    int leaf()
    {
        Node n;
        const int k = pickInt(0, 100);
        n.tb = pickInt(0, 4) == 0;
        if (k < 60) { n.op = VAR; n.var = pickInt(0, t.nv); }
        else if (k < 85) {
            n.op = DENSE; n.tb = 0; n.s = pickReal(-3, 3);
            n.g.resize(W);
            for (int i = 0; i < W; ++i) n.g[i] = pickSigned(0.05, 2.0);
        }
        else { n.op = CONST; n.s = pickReal(-3, 3); }
        return push(n);
    }

    int gen(int budget, bool top = false)
    {
        if (budget <= 1 || (!top && pickInt(0, 100) < 8)) return leaf();
        // 40 %: a node with two Evaluation operands, 60 %: any node kind (uniform)
        int op;
        const bool wantBinary = pickInt(0, 100) < 40;
        do { op = pickInt(COPY, NOPS); } while (!opEnabled(op) || (wantBinary && OPS[op].arity != 2));
        const OpInfo& oi = OPS[op];
        Node n; n.op = op;
        n.tb = (oi.toolbox && pickInt(0, 3) == 0) ? 1 : 0;
        const double BIG = 1e6;
        if (op == POWES && pickInt(0, 100) < 4) {
            // base exactly 0 with a full gradient (dense leaf), exponent >= 1: inside the domain of
            // pow, differentiable, textbook derivative s*0^(s-1)
            Node z; z.op = DENSE; z.s = 0.0; z.g.resize(W);
            for (int i = 0; i < W; ++i) z.g[i] = pickSigned(0.05, 2.0);
            static const double ge1[] = {1.0, 2.0, 3.0, 1.5, 2.5, 1.0};
            n.s = ge1[pickInt(0, 6)];
            n.a = push(z);
            return push(n);
        }
        int a = gen(budget - 1);
        int b = -1;
        if (oi.arity == 2) b = gen(budget - 1);
        switch (op) {
        case DIV: case CDIV: a = fit(a, -BIG, BIG); b = away0(b, 0.05, BIG); break;
        case ADDS: case SUBS: case CADDS: case CSUBS: case SADD: case SSUB:
            a = fit(a, -BIG, BIG); n.tb = pickInt(0, 5) == 0;
            n.s = n.tb ? double(pickInt(-3, 4)) : pickReal(-3, 3); break;
        case MULS: case CMULS: case SMUL: case DIVS: case CDIVS:
            a = fit(a, -BIG, BIG); n.tb = pickInt(0, 5) == 0;
            n.s = n.tb ? double(pickInt(1, 4)) * (pickInt(0, 2) ? -1.0 : 1.0) : pickSigned(0.05, 3); break;
        case SDIV: a = away0(a, 0.05, BIG); n.tb = pickInt(0, 5) == 0;
            n.s = n.tb ? double(pickInt(-3, 4)) : pickReal(-3, 3); break;
        case SELFDIV: a = away0(a, 0.05, BIG); break;
        case SQRT: case LOG: case LOG10: a = fit(a, 0.01, BIG); break;
        case EXP: case SINH: case COSH: a = fit(a, -10, 10); break;
        case SIN: case COS: a = fit(a, -1000, 1000); break;
        case TAN:
            a = fit(a, -100, 100);
            if (std::fabs(std::cos(val[a])) < 0.1) a = unaryS(ADDS, a, 0.7);
            break;
        case ASIN: case ACOS: a = fit(a, -0.9, 0.9); break;
        case ACOSH: a = fit(a, 1.1, 50); break;
        case ABS: a = away0(a, 0.01, BIG); break;
        case POWEE: a = fit(a, 0.05, 20); b = fit(b, -6, 6); break;
        case POWES: {
            if (pickInt(0, 6) == 0) {
                // negative base with an integer-valued exponent: inside the domain of pow, value and
                // derivative s*a^(s-1) are ordinary numbers
                a = away0(a, 0.05, 20);
                if (val[a] > 0) { Node m; m.op = NEG; m.a = a; a = push(m); }
                n.s = double(pickInt(-3, 5));
                ++g_negpow;
                break;
            }
            a = fit(a, 0.05, 20);
            const int k = pickInt(0, 8);
            static const double nice[] = {2.0, 0.5, 1.0, 3.0, -1.0, 0.0};
            n.s = k < 6 ? nice[k] : pickReal(-4, 4);
            break;
        }
        case POWSE: a = fit(a, -8, 8); n.s = pickReal(0.1, 10); break;
        // atan2: the second argument away from 0 (the library divides by it), the first one away
        // from 0 as well: atan2(+-0, negative) = +-pi is the branch cut, and `s - E` may legitimately
        // produce -0.0 where IEEE s - v gives +0.0 (equal values, different side of the cut)
        case ATAN2EE: a = away0(a, 0.01, BIG); b = away0(b, 0.05, BIG); break;
        case ATAN2ES: a = away0(a, 0.01, BIG); n.s = pickSigned(0.05, 3); break;
        case ATAN2SE: a = away0(a, 0.05, BIG); n.s = pickSigned(0.01, 3); break;
        case MINEE: case MAXEE:
            a = fit(a, -BIG, BIG); b = fit(b, -BIG, BIG);
            if (std::fabs(val[a] - val[b]) < 0.01 * (1.0 + std::fabs(val[a]))) b = unaryS(ADDS, b, 0.5 + std::fabs(val[a]));
            break;
        case MINES: case MINSE: case MAXES: case MAXSE:
            a = fit(a, -BIG, BIG);
            n.s = val[a] + pickSigned(0.01, 2.0) * (1.0 + std::fabs(val[a]));
            break;
        default:
            a = fit(a, -BIG, BIG);
            if (b >= 0) b = fit(b, -BIG, BIG);
            break;
        }
        n.a = a; n.b = b;
        return push(n);
    }
};

static rc::Gen<Tree> genTree()
{
    return rc::gen::withSize([](int size) {
        return rc::gen::exec([size]() {
            Builder bld;
            bld.t.nv = 1 + pickInt(0, W);
            bld.t.dynN = 1 + pickInt(0, W);
            for (int i = 0; i < W; ++i) bld.t.x[i] = pickReal(-3, 3);
            const int budget = std::min(6, 2 + size / 12);   // nominal depth 2..6 (domain adapters may add levels)
            bld.gen(budget, true);
            return bld.t;
        });
    });
}

namespace rc {
template <> struct Arbitrary<Tree> { static Gen<Tree> arbitrary() { return genTree(); } };
}
std::ostream& operator<<(std::ostream& os, const Tree& t) { return os << treeJson(t); }

// ---------------------------------------------------------------------------
// counters
// ---------------------------------------------------------------------------
struct Counters {
    long cases = 0, nontrivial = 0, discarded = 0, variantEvals = 0, deviatedTrees = 0;
    std::map<std::string, long> opTrees, opNodes, opToolbox, labels;
    std::vector<uint64_t> shapes;
    std::vector<std::pair<uint64_t, std::string>> samples;
};
static Counters C;

static void account(const Tree& t)
{
    const TreeFacts& f = g_facts;
    C.cases++;
    C.variantEvals += NVARIANTS;
    if (g_deviated) { C.deviatedTrees++; C.labels["end-to-end-skipped(known value deviation)"]++; }
    std::set<int> ops;
    int distinctVars = 0; std::set<int> vars; bool dense = false;
    for (const Node& n : t.nodes) {
        ops.insert(n.op);
        C.opNodes[OPS[n.op].name]++;
        if (n.tb) C.opToolbox[OPS[n.op].name]++;
        if (n.op == VAR) vars.insert(n.var);
        if (n.op == DENSE) dense = true;
    }
    distinctVars = int(vars.size());
    for (int op : ops) C.opTrees[std::string("op:") + OPS[op].name]++;
    // "size:N:last-slot-active": derivative slot N-1 (the last one of variant N, present in
    // every larger variant) is non-zero at the root
    for (int N = 1; N <= W; ++N) if (f.active[N - 1]) C.labels["size:" + std::to_string(N) + ":last-slot-active"]++;
    C.labels["dynamic-size:" + std::to_string(t.dynN)]++;
    C.labels["depth:" + std::to_string(std::min(f.depth, 9)) + (f.depth >= 9 ? "+" : "")]++;
    C.labels[std::string("nodes:") + (f.nodes <= 3 ? "1-3" : f.nodes <= 10 ? "4-10" : f.nodes <= 30 ? "11-30" : "31+")]++;
    const bool nontriv = f.depth >= 3 && (distinctVars >= 2 || dense) && f.nonlinear && f.activeSlots >= 2;
    if (nontriv) {
        C.nontrivial++;
        C.labels["nontrivial"]++;
        C.shapes.push_back(f.shape);
        if (C.samples.size() < 4 || f.shape < C.samples.back().first) {
            C.samples.emplace_back(f.shape, treeJson(t));
            std::sort(C.samples.begin(), C.samples.end());
            if (C.samples.size() > 4) C.samples.pop_back();
        }
    }
}

static void writeFile(const std::string& path, const std::string& txt)
{
    if (path.empty()) return;
    std::ofstream f(path, std::ios::trunc);
    f << txt << "\n";
}

static void onAbort(int sig)
{
    // an assert() inside the library (or a wild access) while evaluating the current tree
    if (g_current && !g_failOut.empty()) {
        Fail f; f.set = true; f.rule = "library aborted (assert/signal) while evaluating a generated tree";
        f.key = "crash"; f.variant = "?"; f.what = sig == SIGABRT ? "SIGABRT" : "SIGSEGV/SIGFPE";
        const Tree* t = g_current;
        // a scalar/dynamic division is the known way to get here
        for (const Node& n : t->nodes) if (n.op == SDIV) f.key = K_DYNSDIV;
        writeFile(g_failOut, failJson(*t, f));
    }
    std::signal(sig, SIG_DFL);
    std::raise(sig);
}

static std::string mapJson(const std::map<std::string, long>& m)
{
    std::ostringstream o; o << "{"; bool first = true;
    for (const auto& kv : m) { o << (first ? "" : ",") << "\"" << kv.first << "\":" << kv.second; first = false; }
    o << "}"; return o.str();
}

int main(int argc, char** argv)
{
    std::string replay, fpsOut;
    double deadline = 0;    // seconds of wall time after which remaining cases are skipped (0 = none)
    bool timedOut = false;
    const time_t tStart = time(nullptr);
    for (int i = 1; i < argc; ++i) {
        const std::string a = argv[i];
        if (a == "--replay" && i + 1 < argc) replay = argv[++i];
        else if (a == "--fail-out" && i + 1 < argc) g_failOut = argv[++i];
        else if (a == "--fps-out" && i + 1 < argc) fpsOut = argv[++i];
        else if (a == "--deadline" && i + 1 < argc) deadline = std::atof(argv[++i]);
        else if (a == "--known" && i + 1 < argc) {
            std::stringstream ss(argv[++i]); std::string k;
            while (std::getline(ss, k, ',')) if (!k.empty()) g_known.insert(k);
        }
        else { std::fprintf(stderr, "usage: rc_c16 [--replay F] [--fail-out F] [--fps-out F] [--known k1,k2]\n"); return 3; }
    }
    std::signal(SIGABRT, onAbort);
    std::signal(SIGSEGV, onAbort);
    std::signal(SIGFPE, onAbort);

    if (!replay.empty()) {
        std::ifstream f(replay);
        std::stringstream ss; ss << f.rdbuf();
        cJSON* root = cJSON_Parse(ss.str().c_str());
        if (!root) { std::printf("{\"error\":\"cannot parse %s\"}\n", replay.c_str()); return 3; }
        const cJSON* c = cJSON_GetObjectItem(root, "case");
        Tree t; std::string err;
        if (!c || !treeFromJson(c, t, err)) { std::printf("{\"error\":\"%s\"}\n", err.c_str()); return 3; }
        Fail fail;
        checkTree(t, fail);
        if (fail.set) {
            const std::string js = failJson(t, fail);
            writeFile(g_failOut, js);
            std::printf("%s\n", js.c_str());
            return 1;
        }
        std::printf("{\"ok\":true,\"finite\":%s,\"known_hits\":%s}\n", g_facts.finite ? "true" : "false", mapJson(g_knownHits).c_str());
        return 0;
    }

    bool failed = false;
    const bool ok = rc::check("C16: AD exact in every variant", [&](const Tree& t) {
        if (deadline > 0 && !failed && (timedOut || ((C.cases & 255) == 0 && difftime(time(nullptr), tStart) > deadline))) {
            timedOut = true;     // soft cap: the rest of the budget is skipped, counters stay valid
            return;
        }
        Fail fail;
        checkTree(t, fail);
        if (!g_facts.finite) { if (!failed) C.discarded++; return; }
        if (fail.set) {
            failed = true;
            writeFile(g_failOut, failJson(t, fail));   // the last failing call is the shrunk one
            RC_FAIL(fail.rule);
        }
        if (!failed) account(t);
    });

    if (!fpsOut.empty()) {
        std::sort(C.shapes.begin(), C.shapes.end());
        C.shapes.erase(std::unique(C.shapes.begin(), C.shapes.end()), C.shapes.end());
        FILE* fo = std::fopen(fpsOut.c_str(), "wb");
        if (fo) { std::fwrite(C.shapes.data(), sizeof(uint64_t), C.shapes.size(), fo); std::fclose(fo); }
    }
    C.labels["pow:negative-base-integer-exponent"] = long(g_negpow);
    C.labels["dynamic:result-move-assigned-into-reused-object-of-other-size"] = long(g_reused);
    std::ostringstream o;
    o << "{\"ok\":" << (ok ? "true" : "false") << ",\"cases\":" << C.cases << ",\"nontrivial\":" << C.nontrivial
      << ",\"timed_out\":" << (timedOut ? "true" : "false") << ",\"discarded\":" << C.discarded << ",\"variant_evaluations\":" << C.variantEvals
      << ",\"variants\":" << NVARIANTS << ",\"deviated_trees\":" << C.deviatedTrees
      << ",\"known_hits\":" << mapJson(g_knownHits)
      << ",\"op_trees\":" << mapJson(C.opTrees) << ",\"op_nodes\":" << mapJson(C.opNodes)
      << ",\"op_toolbox_nodes\":" << mapJson(C.opToolbox)
      << ",\"labels\":" << mapJson(C.labels) << ",\"samples\":[";
    for (size_t i = 0; i < C.samples.size(); ++i) {
        char hb[32]; std::snprintf(hb, sizeof hb, "%016" PRIx64, C.samples[i].first);
        o << (i ? "," : "") << "[\"" << hb << "\"," << C.samples[i].second << "]";
    }
    o << "]}";
    std::printf("%s\n", o.str().c_str());
    return ok ? 0 : 1;
}
