// Observation dump of Schedule / EclipseState / SummaryConfig through PUBLIC getters.  Scalar
// attributes of the top-level classes (Schedule, ScheduleState, Well, Group, Connection, Segment)
// are read one getter at a time, so that a member dropped from a serializeOp list shows up as a
// changed answer; sub-configuration objects handed out by getters are dumped in full through
// their own member list (serialdump.hpp).
#pragma once
#include "all_state_headers.hpp"
#include "serialdump.hpp"

#include <opm/input/eclipse/EclipseState/EclipseState.hpp>
#include <opm/input/eclipse/EclipseState/SummaryConfig/SummaryConfig.hpp>
#include <opm/input/eclipse/EclipseState/Tables/TableManager.hpp>
#include <opm/input/eclipse/EclipseState/Tables/PlyshlogTable.hpp>
#include <opm/input/eclipse/EclipseState/Tables/RocktabTable.hpp>
#include <opm/input/eclipse/EclipseState/Tables/TableColumn.hpp>
#include <opm/input/eclipse/EclipseState/Tables/TableContainer.hpp>
#include <opm/input/eclipse/Schedule/Schedule.hpp>

namespace probe {

template <class T> void kv_sub(JW& out, const char* k, const T& obj) { out.key(k).raw(serial_dump(obj)); }

inline void obs_connection(const Opm::Connection& c, JW& out) {
    out.arr().i(c.getI()).i(c.getJ()).i(c.getK()).u(c.global_index()).i((int)c.state()).i((int)c.dir()).d(c.depth())
        .i(c.satTableId()).i(c.complnum()).i(c.segment()).d(c.wpimult()).d(c.CF()).d(c.Kh()).d(c.Ke()).d(c.rw()).d(c.r0())
        .d(c.re()).d(c.connectionLength()).d(c.skinFactor()).d(c.dFactor()).i((int)c.kind()).u(c.sort_value())
        .b(c.getDefaultSatTabId()).b(c.attachedToSegment()).b(c.activeInjMult()).b(c.filterCakeActive());
    out.raw(serial_dump(c.perf_range()));
    if (c.activeInjMult()) out.raw(serial_dump(c.injmult()));
    out.end_arr();
}

inline void obs_well(const Opm::Well& w, JW& out) {
    out.obj();
    out.kv_s("name", w.name()).kv_s("group", w.groupName()).kv_i("status", (int)w.getStatus());
    out.kv_i("headI", w.getHeadI()).kv_i("headJ", w.getHeadJ()).kv_b("hasRefDepth", w.hasRefDepth());
    if (w.hasRefDepth()) out.kv_d("refDepth", w.getRefDepth());
    out.kv_d("drainageRadius", w.getDrainageRadius()).kv_d("efficiencyFactor", w.getEfficiencyFactor());
    out.kv_d("solventFraction", w.getSolventFraction()).kv_d("guideRate", w.getGuideRate());
    out.kv_i("guideRatePhase", (int)w.getRawGuideRatePhase()).kv_d("guideRateScaling", w.getGuideRateScalingFactor());
    out.kv_b("availableForGroupControl", w.isAvailableForGroupControl()).kv_b("prediction", w.predictionMode());
    out.kv_b("producer", w.isProducer()).kv_b("injector", w.isInjector()).kv_i("seqIndex", w.seqIndex());
    out.kv_i("firstTimeStep", w.firstTimeStep()).kv_b("autoShutin", w.getAutomaticShutIn()).kv_b("crossFlow", w.getAllowCrossFlow());
    out.kv_i("preferredPhase", (int)w.getPreferredPhase()).kv_b("msw", w.isMultiSegment()).kv_i("pvtTable", w.pvt_table_number());
    out.kv_i("fipRegion", w.fip_region_number()).kv_i("vfpTable", w.vfp_table_number());
    out.kv_i("injMultMode", (int)w.getInjMultMode()).kv_i("gasInflow", (int)w.gas_inflow_equation());
    if (w.hasRefDepth()) out.kv_d("wpaveRefDepth", w.getWPaveRefDepth());
    // (Well::wListNames() is declared but never defined in the library)
    kv_sub(out, "wellType", w.wellType());
    kv_sub(out, "production", w.getProductionProperties());
    kv_sub(out, "injection", w.getInjectionProperties());
    kv_sub(out, "econ", w.getEconLimits());
    kv_sub(out, "foam", w.getFoamProperties());
    kv_sub(out, "polymer", w.getPolymerProperties());
    kv_sub(out, "micp", w.getMICPProperties());
    kv_sub(out, "brine", w.getBrineProperties());
    kv_sub(out, "tracer", w.getTracerProperties());
    kv_sub(out, "wvfpdp", w.getWVFPDP());
    kv_sub(out, "wvfpexp", w.getWVFPEXP());
    kv_sub(out, "wdfac", w.getWDFAC());
    out.kv_b("activeInjMult", w.aciveWellInjMult());
    if (w.aciveWellInjMult()) kv_sub(out, "injmult", w.getWellInjMult());
    kv_sub(out, "pavg", w.pavg());
    out.key("connections").arr();
    for (const auto& c : w.getConnections()) obs_connection(c, out);
    out.end_arr();
    out.kv_i("connOrdering", (int)w.getConnections().ordering());
    if (w.isMultiSegment()) {
        const auto& segs = w.getSegments();
        out.key("segments").arr();
        for (const auto& s : segs) {
            out.arr().i(s.segmentNumber()).i(s.branchNumber()).i(s.outletSegment()).d(s.totalLength()).d(s.depth())
                .d(s.internalDiameter()).d(s.roughness()).d(s.crossArea()).d(s.volume()).i((int)s.segmentType());
            out.raw(serial_dump(s.inletSegments()));
            out.raw(serial_dump(s));
            out.end_arr();
        }
        out.end_arr();
        out.kv_i("compPressureDrop", (int)segs.compPressureDrop());
    }
    out.end_obj();
}

inline void obs_group(const Opm::Group& g, JW& out) {
    out.obj();
    out.kv_s("name", g.name()).kv_i("insert_index", g.insert_index()).kv_s("parent", g.parent());
    out.kv_d("efficiency", g.getGroupEfficiencyFactor()).kv_b("transferEfficiency", g.getTransferGroupEfficiencyFactor());
    out.kv_b("productionGroup", g.isProductionGroup()).kv_b("injectionGroup", g.isInjectionGroup());
    out.kv_b("prodControlAvailable", g.productionGroupControlAvailable()).kv_i("prod_cmode", (int)g.prod_cmode());
    out.kv_i("groupType", (int)g.getGroupType());
    out.key("wells").arr();
    for (const auto& w : g.wells()) out.str(w);
    out.end_arr();
    out.key("groups").arr();
    for (const auto& w : g.groups()) out.str(w);
    out.end_arr();
    kv_sub(out, "production", g.productionProperties());
    kv_sub(out, "injection", g.injectionProperties());
    kv_sub(out, "gpmaint", g.gpmaint());
    kv_sub(out, "topup", g.topup_phase());
    kv_sub(out, "control_group", g.control_group());
    kv_sub(out, "flow_group", g.flow_group());
    out.end_obj();
}

inline void obs_state(const Opm::ScheduleState& st, JW& out) {
    out.obj();
    out.kv_i("start", std::chrono::duration_cast<std::chrono::seconds>(st.start_time().time_since_epoch()).count());
    out.kv_i("sim_step", st.sim_step()).kv_i("month", st.month_num()).kv_i("year", st.year_num());
    out.kv_b("first_in_month", st.first_in_month()).kv_b("first_in_year", st.first_in_year());
    out.kv_i("nupcol", st.nupcol()).kv_i("whistctl", (int)st.whistctl()).kv_b("save", st.save()).kv_b("rptonly", st.rptonly());
    out.kv_b("has_gpmaint", st.has_gpmaint());
    kv_sub(out, "sumthin", st.sumthin());
    kv_sub(out, "tuning", st.tuning());
    kv_sub(out, "oilvap", st.oilvap());
    kv_sub(out, "events", st.events());
    kv_sub(out, "wg_events", st.wellgroup_events());
    kv_sub(out, "message_limits", st.message_limits());
    kv_sub(out, "geo_keywords", st.geo_keywords());
    kv_sub(out, "gconsale", st.gconsale());
    kv_sub(out, "gconsump", st.gconsump());
    kv_sub(out, "gecon", st.gecon());
    kv_sub(out, "guide_rate", st.guide_rate());
    kv_sub(out, "wlist_manager", st.wlist_manager());
    kv_sub(out, "well_order", st.well_order());
    kv_sub(out, "group_order", st.group_order());
    kv_sub(out, "actions", st.actions());
    kv_sub(out, "udq", st.udq());
    kv_sub(out, "udq_active", st.udq_active());
    kv_sub(out, "pavg", st.pavg());
    kv_sub(out, "wtest_config", st.wtest_config());
    kv_sub(out, "glo", st.glo());
    kv_sub(out, "network", st.network());
    kv_sub(out, "network_balance", st.network_balance());
    kv_sub(out, "rpt_config", st.rpt_config());
    kv_sub(out, "rft_config", st.rft_config());
    kv_sub(out, "rst_config", st.rst_config());
    kv_sub(out, "bhp_defaults", st.bhp_defaults());
    kv_sub(out, "source", st.source());
    kv_sub(out, "aqufluxs", st.aqufluxs);
    kv_sub(out, "bcprop", st.bcprop);
    kv_sub(out, "target_wellpi", st.target_wellpi);
    kv_sub(out, "next_tstep", st.next_tstep);
    out.key("vfpprod").arr();
    {
        auto keys = st.vfpprod.keys();
        std::sort(keys.begin(), keys.end());
        for (int k : keys) out.raw(serial_dump(st.vfpprod(k)));
    }
    out.end_arr();
    out.key("vfpinj").arr();
    {
        auto keys = st.vfpinj.keys();
        std::sort(keys.begin(), keys.end());
        for (int k : keys) out.raw(serial_dump(st.vfpinj(k)));
    }
    out.end_arr();
    out.key("wells").arr();
    for (const auto& wname : st.well_order().names()) obs_well(st.wells(wname), out);
    out.end_arr();
    out.key("groups").arr();
    for (const auto& gname : st.group_order().names()) obs_group(st.groups(gname), out);
    out.end_arr();
    out.end_obj();
}

inline void obs_schedule(const Opm::Schedule& s, JW& out) {
    out.obj();
    out.kv_i("size", s.size());
    out.kv_i("start", (long long)s.getStartTime());
    out.key("seconds").arr();
    for (std::size_t i = 0; i < s.size(); ++i) out.d(s.seconds(i));
    out.end_arr();
    out.key("wellNames").arr();
    for (const auto& w : s.wellNames()) out.str(w);
    out.end_arr();
    out.key("groupNames").arr();
    for (const auto& w : s.groupNames()) out.str(w);
    out.end_arr();
    out.kv_s("units", s.getUnits().getName());
    kv_sub(out, "possibleFutureConnections", s.getPossibleFutureConnections());
    out.kv_b("restart_last", s.write_rst_file(s.size() - 1));
    out.key("exit_status");
    if (s.exitStatus().has_value()) out.i(*s.exitStatus()); else out.null();
    out.key("states").arr();
    for (std::size_t i = 0; i < s.size(); ++i) obs_state(s[i], out);
    out.end_arr();
    out.end_obj();
}

inline void obs_summary_config(const Opm::SummaryConfig& sc, JW& out) {
    out.arr();
    for (const auto& n : sc) {
        // fip_region() dereferences an optional that is only set for region vectors: use the member-list dump for it
        out.arr().str(n.keyword()).i((int)n.category()).i((int)n.type()).str(n.namedEntity()).i(n.number())
            .b(n.isUserDefined()).str(n.uniqueNodeKey()).raw(serial_dump(n)).end_arr();
    }
    out.end_arr();
}

inline void obs_eclipse_state(const Opm::EclipseState& es, JW& out) {
    out.obj();
    out.kv_s("title", es.getTitle());
    out.kv_s("deckUnits", es.getDeckUnitSystem().getName()).kv_s("units", es.getUnits().getName());
    kv_sub(out, "runspec", es.runspec());
    kv_sub(out, "ioConfig", es.getIOConfig());
    kv_sub(out, "initConfig", es.getInitConfig());
    kv_sub(out, "simulationConfig", es.getSimulationConfig());
    kv_sub(out, "inputNNC", es.getInputNNC());
    kv_sub(out, "faults", es.getFaults());
    kv_sub(out, "tables", es.getTableManager());
    // tables whose type carries more than the columns: through their typed getters
    {
        const auto& tm = es.getTableManager();
        auto col = [&out](const Opm::TableColumn& c) { out.arr(); for (double v : c.vectorCopy()) out.d(v); out.end_arr(); };
        out.key("plyshlog").arr();
        const Opm::TableContainer none;
        const auto& pc = tm.hasTables("PLYSHLOG") ? tm.getPlyshlogTables() : none;
        for (std::size_t i = 0; i < pc.size(); ++i) {
            const auto& t = pc.getTable<Opm::PlyshlogTable>(i);
            out.obj().kv_d("refPolymerConcentration", t.getRefPolymerConcentration());
            out.kv_b("hasRefSalinity", t.hasRefSalinity()).kv_d("refSalinity", t.getRefSalinity());
            out.kv_b("hasRefTemperature", t.hasRefTemperature()).kv_d("refTemperature", t.getRefTemperature());
            out.key("waterVelocity"); col(t.getWaterVelocityColumn());
            out.key("shearMultiplier"); col(t.getShearMultiplierColumn());
            out.end_obj();
        }
        out.end_arr();
        out.key("rocktab").arr();
        const auto& rc = tm.hasTables("ROCKTAB") ? tm.getRocktabTables() : none;
        for (std::size_t i = 0; i < rc.size(); ++i) {
            const auto& t = rc.getTable<Opm::RocktabTable>(i);
            out.obj();
            out.key("pressure"); col(t.getPressureColumn());
            out.key("poreVolumeMultiplier"); col(t.getPoreVolumeMultiplierColumn());
            out.key("transMult"); col(t.getTransmissibilityMultiplierColumn());
            out.key("transMultX"); col(t.getTransmissibilityMultiplierXColumn());
            out.key("transMultY"); col(t.getTransmissibilityMultiplierYColumn());
            out.key("transMultZ"); col(t.getTransmissibilityMultiplierZColumn());
            out.end_obj();
        }
        out.end_arr();
    }
    kv_sub(out, "aquifer", es.aquifer());
    kv_sub(out, "tracer", es.tracer());
    kv_sub(out, "micp", es.getMICPpara());
    kv_sub(out, "wagHyst", es.getWagHysteresis());
    out.end_obj();
}

} // namespace probe
