// Structural dump of an object through its own serializeOp(): every serialized member, in
// declaration order, as nested JSON arrays.  Layout-only members are canonicalised:
//   UnitSystem        -> its name and type only (its dimension map is a lazily grown cache)
//   KeywordLocation   -> null (file name / line number are layout, not content)
//   unordered_map/set -> entries sorted by their dumped text
// Doubles are hex floats.  Used as the observation for "same state" (C03, C04, C05-B).
#pragma once
#include "probe.hpp"

#include <opm/common/OpmLog/KeywordLocation.hpp>
#include <opm/common/utility/TimeService.hpp>
#include <opm/input/eclipse/Units/UnitSystem.hpp>

#include <algorithm>
#include <array>
#include <bitset>
#include <chrono>
#include <map>
#include <memory>
#include <optional>
#include <set>
#include <string>
#include <tuple>
#include <type_traits>
#include <unordered_map>
#include <unordered_set>
#include <variant>
#include <vector>

namespace probe {

namespace sd {
template <class T> struct is_vec : std::false_type {};
template <class T, class A> struct is_vec<std::vector<T, A>> : std::true_type {};
template <class T> struct is_arr : std::false_type {};
template <class T, std::size_t N> struct is_arr<std::array<T, N>> : std::true_type {};
template <class T> struct is_opt : std::false_type {};
template <class T> struct is_opt<std::optional<T>> : std::true_type {};
template <class T> struct is_var : std::false_type {};
template <class... T> struct is_var<std::variant<T...>> : std::true_type {};
template <class T> struct is_tup : std::false_type {};
template <class... T> struct is_tup<std::tuple<T...>> : std::true_type {};
template <class A, class B> struct is_tup<std::pair<A, B>> : std::true_type {};
template <class T> struct is_sptr : std::false_type {};
template <class T> struct is_sptr<std::shared_ptr<T>> : std::true_type {};
template <class T> struct is_sptr<std::unique_ptr<T>> : std::true_type {};
template <class T> struct is_omap : std::false_type {};
template <class K, class V, class C, class A> struct is_omap<std::map<K, V, C, A>> : std::true_type {};
template <class T> struct is_umap : std::false_type {};
template <class K, class V, class H, class E, class A> struct is_umap<std::unordered_map<K, V, H, E, A>> : std::true_type {};
template <class T> struct is_oset : std::false_type {};
template <class K, class C, class A> struct is_oset<std::set<K, C, A>> : std::true_type {};
template <class T> struct is_uset : std::false_type {};
template <class K, class H, class E, class A> struct is_uset<std::unordered_set<K, H, E, A>> : std::true_type {};
template <class T> struct is_bitset : std::false_type {};
template <std::size_t N> struct is_bitset<std::bitset<N>> : std::true_type {};
template <class T, class S, class = void> struct has_ser : std::false_type {};
template <class T, class S>
struct has_ser<T, S, std::void_t<decltype(std::declval<T&>().serializeOp(std::declval<S&>()))>> : std::true_type {};
template <class T> struct always_false : std::false_type {};
} // namespace sd

class SerialDumper {
public:
    explicit SerialDumper(JW& o) : out(o) {}
    bool isSerializing() const { return true; }

    template <class T> void operator()(const T& data) {
        using U = std::remove_cv_t<std::remove_reference_t<T>>;
        if constexpr (std::is_same_v<U, Opm::UnitSystem>) {
            out.arr().str("UnitSystem").str(data.getName()).i((int)data.getType()).end_arr();
        } else if constexpr (std::is_same_v<U, Opm::KeywordLocation>) {
            out.null();
        } else if constexpr (std::is_same_v<U, std::monostate>) {
            out.null();
        } else if constexpr (sd::is_sptr<U>::value) {
            if (data) (*this)(*data); else out.null();
        } else if constexpr (sd::is_tup<U>::value) {
            out.arr();
            std::apply([this](const auto&... e) { ((*this)(e), ...); }, data);
            out.end_arr();
        } else if constexpr (sd::is_var<U>::value) {
            out.arr().i((long long)data.index());
            std::visit([this](const auto& e) { (*this)(e); }, data);
            out.end_arr();
        } else if constexpr (sd::is_opt<U>::value) {
            if (data) (*this)(*data); else out.null();
        } else if constexpr (std::is_same_v<U, std::vector<bool>>) {
            out.arr();
            for (bool b : data) out.i(b ? 1 : 0);
            out.end_arr();
        } else if constexpr (sd::is_vec<U>::value || sd::is_arr<U>::value || sd::is_oset<U>::value) {
            out.arr();
            for (const auto& e : data) (*this)(e);
            out.end_arr();
        } else if constexpr (sd::is_omap<U>::value) {
            out.arr();
            for (const auto& [k, v] : data) { out.arr(); (*this)(k); (*this)(v); out.end_arr(); }
            out.end_arr();
        } else if constexpr (sd::is_umap<U>::value) {
            std::vector<std::string> entries;
            for (const auto& [k, v] : data) {
                JW sub;
                SerialDumper d(sub);
                sub.arr(); d(k); d(v); sub.end_arr();
                entries.push_back(std::move(sub.s));
            }
            std::sort(entries.begin(), entries.end());
            out.arr();
            for (const auto& e : entries) out.raw(e);
            out.end_arr();
        } else if constexpr (sd::is_uset<U>::value) {
            std::vector<std::string> entries;
            for (const auto& k : data) {
                JW sub;
                SerialDumper d(sub);
                d(k);
                entries.push_back(std::move(sub.s));
            }
            std::sort(entries.begin(), entries.end());
            out.arr();
            for (const auto& e : entries) out.raw(e);
            out.end_arr();
        } else if constexpr (sd::has_ser<U, SerialDumper>::value) {
            out.arr();
            const_cast<U&>(data).serializeOp(*this);
            out.end_arr();
        } else if constexpr (sd::is_bitset<U>::value) {
            out.str(data.to_string());
        } else if constexpr (std::is_same_v<U, std::string>) {
            out.str(data);
        } else if constexpr (std::is_same_v<U, bool>) {
            out.b(data);
        } else if constexpr (std::is_floating_point_v<U>) {
            out.d((double)data);
        } else if constexpr (std::is_integral_v<U>) {
            out.i((long long)data);
        } else if constexpr (std::is_enum_v<U>) {
            out.i((long long)data);
        } else if constexpr (std::is_same_v<U, Opm::time_point>) {
            out.i((long long)std::chrono::duration_cast<std::chrono::milliseconds>(data.time_since_epoch()).count());
        } else {
            static_assert(sd::always_false<U>::value, "SerialDumper: unsupported type");
        }
    }

private:
    JW& out;
};

template <class T> std::string serial_dump(const T& obj) {
    JW w;
    SerialDumper d(w);
    d(obj);
    return w.s;
}

} // namespace probe
