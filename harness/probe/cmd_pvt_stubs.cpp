// Link-time stubs for the C14 probe only.
// In this sandbox opm/material/components/co2tables.inc and h2tables.inc are empty files, so the
// tabulated CO2/H2 property tables that CO2Tables.cpp / H2.cpp (pulled in by the PVT multiplexers'
// CO2STORE/H2STORE branches) refer to are undefined symbols.  C14 never selects those branches
// (thermal/brine/CO2 variants are outside the property); the definitions below only satisfy the
// linker.  Values are placeholders and are never read by a C14 observation.
#include <opm/material/components/CO2Tables.hpp>
#include <opm/material/components/H2.hpp>

namespace Opm {
#define VERIF_STUB_TRAITS(T)                          \
    const char* T::name = "verif-stub";               \
    const T::Scalar T::xMin = 0.0;                    \
    const T::Scalar T::xMax = 1.0;                    \
    const T::Scalar T::yMin = 0.0;                    \
    const T::Scalar T::yMax = 1.0;                    \
    const T::Scalar T::vals[200][500] = {};

VERIF_STUB_TRAITS(co2TabulatedDensityTraits)
VERIF_STUB_TRAITS(co2TabulatedEnthalpyTraits)
VERIF_STUB_TRAITS(H2TabulatedDensityTraits)
VERIF_STUB_TRAITS(H2TabulatedEnthalpyTraits)
} // namespace Opm
