// Commands for C14 (black-oil PVT multiplexers initialised from an EclipseState).
// Observations only: every query returns the value computed with double arguments and the
// value / derivatives computed with Evaluation<double,3> arguments.
#include <config.h>
#include "probe.hpp"

#include <opm/input/eclipse/Deck/Deck.hpp>
#include <opm/input/eclipse/EclipseState/EclipseState.hpp>
#include <opm/input/eclipse/Parser/ErrorGuard.hpp>
#include <opm/input/eclipse/Parser/InputErrorAction.hpp>
#include <opm/input/eclipse/Parser/ParseContext.hpp>
#include <opm/input/eclipse/Parser/Parser.hpp>
#include <opm/input/eclipse/Python/Python.hpp>
#include <opm/input/eclipse/Schedule/Schedule.hpp>

#include <opm/material/densead/Evaluation.hpp>
#include <opm/material/densead/Math.hpp>
#include <opm/material/fluidsystems/blackoilpvt/GasPvtMultiplexer.hpp>
#include <opm/material/fluidsystems/blackoilpvt/OilPvtMultiplexer.hpp>
#include <opm/material/fluidsystems/blackoilpvt/WaterPvtMultiplexer.hpp>

#include <memory>
#include <string>

using namespace probe;

namespace {

using Eval = Opm::DenseAd::Evaluation<double, 3>;
using OilPvt = Opm::OilPvtMultiplexer<double>;
using GasPvt = Opm::GasPvtMultiplexer<double>;
using WaterPvt = Opm::WaterPvtMultiplexer<double>;

// function codes (shared by the three phases where they make sense)
enum Fn { INVB = 0, MU = 1, SAT_INVB = 2, SAT_MU = 3, SAT_R = 4, PSAT = 5,
          // compositions of the above: r := saturated ratio at p, then the undersaturated function at (p, r)
          CHAIN_INVB = 6, CHAIN_MU = 7, CHAIN_PSAT = 8 };

template <class T>
T oil_eval(const OilPvt& pvt, int fn, unsigned reg, const T& temp, const T& p, const T& r)
{
    switch (fn) {
    case INVB: return pvt.inverseFormationVolumeFactor(reg, temp, p, r);
    case MU: return pvt.viscosity(reg, temp, p, r);
    case SAT_INVB: return pvt.saturatedInverseFormationVolumeFactor(reg, temp, p);
    case SAT_MU: return pvt.saturatedViscosity(reg, temp, p);
    case SAT_R: return pvt.saturatedGasDissolutionFactor(reg, temp, p);
    case PSAT: return pvt.saturationPressure(reg, temp, r);
    }
    throw BadRequest("bad fn");
}

template <class T>
T gas_eval(const GasPvt& pvt, int fn, unsigned reg, const T& temp, const T& p, const T& r)
{
    const T rvw = 0.0;
    switch (fn) {
    case INVB: return pvt.inverseFormationVolumeFactor(reg, temp, p, r, rvw);
    case MU: return pvt.viscosity(reg, temp, p, r, rvw);
    case SAT_INVB: return pvt.saturatedInverseFormationVolumeFactor(reg, temp, p);
    case SAT_MU: return pvt.saturatedViscosity(reg, temp, p);
    case SAT_R: return pvt.saturatedOilVaporizationFactor(reg, temp, p);
    case PSAT: return pvt.saturationPressure(reg, temp, r);
    }
    throw BadRequest("bad fn");
}

template <class T>
T water_eval(const WaterPvt& pvt, int fn, unsigned reg, const T& temp, const T& p, const T& r)
{
    const T salt = 0.0;
    switch (fn) {
    case INVB: return pvt.inverseFormationVolumeFactor(reg, temp, p, r, salt);
    case MU: return pvt.viscosity(reg, temp, p, r, salt);
    case SAT_INVB: return pvt.saturatedInverseFormationVolumeFactor(reg, temp, p, salt);
    case SAT_MU: return pvt.saturatedViscosity(reg, temp, p, salt);
    }
    throw BadRequest("bad fn for water");
}

struct Pvts {
    OilPvt oil;
    GasPvt gas;
    WaterPvt water;
};

template <class T>
T dispatch1(const Pvts& s, char ph, int fn, unsigned reg, const T& temp, const T& p, const T& r)
{
    switch (ph) {
    case 'o': return oil_eval<T>(s.oil, fn, reg, temp, p, r);
    case 'g': return gas_eval<T>(s.gas, fn, reg, temp, p, r);
    case 'w': return water_eval<T>(s.water, fn, reg, temp, p, r);
    }
    throw BadRequest("bad phase");
}

template <class T>
T dispatch(const Pvts& s, char ph, int fn, unsigned reg, const T& temp, const T& p, const T& r)
{
    if (fn >= CHAIN_INVB) {
        const T rsat = dispatch1<T>(s, ph, SAT_R, reg, temp, p, r);
        const int inner = fn == CHAIN_INVB ? INVB : fn == CHAIN_MU ? MU : PSAT;
        return dispatch1<T>(s, ph, inner, reg, temp, p, rsat);
    }
    return dispatch1<T>(s, ph, fn, reg, temp, p, r);
}

const char* oil_approach(Opm::OilPvtApproach a)
{
    switch (a) {
    case Opm::OilPvtApproach::NoOil: return "none";
    case Opm::OilPvtApproach::LiveOil: return "live";
    case Opm::OilPvtApproach::DeadOil: return "dead";
    case Opm::OilPvtApproach::ConstantCompressibilityOil: return "constcomp";
    default: return "other";
    }
}
const char* gas_approach(Opm::GasPvtApproach a)
{
    switch (a) {
    case Opm::GasPvtApproach::NoGas: return "none";
    case Opm::GasPvtApproach::DryGas: return "dry";
    case Opm::GasPvtApproach::WetGas: return "wet";
    default: return "other";
    }
}
const char* water_approach(Opm::WaterPvtApproach a)
{
    switch (a) {
    case Opm::WaterPvtApproach::NoWater: return "none";
    case Opm::WaterPvtApproach::ConstantCompressibilityWater: return "constcomp";
    default: return "other";
    }
}

} // namespace

// {cmd:pvt_eval, deck:"...", temp: T[K], queries:[[ph, fn, region, p, r, hp, hr], ...]}   (SI, hex or decimal)
// -> {approach:{oil,gas,water}, nreg:{...},
//     res:[[v_double, v_ad, d/dp, d/dr, d/dT, f(p-hp), f(p+hp), f(r-hr), f(r+hr) (, the same four with steps big*h)]
//          | {"exc":..., "what":...}, ...]}   ("big": optional request member)
// AD variables: p = variable 0, r = variable 1, T = variable 2.
PROBE_CMD(pvt_eval) {
    const std::string text = jstr(req, "deck");
    const double temp = jdouble(req, "temp", 300.0);
    const double big = jdouble(req, "big", 0.0);

    Opm::ParseContext ctx(Opm::InputErrorAction::THROW_EXCEPTION);
    Opm::ErrorGuard guard;
    struct Clear { Opm::ErrorGuard& g; ~Clear() { g.clear(); } } clear{guard};

    auto python = std::make_shared<Opm::Python>();
    const Opm::Deck deck = Opm::Parser().parseString(text, ctx, guard);
    const Opm::EclipseState es(deck);
    const Opm::Schedule sched(deck, es, ctx, guard, python);

    Pvts s;
    s.oil.initFromState(es, sched);
    s.gas.initFromState(es, sched);
    s.water.initFromState(es, sched);

    out.key("approach").obj()
        .kv_s("oil", oil_approach(s.oil.approach()))
        .kv_s("gas", gas_approach(s.gas.gasPvtApproach()))
        .kv_s("water", water_approach(s.water.approach()))
        .end_obj();
    const bool has_o = s.oil.approach() != Opm::OilPvtApproach::NoOil;
    const bool has_g = s.gas.gasPvtApproach() != Opm::GasPvtApproach::NoGas;
    const bool has_w = s.water.approach() != Opm::WaterPvtApproach::NoWater;
    out.key("nreg").obj()
        .kv_i("oil", has_o ? s.oil.numRegions() : 0)
        .kv_i("gas", has_g ? s.gas.numRegions() : 0)
        .kv_i("water", has_w ? s.water.numRegions() : 0)
        .end_obj();

    out.key("res").arr();
    jforeach(jget(req, "queries"), [&](const cJSON* q) {
        const int n = cJSON_GetArraySize(q);
        if (n != 7) throw BadRequest("query must have 7 entries");
        const std::string ph = jstr(cJSON_GetArrayItem(q, 0));
        const int fn = (int)jint(cJSON_GetArrayItem(q, 1));
        const unsigned reg = (unsigned)jint(cJSON_GetArrayItem(q, 2));
        const double p = jdouble(cJSON_GetArrayItem(q, 3));
        const double r = jdouble(cJSON_GetArrayItem(q, 4));
        const double hp = jdouble(cJSON_GetArrayItem(q, 5));
        const double hr = jdouble(cJSON_GetArrayItem(q, 6));
        if (ph.size() != 1) throw BadRequest("bad phase");
        // an exception of one evaluation is an observation of that evaluation
        try {
            const double vd = dispatch<double>(s, ph[0], fn, reg, temp, p, r);
            const Eval pe = Eval::createVariable(p, 0);
            const Eval re = Eval::createVariable(r, 1);
            const Eval te = Eval::createVariable(temp, 2);
            const Eval va = dispatch<Eval>(s, ph[0], fn, reg, te, pe, re);
            // evaluate everything first: an exception of a neighbour evaluation must not leave a half-written array
            std::vector<double> v{vd, va.value(), va.derivative(0), va.derivative(1), va.derivative(2)};
            const double nan = std::nan("");
            // neighbours for difference quotients (double arguments); step 0 = not requested;
            // then the same with the wider step big*h
            for (const double k : {1.0, big}) {
                if (k == 0.0) continue;
                v.push_back(hp != 0.0 ? dispatch<double>(s, ph[0], fn, reg, temp, p - k * hp, r) : nan);
                v.push_back(hp != 0.0 ? dispatch<double>(s, ph[0], fn, reg, temp, p + k * hp, r) : nan);
                v.push_back(hr != 0.0 ? dispatch<double>(s, ph[0], fn, reg, temp, p, r - k * hr) : nan);
                v.push_back(hr != 0.0 ? dispatch<double>(s, ph[0], fn, reg, temp, p, r + k * hr) : nan);
            }
            out.arr();
            for (const double x : v) out.d(x);
            out.end_arr();
        } catch (const BadRequest&) {
            throw;
        } catch (const std::exception& e) {
            out.obj().kv_s("exc", typeid(e).name()).kv_s("what", e.what()).end_obj();
        }
    });
    out.end_arr();
}
