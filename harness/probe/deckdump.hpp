// canonical dump of a Deck through public getters only (layout-free content)
#pragma once
#include "probe.hpp"

#include <opm/input/eclipse/Deck/Deck.hpp>
#include <opm/input/eclipse/Deck/DeckItem.hpp>
#include <opm/input/eclipse/Deck/DeckKeyword.hpp>
#include <opm/input/eclipse/Deck/DeckRecord.hpp>
#include <opm/input/eclipse/Deck/UDAValue.hpp>
#include <opm/input/eclipse/Utility/Typetools.hpp>

namespace probe {

inline void dump_item(const Opm::DeckItem& item, JW& out, bool with_si) {
    out.obj();
    out.kv_s("n", item.name());
    const auto t = item.getType();
    const std::size_t n = item.data_size();
    out.kv_i("t", (int)t);
    out.kv_i("sz", n);
    // per value status: 0 deck value, 1 valid default, 2 empty default
    out.key("st").arr();
    for (std::size_t i = 0; i < n; ++i) {
        const bool dflt = item.defaultApplied(i);
        const bool has = item.hasValue(i);
        out.i(!dflt ? 0 : (has ? 1 : 2));
    }
    out.end_arr();
    out.key("v").arr();
    switch (t) {
    case Opm::type_tag::integer:
        for (std::size_t i = 0; i < n; ++i) { if (item.hasValue(i)) out.i(item.get<int>(i)); else out.null(); }
        break;
    case Opm::type_tag::string:
        for (std::size_t i = 0; i < n; ++i) { if (item.hasValue(i)) out.str(item.get<std::string>(i)); else out.null(); }
        break;
    case Opm::type_tag::raw_string:
        for (std::size_t i = 0; i < n; ++i) { if (item.hasValue(i)) out.str(item.get<Opm::RawString>(i)); else out.null(); }
        break;
    case Opm::type_tag::fdouble:
        // raw first, SI afterwards (lazy in-place conversion: fixed order, fresh parse)
        for (std::size_t i = 0; i < n; ++i) { if (item.hasValue(i)) out.d(item.get<double>(i)); else out.null(); }
        break;
    case Opm::type_tag::uda:
        for (std::size_t i = 0; i < n; ++i) {
            if (!item.hasValue(i)) { out.null(); continue; }
            const auto u = item.get<Opm::UDAValue>(i);
            out.arr();
            if (u.is<double>()) { out.str("d").d(u.get<double>()); }
            else if (u.is<std::string>()) { out.str("s").str(u.get<std::string>()); }
            else out.str("undef");
            out.end_arr();
        }
        break;
    default:
        break;
    }
    out.end_arr();
    if (with_si && (t == Opm::type_tag::fdouble || t == Opm::type_tag::uda)) {
        JW sub;
        bool ok = true;
        try {
            sub.arr();
            if (t == Opm::type_tag::fdouble) {
                bool all = true;
                for (std::size_t i = 0; i < n; ++i) all = all && item.hasValue(i);
                if (all && n > 0) {
                    for (double x : item.getSIDoubleData()) sub.d(x);
                } else {
                    for (std::size_t i = 0; i < n; ++i) { if (item.hasValue(i)) sub.d(item.getSIDouble(i)); else sub.null(); }
                }
            } else {
                for (std::size_t i = 0; i < n; ++i) {
                    if (!item.hasValue(i)) { sub.null(); continue; }
                    const auto u = item.get<Opm::UDAValue>(i);
                    if (u.is<double>()) sub.d(u.getSI()); else sub.null();
                }
            }
            sub.end_arr();
        } catch (const std::exception&) {
            ok = false;     // no dimension / context dependent dimension: part of the observation
        }
        if (ok) out.key("si").raw(sub.s); else out.kv_s("si", "throws");
    }
    out.end_obj();
}

inline void dump_deck(const Opm::Deck& deck, JW& out, bool with_si) {
    out.arr();
    for (const auto& kw : deck) {
        out.obj();
        out.kv_s("kw", kw.name());
        out.kv_b("data", kw.isDataKeyword());
        out.key("recs").arr();
        for (const auto& rec : kw) {
            out.arr();
            for (const auto& item : rec) dump_item(item, out, with_si);
            out.end_arr();
        }
        out.end_arr();
        out.end_obj();
    }
    out.end_arr();
}

} // namespace probe
