// Commands for C17 (UDQ expression evaluation and ASSIGN/DEFINE/UPDATE histories).
// Observations only: the oracle (reference evaluator / state machine) lives in checks/c17.py.
#include "probe.hpp"

#include <opm/common/utility/TimeService.hpp>
#include <opm/common/OpmLog/KeywordLocation.hpp>

#include <opm/input/eclipse/Deck/Deck.hpp>
#include <opm/input/eclipse/EclipseState/Grid/EclipseGrid.hpp>
#include <opm/input/eclipse/EclipseState/Grid/FieldPropsManager.hpp>
#include <opm/input/eclipse/EclipseState/Grid/FIPRegionStatistics.hpp>
#include <opm/input/eclipse/EclipseState/Grid/RegionSetMatcher.hpp>
#include <opm/input/eclipse/EclipseState/Runspec.hpp>
#include <opm/input/eclipse/EclipseState/Tables/TableManager.hpp>
#include <opm/input/eclipse/Parser/ErrorGuard.hpp>
#include <opm/input/eclipse/Parser/InputErrorAction.hpp>
#include <opm/input/eclipse/Parser/ParseContext.hpp>
#include <opm/input/eclipse/Parser/Parser.hpp>
#include <opm/input/eclipse/Python/Python.hpp>
#include <opm/input/eclipse/Schedule/MSW/SegmentMatcher.hpp>
#include <opm/input/eclipse/Schedule/Schedule.hpp>
#include <opm/input/eclipse/Schedule/ScheduleState.hpp>
#include <opm/input/eclipse/Schedule/SummaryState.hpp>
#include <opm/input/eclipse/Schedule/UDQ/UDQConfig.hpp>
#include <opm/input/eclipse/Schedule/UDQ/UDQContext.hpp>
#include <opm/input/eclipse/Schedule/UDQ/UDQDefine.hpp>
#include <opm/input/eclipse/Schedule/UDQ/UDQEnums.hpp>
#include <opm/input/eclipse/Schedule/UDQ/UDQFunctionTable.hpp>
#include <opm/input/eclipse/Schedule/UDQ/UDQParams.hpp>
#include <opm/input/eclipse/Schedule/UDQ/UDQSet.hpp>
#include <opm/input/eclipse/Schedule/UDQ/UDQState.hpp>
#include <opm/input/eclipse/Schedule/Well/NameOrder.hpp>
#include <opm/input/eclipse/Schedule/Well/WellMatcher.hpp>

#include <memory>
#include <string>
#include <vector>

using namespace probe;

namespace {

// summary state from the request:
//   "field": [[key, value], ...]
//   "wvars": [[var, [[well, value], ...]], ...]        (wells not listed: no entry = undefined)
//   "gvars": [[var, [[group, value], ...]], ...]
void fill_summary(const cJSON* req, Opm::SummaryState& st) {
    if (jhas(req, "field"))
        jforeach(jget(req, "field"), [&](const cJSON* e) {
            st.update(jstr(cJSON_GetArrayItem(e, 0)), jdouble(cJSON_GetArrayItem(e, 1)));
        });
    if (jhas(req, "wvars"))
        jforeach(jget(req, "wvars"), [&](const cJSON* e) {
            const std::string var = jstr(cJSON_GetArrayItem(e, 0));
            jforeach(cJSON_GetArrayItem(e, 1), [&](const cJSON* p) {
                st.update_well_var(jstr(cJSON_GetArrayItem(p, 0)), var, jdouble(cJSON_GetArrayItem(p, 1)));
            });
        });
    if (jhas(req, "gvars"))
        jforeach(jget(req, "gvars"), [&](const cJSON* e) {
            const std::string var = jstr(cJSON_GetArrayItem(e, 0));
            jforeach(cJSON_GetArrayItem(e, 1), [&](const cJSON* p) {
                st.update_group_var(jstr(cJSON_GetArrayItem(p, 0)), var, jdouble(cJSON_GetArrayItem(p, 1)));
            });
        });
}

void dump_set(const Opm::UDQSet& s, JW& out) {
    out.kv_s("var_type", Opm::UDQ::typeName(s.var_type()));
    out.kv_i("size", s.size());
    out.key("elems").arr();
    for (const auto& e : s) {
        out.arr();
        out.str(e.wgname());
        out.b(e.defined());
        if (e.defined()) out.d(e.get()); else out.null();
        out.end_arr();
    }
    out.end_arr();
}

// previously evaluated UDQs placed in the UDQ state through the public add_define():
//   "udqs": [[name, "F"|"W"|"G", [[wgname, value], ...] | value|null], ...]
void fill_udq_state(const cJSON* req, const std::vector<std::string>& wells,
                    const std::vector<std::string>& groups, Opm::UDQState& us, Opm::SummaryState& st) {
    if (!jhas(req, "udqs")) return;
    jforeach(jget(req, "udqs"), [&](const cJSON* e) {
        const std::string name = jstr(cJSON_GetArrayItem(e, 0));
        const std::string kind = jstr(cJSON_GetArrayItem(e, 1));
        const cJSON* v = cJSON_GetArrayItem(e, 2);
        if (kind == "F") {
            auto s = cJSON_IsNull(v) ? Opm::UDQSet::scalar(name, std::optional<double>{})
                                     : Opm::UDQSet::scalar(name, jdouble(v));
            us.add_define(0, name, s);
            st.update_udq(s);
        } else {
            auto s = kind == "W" ? Opm::UDQSet::wells(name, wells) : Opm::UDQSet::groups(name, groups);
            jforeach(v, [&](const cJSON* p) {
                s.assign(jstr(cJSON_GetArrayItem(p, 0)), jdouble(cJSON_GetArrayItem(p, 1)));
            });
            us.add_define(0, name, s);
            st.update_udq(s);
        }
    });
}

} // namespace

// UDQDefine(params, name, step, location, tokens).eval(context)
// request: wells [..], field/wvars/gvars (see fill_summary), udqs, name, tokens [..]
PROBE_CMD(udq_eval) {
    const auto wells = jstrs(jget(req, "wells"));
    Opm::UDQParams udqp;
    Opm::UDQFunctionTable udqft(udqp);
    Opm::SummaryState st(Opm::TimeService::now(), udqp.undefinedValue());
    Opm::UDQState udq_state(udqp.undefinedValue());
    fill_summary(req, st);
    fill_udq_state(req, wells, st.groups(), udq_state, st);

    Opm::WellMatcher wm{Opm::NameOrder(wells)};
    Opm::UDQContext context(udqft, wm, {}, Opm::UDQContext::MatcherFactories{}, st, udq_state);

    Opm::KeywordLocation location("UDQ", "probe", 1);
    Opm::ParseContext pc;
    pc.update(Opm::ParseContext::PARSE_MISSING_INCLUDE, Opm::InputErrorAction::THROW_EXCEPTION);
    Opm::ErrorGuard errors;
    const auto name = jstr(req, "name");
    const auto tokens = jstrs(jget(req, "tokens"));
    out.key("groups").arr();
    for (const auto& g : context.groups()) out.str(g);
    out.end_arr();
    try {
        Opm::UDQDefine def(udqp, name, 0, location, tokens, pc, errors);
        errors.clear();
        out.kv_s("input_string", def.input_string());
        const auto res = def.eval(context);
        dump_set(res, out);
    } catch (...) {
        errors.clear();
        throw;
    }
}

// Full path: deck text -> Parser -> Schedule; then UDQConfig(step).eval(step, ...) step by step on
// one SummaryState / UDQState pair, as the simulator does.
// request: deck, steps: [{field, wvars, gvars}, ...] (summary values written before the step's eval),
//          observe: [[name, "F"|"W"|"G"], ...]
// reply:   per step, per observed quantity, the values held by UDQState (has_*/get_*)
PROBE_CMD(udq_sched) {
    Opm::ParseContext pc;
    pc.update(Opm::ParseContext::PARSE_MISSING_INCLUDE, Opm::InputErrorAction::THROW_EXCEPTION);
    Opm::ErrorGuard errors;
    try {
        // the Parser (keyword table, ~100 ms to construct) is immutable configuration, not state: built once
        static const Opm::Parser parser;
        const auto deck = parser.parseString(jstr(req, "deck"), pc, errors);
        Opm::EclipseGrid grid(10, 10, 10);
        Opm::TableManager table(deck);
        Opm::FieldPropsManager fp(deck, Opm::Phases{true, true, true}, grid, table);
        Opm::Runspec runspec(deck);
        Opm::Schedule sched(deck, grid, fp, runspec, pc, errors, std::make_shared<Opm::Python>());
        errors.clear();

        const auto undef = sched.back().udq().params().undefinedValue();
        Opm::UDQState udq_state(undef);
        Opm::SummaryState st(Opm::TimeService::now(), undef);

        std::vector<std::pair<std::string, std::string>> observe;
        jforeach(jget(req, "observe"), [&](const cJSON* e) {
            observe.emplace_back(jstr(cJSON_GetArrayItem(e, 0)), jstr(cJSON_GetArrayItem(e, 1)));
        });

        out.kv_i("nsteps", sched.size());
        out.key("steps").arr();
        std::size_t step = 0;
        const cJSON* e;
        cJSON_ArrayForEach(e, jget(req, "steps")) {
            if (step >= sched.size()) break;
            fill_summary(e, st);
            const auto& udq = sched.getUDQConfig(step);
            auto regionSetMatcherFactory = []() {
                return std::make_unique<Opm::RegionSetMatcher>(Opm::FIPRegionStatistics{});
            };
            const auto wm = sched.wellMatcher(step);
            udq.eval(step, wm, sched.segmentMatcherFactory(step), regionSetMatcherFactory, st, udq_state);
            out.obj();
            out.key("wells").arr();
            for (const auto& w : wm.wells()) out.str(w);
            out.end_arr();
            out.key("groups").arr();
            for (const auto& g : st.groups()) out.str(g);
            out.end_arr();
            out.key("q").arr();
            for (const auto& [name, kind] : observe) {
                out.arr();
                out.str(name);
                if (kind == "F") {
                    if (udq_state.has(name)) out.d(udq_state.get(name)); else out.null();
                    if (st.has(name)) out.d(st.get(name)); else out.null();
                } else if (kind == "W") {
                    out.arr();
                    for (const auto& w : wm.wells()) {
                        out.arr(); out.str(w);
                        if (udq_state.has_well_var(w, name)) out.d(udq_state.get_well_var(w, name)); else out.null();
                        if (st.has_well_var(w, name)) out.d(st.get_well_var(w, name)); else out.null();
                        out.end_arr();
                    }
                    out.end_arr();
                } else {
                    out.arr();
                    for (const auto& g : st.groups()) {
                        out.arr(); out.str(g);
                        if (udq_state.has_group_var(g, name)) out.d(udq_state.get_group_var(g, name)); else out.null();
                        if (st.has_group_var(g, name)) out.d(st.get_group_var(g, name)); else out.null();
                        out.end_arr();
                    }
                    out.end_arr();
                }
                out.end_arr();
            }
            out.end_arr();
            out.end_obj();
            ++step;
        }
        out.end_arr();
    } catch (...) {
        errors.clear();
        throw;
    }
}
