// Shared helpers of the "pack" probe group (C11): the three-generation Serializer<MemPacker> round trip.
#pragma once
#include "probe.hpp"
#include "serialdump.hpp"

#include <opm/common/utility/MemPacker.hpp>
#include <opm/common/utility/Serializer.hpp>

#include <cstdint>
#include <string>

namespace probe {
namespace pack {

inline std::uint64_t fnv(const std::string& s) {
    std::uint64_t h = 1469598103934665603ull;
    for (unsigned char c : s) { h ^= c; h *= 1099511628211ull; }
    return h;
}

inline void put_dump(JW& out, const char* key, const std::string& dump, bool full) {
    out.key(key);
    if (full) out.str(dump); else out.u(fnv(dump));
}

// x: original; make_y(): fresh default object; obs(): public-getter observation; ser(): member-list dump
template <class T> auto equal_or_na(const T& a, const T& b, int) -> decltype(a == b, int()) { return (a == b) ? 1 : 0; }
template <class T> int equal_or_na(const T&, const T&, long) { return -1; }    // class has no operator==

template <class T, class Make, class Obs>
void roundtrip(const char* label, const T& x, Make&& make_y, Obs&& obs, bool full, JW& out) {
    out.key(label).obj();
    Opm::Serialization::MemPacker packer;
    Opm::Serializer ser(packer);
    ser.pack(x);
    const std::size_t packed = ser.position();
    out.kv_i("packed_bytes", packed);
    T y = make_y();
    ser.unpack(y);
    out.kv_i("consumed_bytes", ser.position());
    // second generation first: observations below go through getters that may fill lazily grown
    // (and serialized) caches such as the unit system's dimension map
    Opm::Serialization::MemPacker packer2;
    Opm::Serializer ser2(packer2);
    ser2.pack(y);
    out.kv_i("repacked_bytes", ser2.position());
    bool identical = false;
    {
        Opm::Serializer ser1b(packer);
        ser1b.pack(x);
        out.kv_i("packed_again_bytes", ser1b.position());
    }
    T z = make_y();
    ser2.unpack(z);
    out.kv_i("reconsumed_bytes", ser2.position());
    (void)identical;
    out.kv_i("equal", equal_or_na(x, y, 0));
    out.kv_i("equal2", equal_or_na(y, z, 0));
    put_dump(out, "ser_x", serial_dump(x), full);
    put_dump(out, "ser_y", serial_dump(y), full);
    put_dump(out, "ser_z", serial_dump(z), full);
    { JW o; obs(x, o); put_dump(out, "obs_x", o.s, full); }
    { JW o; obs(y, o); put_dump(out, "obs_y", o.s, full); }
    { JW o; obs(z, o); put_dump(out, "obs_z", o.s, full); }
    out.end_obj();
}


} // namespace pack
} // namespace probe
