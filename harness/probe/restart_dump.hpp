// Restart-relevant view of one ScheduleState (C05 half B): NAMED attributes read through public getters, so that
// the check can compare attribute by attribute (tolerance by storage class) and key findings by attribute name.
// Starts from the attribute list of Schedule::cmp and extends it towards the statement's list (groups, well lists,
// UDQ / ACTIONX definitions, network).  Doubles are SI hex floats.
#pragma once
#include "probe.hpp"
#include "serialdump.hpp"

#include <opm/input/eclipse/Deck/UDAValue.hpp>
#include <opm/input/eclipse/Schedule/Action/Actions.hpp>
#include <opm/input/eclipse/Schedule/Action/ActionX.hpp>
#include <opm/input/eclipse/Schedule/Group/Group.hpp>
#include <opm/input/eclipse/Schedule/Group/GConSale.hpp>
#include <opm/input/eclipse/Schedule/Group/GConSump.hpp>
#include <opm/input/eclipse/Schedule/Group/GuideRateConfig.hpp>
#include <set>
#include <algorithm>
#include <opm/input/eclipse/Schedule/Well/WListManager.hpp>
#include <opm/input/eclipse/Schedule/Well/WList.hpp>
#include <opm/input/eclipse/Schedule/MSW/WellSegments.hpp>
#include <opm/input/eclipse/Schedule/MSW/SICD.hpp>
#include <opm/input/eclipse/Schedule/MSW/AICD.hpp>
#include <opm/input/eclipse/Schedule/MSW/Valve.hpp>
#include <opm/input/eclipse/Schedule/MSW/Segment.hpp>
#include <opm/input/eclipse/Schedule/Network/ExtNetwork.hpp>
#include <opm/input/eclipse/Schedule/Schedule.hpp>
#include <opm/input/eclipse/Schedule/ScheduleState.hpp>
#include <opm/input/eclipse/Schedule/SummaryState.hpp>
#include <opm/input/eclipse/Schedule/UDQ/UDQActive.hpp>
#include <opm/input/eclipse/Schedule/UDQ/UDQAssign.hpp>
#include <opm/input/eclipse/Schedule/UDQ/UDQConfig.hpp>
#include <opm/input/eclipse/Schedule/UDQ/UDQDefine.hpp>
#include <opm/input/eclipse/Schedule/UDQ/UDQInput.hpp>
#include <opm/input/eclipse/Schedule/Well/WListManager.hpp>
#include <opm/input/eclipse/Schedule/Well/Well.hpp>
#include <opm/input/eclipse/Schedule/Well/WellConnections.hpp>
#include <opm/input/eclipse/Schedule/Well/WellEconProductionLimits.hpp>
#include <opm/input/eclipse/Schedule/Well/WellTestConfig.hpp>

namespace probe {

// UDA: ["n", SI value] | ["s", udq name] | ["u"]
inline void rd_uda(JW& out, const char* k, const Opm::UDAValue& v) {
    out.key(k).arr();
    if (v.is<std::string>()) out.str("s").str(v.get<std::string>());
    else if (v.is<double>()) out.str("n").d(v.getSI());
    else out.str("u");
    out.end_arr();
}

// a getter that may throw becomes {"exc": what}
template <class F> void rd_try(JW& out, const char* k, F&& f) {
    JW sub;
    try {
        f(sub);
        out.key(k).raw(sub.s);
    } catch (const std::exception& e) {
        out.key(k).obj().kv_s("exc", e.what()).end_obj();
    }
}

inline void rd_well(const Opm::Well& w, const Opm::SummaryState& st, JW& out) {
    out.obj();
    out.kv_s("name", w.name()).kv_s("group", w.groupName()).kv_i("headI", w.getHeadI()).kv_i("headJ", w.getHeadJ());
    out.kv_b("hasRefDepth", w.hasRefDepth());
    if (w.hasRefDepth()) out.kv_d("refDepth", w.getRefDepth());
    out.kv_i("status", (int)w.getStatus()).kv_b("producer", w.isProducer()).kv_b("injector", w.isInjector());
    if (w.isInjector()) out.kv_i("injectorType", (int)w.injectorType());
    out.kv_b("prediction", w.predictionMode()).kv_d("efficiencyFactor", w.getEfficiencyFactor());
    out.kv_d("guideRate", w.getGuideRate()).kv_i("guideRatePhase", (int)w.getRawGuideRatePhase());
    out.kv_d("guideRateScaling", w.getGuideRateScalingFactor()).kv_b("availableForGroupControl", w.isAvailableForGroupControl());
    out.kv_i("vfpTable", w.vfp_table_number());
    if (w.isProducer()) out.kv_d("alq", w.alq_value(st));
    out.kv_i("preferredPhase", (int)w.getPreferredPhase()).kv_b("crossFlow", w.getAllowCrossFlow());
    out.kv_b("autoShutin", w.getAutomaticShutIn()).kv_d("drainageRadius", w.getDrainageRadius());
    out.kv_d("solventFraction", w.getSolventFraction()).kv_i("seqIndex", w.seqIndex()).kv_b("msw", w.isMultiSegment());
    out.kv_i("pvtTable", w.pvt_table_number()).kv_i("fipRegion", w.fip_region_number());
    out.kv_i("firstTimeStep", w.firstTimeStep());
    {
        const auto& p = w.getProductionProperties();
        out.key("prod").obj();
        rd_uda(out, "OilRate", p.OilRate); rd_uda(out, "WaterRate", p.WaterRate); rd_uda(out, "GasRate", p.GasRate);
        rd_uda(out, "LiquidRate", p.LiquidRate); rd_uda(out, "ResVRate", p.ResVRate); rd_uda(out, "BHPTarget", p.BHPTarget);
        rd_uda(out, "THPTarget", p.THPTarget); rd_uda(out, "ALQValue", p.ALQValue);
        out.kv_d("bhp_hist_limit", p.bhp_hist_limit).kv_d("thp_hist_limit", p.thp_hist_limit).kv_d("BHPH", p.BHPH).kv_d("THPH", p.THPH);
        out.kv_i("VFPTableNumber", p.VFPTableNumber).kv_b("predictionMode", p.predictionMode);
        out.kv_i("controlMode", (int)p.controlMode).kv_i("whistctl_cmode", (int)p.whistctl_cmode).kv_i("controls", p.productionControls());
        out.end_obj();
        // what a simulator sees: limits evaluated against the summary state
        if (w.isProducer()) rd_try(out, "prodControls", [&](JW& o) {
            const auto c = w.productionControls(st);
            o.obj().kv_i("cmode", (int)c.cmode).kv_d("oil_rate", c.oil_rate).kv_d("water_rate", c.water_rate).kv_d("gas_rate", c.gas_rate)
                .kv_d("liquid_rate", c.liquid_rate).kv_d("resv_rate", c.resv_rate).kv_d("bhp_history", c.bhp_history)
                .kv_d("thp_history", c.thp_history).kv_d("bhp_limit", c.bhp_limit).kv_d("thp_limit", c.thp_limit)
                .kv_d("alq_value", c.alq_value).kv_i("vfp_table_number", c.vfp_table_number).kv_b("prediction_mode", c.prediction_mode);
            o.key("has").arr();
            for (int m : {1, 2, 4, 8, 16, 32, 64, 128, 256}) o.b(c.hasControl(static_cast<Opm::Well::ProducerCMode>(m)));
            o.end_arr().end_obj();
        });
    }
    {
        const auto& p = w.getInjectionProperties();
        out.key("inj").obj();
        rd_uda(out, "surfaceInjectionRate", p.surfaceInjectionRate); rd_uda(out, "reservoirInjectionRate", p.reservoirInjectionRate);
        rd_uda(out, "BHPTarget", p.BHPTarget); rd_uda(out, "THPTarget", p.THPTarget);
        out.kv_d("bhp_hist_limit", p.bhp_hist_limit).kv_d("thp_hist_limit", p.thp_hist_limit).kv_d("BHPH", p.BHPH).kv_d("THPH", p.THPH);
        out.kv_i("VFPTableNumber", p.VFPTableNumber).kv_b("predictionMode", p.predictionMode).kv_i("controls", p.injectionControls);
        out.kv_i("injectorType", (int)p.injectorType).kv_i("controlMode", (int)p.controlMode).kv_d("rsRvInj", p.rsRvInj);
        out.end_obj();
        if (w.isInjector()) rd_try(out, "injControls", [&](JW& o) {
            const auto c = w.injectionControls(st);
            o.obj().kv_i("cmode", (int)c.cmode).kv_d("bhp_limit", c.bhp_limit).kv_d("thp_limit", c.thp_limit)
                .kv_i("injector_type", (int)c.injector_type).kv_d("surface_rate", c.surface_rate).kv_d("reservoir_rate", c.reservoir_rate)
                .kv_i("vfp_table_number", c.vfp_table_number).kv_b("prediction_mode", c.prediction_mode);
            o.key("has").arr();
            for (int m : {1, 2, 4, 8, 16}) o.b(c.hasControl(static_cast<Opm::Well::InjectorCMode>(m)));
            o.end_arr().end_obj();
        });
    }
    {
        const auto& e = w.getEconLimits();
        out.key("econ").obj().kv_b("onAnyEffectiveLimit", e.onAnyEffectiveLimit()).kv_d("minOilRate", e.minOilRate()).kv_d("minGasRate", e.minGasRate())
            .kv_d("maxWaterCut", e.maxWaterCut()).kv_d("maxGasOilRatio", e.maxGasOilRatio()).kv_d("maxWaterGasRatio", e.maxWaterGasRatio())
            .kv_i("workover", (int)e.workover()).kv_b("endRun", e.endRun()).kv_i("quantityLimit", (int)e.quantityLimit())
            .kv_d("maxSecondaryMaxWaterCut", e.maxSecondaryMaxWaterCut()).kv_i("workoverSecondary", (int)e.workoverSecondary())
            .kv_b("requireSecondaryWorkover", e.requireSecondaryWorkover()).end_obj();
    }
    const auto& conns = w.getConnections();
    out.kv_i("connOrdering", (int)conns.ordering());
    out.key("conn").arr();
    for (const auto& c : conns) {
        out.obj().kv_i("I", c.getI()).kv_i("J", c.getJ()).kv_i("K", c.getK()).kv_i("global_index", c.global_index())
            .kv_i("state", (int)c.state()).kv_i("dir", (int)c.dir()).kv_i("complnum", c.complnum()).kv_i("segment", c.segment())
            .kv_i("kind", (int)c.kind()).kv_i("sort_value", c.sort_value()).kv_i("satTable", c.satTableId())
            .kv_d("CF", c.CF()).kv_d("Kh", c.Kh()).kv_d("rw", c.rw()).kv_d("depth", c.depth()).kv_d("skin", c.skinFactor())
            .kv_d("r0", c.r0()).kv_d("re", c.re()).kv_d("Ke", c.Ke()).kv_d("length", c.connectionLength()).kv_d("dFactor", c.dFactor())
            .kv_d("wpimult", c.wpimult()).end_obj();
    }
    out.end_arr();
    out.key("seg").arr();
    if (w.isMultiSegment()) {
        for (const auto& s : w.getSegments()) {
            out.obj().kv_i("number", s.segmentNumber()).kv_i("branch", s.branchNumber()).kv_i("outlet", s.outletSegment())
                .kv_d("length", s.totalLength()).kv_d("depth", s.depth()).kv_d("diameter", s.internalDiameter())
                .kv_d("roughness", s.roughness()).kv_d("area", s.crossArea()).kv_d("volume", s.volume())
                .kv_i("type", (int)s.segmentType());
            out.key("inlets").arr();
            for (int i : s.inletSegments()) out.i(i);
            out.end_arr();
            // the device of the segment (WSEGVALV / WSEGSICD / WSEGAICD), every public getter
            if (s.isValve()) {
                const auto& v = s.valve();
                out.key("valve").obj().kv_d("Cv", v.conFlowCoefficient()).kv_d("area", v.conCrossAreaValue()).kv_d("maxArea", v.conMaxCrossArea())
                    .kv_d("pipeDiameter", v.pipeDiameter()).kv_d("pipeRoughness", v.pipeRoughness()).kv_d("pipeArea", v.pipeCrossArea())
                    .kv_d("pipeAddLength", v.pipeAdditionalLength()).kv_i("status", (int)v.status()).end_obj();
            }
            auto icd = [&](const Opm::SICD& d) {
                out.kv_d("strength", d.strength()).kv_d("length", d.length()).kv_d("densityCalibration", d.densityCalibration())
                    .kv_d("viscosityCalibration", d.viscosityCalibration()).kv_d("criticalValue", d.criticalValue())
                    .kv_d("widthTransitionRegion", d.widthTransitionRegion()).kv_d("maxViscosityRatio", d.maxViscosityRatio())
                    .kv_i("methodFlowScaling", d.methodFlowScaling()).kv_i("status", (int)d.status()).kv_d("scalingFactor", d.scalingFactor());
                if (d.maxAbsoluteRate().has_value()) out.kv_d("maxAbsoluteRate", *d.maxAbsoluteRate()); else out.key("maxAbsoluteRate").null();
            };
            if (s.isSpiralICD()) { out.key("sicd").obj(); icd(s.spiralICD()); out.end_obj(); }
            if (s.isAICD()) {
                const auto& a = s.autoICD();
                out.key("aicd").obj(); icd(a);
                out.kv_d("flowRateExponent", a.flowRateExponent()).kv_d("viscExponent", a.viscExponent())
                    .kv_d("oilDensityExponent", a.oilDensityExponent()).kv_d("waterDensityExponent", a.waterDensityExponent())
                    .kv_d("gasDensityExponent", a.gasDensityExponent()).kv_d("oilViscExponent", a.oilViscExponent())
                    .kv_d("waterViscExponent", a.waterViscExponent()).kv_d("gasViscExponent", a.gasViscExponent());
                out.end_obj();
            }
            out.end_obj();
        }
    }
    out.end_arr();
    if (w.isMultiSegment()) out.kv_i("compPressureDrop", (int)w.getSegments().compPressureDrop());
    out.end_obj();
}

inline void rd_group(const Opm::Group& g, const Opm::SummaryState& st, JW& out) {
    out.obj();
    out.kv_s("name", g.name()).kv_s("parent", g.parent()).kv_i("insert_index", g.insert_index());
    out.kv_d("efficiency", g.getGroupEfficiencyFactor()).kv_b("transferEfficiency", g.getTransferGroupEfficiencyFactor());
    out.kv_b("productionGroup", g.isProductionGroup()).kv_b("injectionGroup", g.isInjectionGroup());
    out.kv_i("groupType", (int)g.getGroupType()).kv_b("prodControlAvailable", g.productionGroupControlAvailable());
    out.key("wells").arr();
    for (const auto& w : g.wells()) out.str(w);
    out.end_arr();
    out.key("groups").arr();
    for (const auto& w : g.groups()) out.str(w);
    out.end_arr();
    {
        const auto& p = g.productionProperties();
        out.key("prod").obj().kv_i("cmode", (int)p.cmode).kv_i("allRatesAction", (int)p.group_limit_action.allRates)
            .kv_i("waterAction", (int)p.group_limit_action.water).kv_i("gasAction", (int)p.group_limit_action.gas)
            .kv_i("liquidAction", (int)p.group_limit_action.liquid);
        rd_uda(out, "oil_target", p.oil_target); rd_uda(out, "water_target", p.water_target);
        rd_uda(out, "gas_target", p.gas_target); rd_uda(out, "liquid_target", p.liquid_target);
        out.kv_d("guide_rate", p.guide_rate).kv_i("guide_rate_def", (int)p.guide_rate_def).kv_d("resv_target", p.resv_target)
            .kv_b("available_group_control", p.available_group_control).kv_i("controls", p.production_controls).end_obj();
        if (g.isProductionGroup()) rd_try(out, "prodControls", [&](JW& o) {
            const auto c = g.productionControls(st);
            o.obj().kv_i("cmode", (int)c.cmode).kv_d("oil_target", c.oil_target).kv_d("water_target", c.water_target)
                .kv_d("gas_target", c.gas_target).kv_d("liquid_target", c.liquid_target).kv_d("resv_target", c.resv_target)
                .kv_d("guide_rate", c.guide_rate).kv_i("guide_rate_def", (int)c.guide_rate_def).end_obj();
        });
    }
    out.key("injControls").obj();
    for (const auto& [phase, p] : g.injectionProperties()) {
        const char* pn = phase == Opm::Phase::WATER ? "WATER" : phase == Opm::Phase::GAS ? "GAS" : "OIL";
        const auto ph = phase;
        rd_try(out, pn, [&](JW& o) {
            const auto c = g.injectionControls(ph, st);
            o.obj().kv_i("cmode", (int)c.cmode).kv_d("surface_max_rate", c.surface_max_rate).kv_d("resv_max_rate", c.resv_max_rate)
                .kv_d("target_reinj_fraction", c.target_reinj_fraction).kv_d("target_void_fraction", c.target_void_fraction)
                .kv_i("controls", c.injection_controls).kv_s("reinj_group", c.reinj_group).kv_s("voidage_group", c.voidage_group)
                .kv_d("guide_rate", c.guide_rate).kv_i("guide_rate_def", (int)c.guide_rate_def).end_obj();
        });
    }
    out.end_obj();
    out.key("inj").obj();
    for (const auto& [phase, p] : g.injectionProperties()) {
        out.key(phase == Opm::Phase::WATER ? "WATER" : phase == Opm::Phase::GAS ? "GAS" : "OIL").obj();
        out.kv_i("cmode", (int)p.cmode);
        rd_uda(out, "surface_max_rate", p.surface_max_rate); rd_uda(out, "resv_max_rate", p.resv_max_rate);
        rd_uda(out, "target_reinj_fraction", p.target_reinj_fraction); rd_uda(out, "target_void_fraction", p.target_void_fraction);
        out.kv_s("reinj_group", p.reinj_group.value_or("<none>")).kv_s("voidage_group", p.voidage_group.value_or("<none>"));
        out.kv_b("available_group_control", p.available_group_control).kv_d("guide_rate", p.guide_rate)
            .kv_i("guide_rate_def", (int)p.guide_rate_def).kv_i("controls", p.injection_controls);
        out.end_obj();
    }
    out.end_obj();
    out.end_obj();
}

inline void rst_dump_state(const Opm::Schedule& sched, int step, const Opm::SummaryState& smry, JW& out) {
    const auto& st = sched[step];
    out.obj();
    out.kv_i("start", std::chrono::duration_cast<std::chrono::seconds>(st.start_time().time_since_epoch()).count());
    out.key("well_order").arr();
    for (const auto& w : st.well_order().names()) out.str(w);
    out.end_arr();
    out.key("group_order").arr();
    for (const auto& g : st.group_order().names()) out.str(g);
    out.end_arr();
    out.key("wells").obj();
    for (const auto& w : st.well_order().names()) { out.key(w); rd_well(st.wells(w), smry, out); }
    out.end_obj();
    out.key("groups").obj();
    for (const auto& g : st.group_order().names()) { out.key(g); rd_group(st.groups(g), smry, out); }
    out.end_obj();
    out.key("wlists").raw(serial_dump(st.wlist_manager()));
    // membership only: which wells a list holds (sorted, empty names dropped), for every list that some well names
    {
        const auto& wlm = st.wlist_manager();
        std::set<std::string> lists;
        for (const auto& w : st.well_order().names())
            if (wlm.hasWList(w))
                for (const auto& l : wlm.getWListNames(w))
                    if (!l.empty() && wlm.hasList(l)) lists.insert(l);
        out.key("wlist_members").obj();
        for (const auto& l : lists) {
            auto ws = wlm.getList(l).wells();
            ws.erase(std::remove(ws.begin(), ws.end(), std::string{}), ws.end());
            if (ws.empty()) continue;       // an emptied list and no list are the same membership
            std::sort(ws.begin(), ws.end());
            out.key(l).arr();
            for (const auto& w : ws) out.str(w);
            out.end_arr();
        }
        out.end_obj();
    }
    // UDQ configuration
    {
        const auto& udq = st.udq();
        out.key("udq").obj();
        out.key("order").arr();
        for (const auto& in : udq.input()) out.str(in.keyword());
        out.end_arr();
        out.key("items").obj();
        for (const auto& in : udq.input()) {
            out.key(in.keyword()).obj().kv_i("var_type", (int)in.var_type()).kv_s("unit", in.unit());
            out.kv_i("action", (int)in.index.action).kv_i("insert_index", in.index.insert_index).kv_i("typed_insert_index", in.index.typed_insert_index);
            if (in.is<Opm::UDQDefine>()) {
                const auto& d = in.get<Opm::UDQDefine>();
                out.kv_s("kind", "DEFINE").kv_s("input_string", d.input_string()).kv_i("update", (int)d.status().first);
            } else {
                const auto& a = in.get<Opm::UDQAssign>();
                // (UDQAssign::report_step() is not called: it reads records.back() and a restarted ASSIGN without values has no records)
                out.kv_s("kind", "ASSIGN");
                out.key("assign").raw(serial_dump(a));
            }
            out.end_obj();
        }
        out.end_obj();
        out.end_obj();
        out.key("udq_active").raw(serial_dump(st.udq_active()));
    }
    // ACTIONX definitions
    out.key("actions").obj();
    for (const auto& a : st.actions()) {
        out.key(a.name()).obj().kv_i("max_run", a.max_run()).kv_d("min_wait", a.min_wait()).kv_i("start_time", (long long)a.start_time());
        out.key("conditions").raw(serial_dump(a.conditions()));
        out.key("keywords").arr();
        for (const auto& k : a.keyword_strings()) out.str(k);
        out.end_arr();
        out.end_obj();
    }
    out.end_obj();
    out.key("action_order").arr();
    for (const auto& a : st.actions()) out.str(a.name());
    out.end_arr();
    // network
    {
        const auto& nw = st.network();
        out.key("network").obj().kv_b("active", nw.active());
        auto names = nw.node_names();
        std::sort(names.begin(), names.end());
        out.key("nodes").obj();
        for (const auto& n : names) {
            const auto& node = nw.node(n);
            out.key(n).obj();
            out.key("terminal_pressure");
            if (node.terminal_pressure().has_value()) out.d(*node.terminal_pressure()); else out.null();
            out.kv_b("as_choke", node.as_choke()).kv_b("add_gas_lift_gas", node.add_gas_lift_gas());
            out.kv_s("target_group", node.target_group().value_or("<none>"));
            const auto up = nw.uptree_branch(n);
            out.key("uptree");
            if (up.has_value()) {
                out.obj().kv_s("node", up->uptree_node());
                out.key("vfp");
                if (up->vfp_table().has_value()) out.i(*up->vfp_table()); else out.null();
                out.kv_i("alq_eq", (int)up->alq_eq());
                out.key("alq_value");
                if (up->alq_value().has_value()) out.d(*up->alq_value()); else out.null();
                out.end_obj();
            } else out.null();
            out.end_obj();
        }
        out.end_obj();
        out.end_obj();
        out.key("network_balance").raw(serial_dump(st.network_balance()));
    }
    // further schedule-level items a restart file carries
    out.key("gconsale").raw(serial_dump(st.gconsale()));
    out.key("gconsump").raw(serial_dump(st.gconsump()));
    out.key("guide_rate_model").raw(serial_dump(st.guide_rate()));
    out.key("glo").raw(serial_dump(st.glo()));
    out.key("wtest_config").raw(serial_dump(st.wtest_config()));
    out.key("oilvap").raw(serial_dump(st.oilvap()));
    out.key("tuning").raw(serial_dump(st.tuning()));
    out.kv_i("whistctl", (int)st.whistctl()).kv_i("nupcol", st.nupcol());
    out.end_obj();
}

} // namespace probe
