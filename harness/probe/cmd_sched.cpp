// Commands for C03 / C04 / C11: build Schedule from deck text, dump states
#include "probe.hpp"
#include "all_state_headers.hpp"
#include "serialdump.hpp"

#include <opm/input/eclipse/Deck/Deck.hpp>
#include <opm/input/eclipse/EclipseState/EclipseState.hpp>
#include <opm/input/eclipse/Parser/ErrorGuard.hpp>
#include <opm/input/eclipse/Parser/InputErrorAction.hpp>
#include <opm/input/eclipse/Parser/ParseContext.hpp>
#include <opm/input/eclipse/Parser/Parser.hpp>
#include <opm/input/eclipse/Python/Python.hpp>
#include <opm/input/eclipse/Schedule/Action/ActionResult.hpp>
#include <opm/input/eclipse/Schedule/Action/Actions.hpp>
#include <opm/input/eclipse/Schedule/Action/ActionX.hpp>
#include <opm/input/eclipse/Schedule/Action/SimulatorUpdate.hpp>
#include <opm/input/eclipse/Schedule/Schedule.hpp>
#include <opm/input/eclipse/Schedule/ScheduleState.hpp>
#include <opm/input/eclipse/Schedule/Well/Well.hpp>
#include <opm/input/eclipse/Schedule/Group/Group.hpp>

#include <memory>

using namespace probe;

namespace {

const Opm::Parser& the_parser() {
    static const Opm::Parser p;
    return p;
}

struct Built {
    Opm::Deck deck;
    std::unique_ptr<Opm::EclipseState> es;
    std::unique_ptr<Opm::Schedule> sched;
};

Built build(const cJSON* req, bool keep_keywords = true) {
    Opm::ParseContext ctx;
    ctx.update(Opm::ParseContext::PARSE_MISSING_INCLUDE, Opm::InputErrorAction::THROW_EXCEPTION);
    Opm::ErrorGuard errors;
    struct Clear { Opm::ErrorGuard& e; ~Clear() { e.clear(); } } clear{errors};
    Built b;
    if (jhas(req, "path")) b.deck = the_parser().parseFile(jstr(req, "path"), ctx, errors);
    else b.deck = the_parser().parseString(jstr(req, "text"), ctx, errors);
    b.es = std::make_unique<Opm::EclipseState>(b.deck);
    b.sched = std::make_unique<Opm::Schedule>(b.deck, *b.es, ctx, errors, std::make_shared<Opm::Python>(),
                                              false, false, keep_keywords);
    return b;
}

void dump_steps(const Opm::Schedule& sched, const cJSON* req, JW& out) {
    const std::size_t n = sched.size();
    out.kv_i("nsteps", n);
    std::vector<int> steps;
    if (jhas(req, "steps")) steps = jints(jget(req, "steps"));
    else for (std::size_t i = 0; i < n; ++i) steps.push_back((int)i);
    out.key("dumps").arr();
    for (int s : steps) {
        if (s < 0 || (std::size_t)s >= n) { out.null(); continue; }
        out.str(serial_dump(sched[s]));
    }
    out.end_arr();
}

} // namespace

// {cmd:sched_states, text|path, steps?} -> {nsteps, dumps:[serial dump of ScheduleState per step]}
PROBE_CMD(sched_states) {
    auto b = build(req);
    dump_steps(*b.sched, req, out);
    // a few public queries that go through Schedule rather than ScheduleState
    out.key("seconds").arr();
    for (std::size_t i = 0; i < b.sched->size(); ++i) out.d(b.sched->seconds(i));
    out.end_arr();
}

// {cmd:sched_apply, text, apps:[{action, step, wells:[...]}...]}
//  -> {before:{nsteps,dumps}, after:{nsteps,dumps}, updates:[{affected_wells:[...]}]}
PROBE_CMD(sched_apply) {
    auto b = build(req, true);
    out.key("before").obj();
    dump_steps(*b.sched, req, out);
    out.end_obj();
    out.key("updates").arr();
    jforeach(jget(req, "apps"), [&](const cJSON* a) {
        const std::size_t step = (std::size_t)jint(a, "step");
        const std::string name = jstr(a, "action");
        const auto wells = jstrs(jget(a, "wells"));
        // copy: applyAction() resizes the snapshot vector the action lives in
        const Opm::Action::ActionX action = (*b.sched)[step].actions()[name];
        auto result = Opm::Action::Result{true};
        result.wells(wells);
        // current productivity index of every well, as the simulator would supply it (needed by WELPI in an action)
        std::unordered_map<std::string, double> wellpi;
        if (const cJSON* wp = jget(req, "wellpi")) {
            for (const cJSON* e = wp->child; e; e = e->next)
                if (e->string && cJSON_IsNumber(e)) wellpi[e->string] = e->valuedouble;
        }
        auto upd = b.sched->applyAction(step, action, result.matches(), wellpi);
        out.obj().key("affected_wells").arr();
        std::vector<std::string> aw(upd.affected_wells.begin(), upd.affected_wells.end());
        std::sort(aw.begin(), aw.end());
        for (const auto& w : aw) out.str(w);
        out.end_arr().end_obj();
    });
    out.end_arr();
    out.key("after").obj();
    dump_steps(*b.sched, req, out);
    out.end_obj();
}
