// Commands for C02 (unit conversion).  Observations only; every judgement is made in checks/c02.py.
#include "probe.hpp"

#include <opm/input/eclipse/Units/Dimension.hpp>
#include <opm/input/eclipse/Units/UnitSystem.hpp>

#include <opm/input/eclipse/Deck/Deck.hpp>
#include <opm/input/eclipse/Deck/DeckItem.hpp>
#include <opm/input/eclipse/Deck/DeckKeyword.hpp>
#include <opm/input/eclipse/Deck/DeckRecord.hpp>
#include <opm/input/eclipse/Deck/UDAValue.hpp>
#include <memory>
#include <opm/input/eclipse/Parser/ErrorGuard.hpp>
#include <opm/input/eclipse/Parser/InputErrorAction.hpp>
#include <opm/input/eclipse/Parser/ParseContext.hpp>
#include <opm/input/eclipse/Parser/Parser.hpp>
#include <opm/input/eclipse/Parser/ParserItem.hpp>
#include <opm/input/eclipse/Parser/ParserKeyword.hpp>
#include <opm/input/eclipse/Parser/ParserRecord.hpp>
#include <opm/input/eclipse/Parser/ParserKeywords/Builtin.hpp>
#include <opm/input/eclipse/Utility/Typetools.hpp>

#include <opm/json/JsonObject.hpp>

#include <opm/output/data/Cells.hpp>
#include <opm/output/data/Solution.hpp>
#include <opm/output/eclipse/RestartValue.hpp>

#include <filesystem>
#include <set>
#include <sstream>

using namespace probe;
using Opm::UnitSystem;

namespace {

UnitSystem make_system(const std::string& s) {
    if (s == "METRIC") return UnitSystem::newMETRIC();
    if (s == "FIELD") return UnitSystem::newFIELD();
    if (s == "LAB") return UnitSystem::newLAB();
    if (s == "PVT-M") return UnitSystem::newPVT_M();
    if (s == "INPUT") return UnitSystem::newINPUT();
    throw BadRequest("unknown unit system " + s);
}

void put_dim(JW& out, const Opm::Dimension& d) {
    // getSIScaling() throws for the ContextDependent (NaN) dimension: that is an observation
    out.obj();
    try {
        const double f = d.getSIScaling();
        out.kv_d("f", f);
    } catch (const std::exception& e) {
        out.kv_s("f_exc", e.what());
    }
    out.kv_d("o", d.getSIOffset());
    out.kv_b("comp", d.isCompositable());
    out.end_obj();
}

const char* size_name(Opm::ParserKeywordSizeEnum e) {
    switch (e) {
    case Opm::SLASH_TERMINATED: return "SLASH_TERMINATED";
    case Opm::FIXED: return "FIXED";
    case Opm::OTHER_KEYWORD_IN_DECK: return "OTHER_KEYWORD_IN_DECK";
    case Opm::UNKNOWN: return "UNKNOWN";
    case Opm::FIXED_CODE: return "FIXED_CODE";
    case Opm::DOUBLE_SLASH_TERMINATED: return "DOUBLE_SLASH_TERMINATED";
    case Opm::SPECIAL_CASE_ROCK: return "SPECIAL_CASE_ROCK";
    }
    return "?";
}

void dump_item(JW& out, const Opm::ParserItem& it) {
    out.obj();
    out.kv_s("name", it.name());
    out.kv_s("type", it.type_literal());
    out.kv_s("size", Opm::ParserItem::string_from_size(it.sizeType()));
    out.key("dims").arr();
    for (const auto& d : it.dimensions()) out.str(d);
    out.end_arr();
    out.kv_b("has_default", it.hasDefault());
    if (it.hasDefault()) {
        switch (it.dataType()) {
        case Opm::type_tag::integer: out.kv_i("default", it.getDefault<int>()); break;
        case Opm::type_tag::fdouble: out.kv_d("default", it.getDefault<double>()); break;
        case Opm::type_tag::string: out.kv_s("default", it.getDefault<std::string>()); break;
        case Opm::type_tag::raw_string: out.kv_s("default", it.getDefault<Opm::RawString>()); break;
        case Opm::type_tag::uda: {
            const auto& u = it.getDefault<Opm::UDAValue>();
            if (u.is<double>()) out.kv_d("default", u.get<double>());
            else if (u.is<std::string>()) out.kv_s("default", u.get<std::string>());
            else out.key("default").null();
            break;
        }
        default: out.key("default").null();
        }
    }
    out.end_obj();
}

void dump_keyword(JW& out, const Opm::ParserKeyword& kw) {
    out.obj();
    out.kv_s("name", kw.getName());
    out.kv_s("size_type", size_name(kw.getSizeType()));
    out.kv_b("fixed", kw.hasFixedSize());
    if (kw.hasFixedSize()) {
        try { out.kv_i("fixed_size", kw.getFixedSize()); }
        catch (const std::exception&) { out.key("fixed_size").null(); }   // e.g. ROCK: size comes from TABDIMS
    }
    if (kw.getSizeType() == Opm::OTHER_KEYWORD_IN_DECK) {
        const auto& ks = kw.getKeywordSize();
        out.kv_s("size_kw", ks.keyword());
        out.kv_s("size_item", ks.item());
        out.kv_i("size_shift", ks.size_shift());
    }
    if (kw.min_size().has_value()) out.kv_i("min_size", *kw.min_size());
    out.kv_b("table_collection", kw.isTableCollection());
    out.kv_b("data", kw.isDataKeyword());
    out.kv_b("raw_string", kw.rawStringKeyword());
    out.kv_b("code", kw.isCodeKeyword());
    out.kv_b("alternating", kw.isAlternatingKeyword());
    out.kv_b("double_records", kw.isDoubleRecordKeyword());
    out.kv_b("regex", kw.hasMatchRegex() || kw.hasMatchRegexSuffix());
    {
        std::set<std::string> s(kw.deck_names().begin(), kw.deck_names().end());
        out.key("deck_names").arr();
        for (const auto& n : s) out.str(n);
        out.end_arr();
    }
    {
        std::set<std::string> s(kw.sections().begin(), kw.sections().end());
        out.key("sections").arr();
        for (const auto& n : s) out.str(n);
        out.end_arr();
    }
    out.key("requires").arr();
    for (const auto& n : kw.requiredKeywords()) out.str(n);
    out.end_arr();
    out.key("prohibits").arr();
    for (const auto& n : kw.prohibitedKeywords()) out.str(n);
    out.end_arr();
    out.key("records").arr();
    for (const auto& rec : kw) {
        out.obj();
        out.kv_b("data_record", rec.isDataRecord());
        out.kv_b("raw_string_record", rec.rawStringRecord());
        out.kv_s("end", rec.end_string());
        out.key("items").arr();
        for (const auto& it : rec) dump_item(out, it);
        out.end_arr();
        out.end_obj();
    }
    out.end_arr();
    out.end_obj();
}

Opm::ParseContext lenient_context() {
    // only THROW / WARN / IGNORE (never EXIT1 / DELAYED_EXIT1)
    Opm::ParseContext ctx(Opm::InputErrorAction::THROW_EXCEPTION);
    return ctx;
}

} // namespace

// ------------------------------------------------------------------ A: measure tables
// {system, xs:[double]} -> count, per measure: name, Dimension(measure), to_si/from_si scalar + vector overloads
PROBE_CMD(units_measures) {
    const auto us = make_system(jstr(req, "system"));
    const auto xs = jdoubles(jget(req, "xs"));
    const int n = static_cast<int>(UnitSystem::measure::_count);
    out.kv_i("count", n);
    out.kv_s("sys_name", us.getName());
    out.key("measures").arr();
    for (int m = 0; m < n; ++m) {
        const auto mm = static_cast<UnitSystem::measure>(m);
        out.obj();
        out.kv_s("name", us.name(mm));
        out.key("dim");
        put_dim(out, us.getDimension(mm));
        out.key("to").arr();
        for (double x : xs) out.d(us.to_si(mm, x));
        out.end_arr();
        out.key("from").arr();
        for (double x : xs) out.d(us.from_si(mm, x));
        out.end_arr();
        // there and back again, computed by the library on its own intermediate value
        out.key("from_to").arr();
        for (double x : xs) out.d(us.from_si(mm, us.to_si(mm, x)));
        out.end_arr();
        out.key("to_from").arr();
        for (double x : xs) out.d(us.to_si(mm, us.from_si(mm, x)));
        out.end_arr();
        {
            auto v = xs;
            us.to_si(mm, v);
            out.key("vto").arr();
            for (double x : v) out.d(x);
            out.end_arr();
        }
        {
            auto v = xs;
            us.from_si(mm, v);
            out.key("vfrom").arr();
            for (double x : v) out.d(x);
            out.end_arr();
        }
        out.end_obj();
    }
    out.end_arr();
}

// ------------------------------------------------------------------ B: dimension strings
// {system, strings:[s], xs:[double]} -> per string: parse(), getDimension(), getNewDimension() x2, to_si/from_si(string)
PROBE_CMD(units_dims) {
    const auto us0 = make_system(jstr(req, "system"));
    const auto strings = jstrs(jget(req, "strings"));
    const auto xs = jdoubles(jget(req, "xs"));
    out.key("dims").arr();
    for (const auto& s : strings) {
        auto us = us0;   // fresh copy: the dimension map is a cache that grows
        out.obj();
        out.kv_s("s", s);
        out.kv_b("has", us.hasDimension(s));
        try {
            const auto d = us.parse(s);
            out.key("parse");
            put_dim(out, d);
        } catch (const std::exception& e) {
            out.kv_s("parse_exc", e.what());
        }
        if (us.hasDimension(s)) {
            out.key("get");
            put_dim(out, us.getDimension(s));
        }
        try {
            const auto d1 = us.getNewDimension(s);
            const bool has_after = us.hasDimension(s);
            const auto d2 = us.getNewDimension(s);
            out.key("new1");
            put_dim(out, d1);
            out.key("new2");
            put_dim(out, d2);
            out.kv_b("has_after_new", has_after);
        } catch (const std::exception& e) {
            out.kv_s("new_exc", e.what());
        }
        try {
            JW tmp;
            tmp.arr();
            for (double x : xs) tmp.d(us0.to_si(s, x));
            tmp.end_arr();
            JW tmp2;
            tmp2.arr();
            for (double x : xs) tmp2.d(us0.from_si(s, x));
            tmp2.end_arr();
            out.key("to").raw(tmp.s);
            out.key("from").raw(tmp2.s);
        } catch (const std::exception& e) {
            out.kv_s("conv_exc", e.what());
        }
        out.end_obj();
    }
    out.end_arr();
}

// ------------------------------------------------------------------ grammar (the parser's own schema)
PROBE_CMD(units_grammar) {
    (void)req;
    Opm::Parser parser;
    std::set<std::string> seen;
    out.key("keywords").arr();
    for (const auto& dn : parser.getAllDeckNames()) {
        if (!parser.hasKeyword(dn)) continue;        // wild-card entries are listed by regex, not by name
        const auto& kw = parser.getKeyword(dn);
        if (!seen.insert(kw.getName()).second) continue;
        dump_keyword(out, kw);
    }
    out.end_arr();
}

// ------------------------------------------------------------------ B': keyword JSON vs compiled-in keyword
// {path} -> {"json": dump of ParserKeyword(JsonObject(path)), "builtin": dump of the compiled keyword or null}
PROBE_CMD(units_kwjson) {
    const std::string path = jstr(req, "path");
    const Json::JsonObject jo{std::filesystem::path(path)};
    const Opm::ParserKeyword jkw(jo);
    out.key("json");
    dump_keyword(out, jkw);
    // generated registry of the compiled-in keywords, addressed by internal name
    const Opm::ParserKeywords::Builtin builtin;
    const Opm::ParserKeyword* found = nullptr;
    try {
        found = &builtin[jkw.getName()];
    } catch (const std::invalid_argument&) {
        found = nullptr;
    }
    if (found) {
        out.key("builtin");
        dump_keyword(out, *found);
        out.kv_b("op_equal", *found == jkw);
    } else {
        out.key("builtin").null();
    }
}

// ------------------------------------------------------------------ C: items of a parsed deck
// {deck} -> active unit system + for every keyword/record/item the raw and SI values in a fixed read order:
//   raw0 = getData<double>()   (fresh parse)
//   si   = getSIDoubleData()
//   raw1 = getData<double>()   (after the lazy in-place conversion)
//   si2  = getSIDoubleData()   (converted again)
// One Parser used for several decks in turn (request flag shared_parser; reset_parser starts with a new one): keyword
// and item objects live in the Parser, what they learn from one deck must not leak into the next
namespace probe_units {
Opm::Parser& shared_parser(bool reset) {
    static std::unique_ptr<Opm::Parser> p;
    if (!p || reset) p = std::make_unique<Opm::Parser>();
    return *p;
}
}

PROBE_CMD(units_deck) {
    const std::string text = jstr(req, "deck");
    Opm::Parser local_parser;
    Opm::Parser& parser = jbool(req, "shared_parser", false) ? probe_units::shared_parser(jbool(req, "reset_parser", false)) : local_parser;
    auto ctx = lenient_context();
    Opm::ErrorGuard errors;
    struct Clear { Opm::ErrorGuard& g; ~Clear() { g.clear(); } } clear{errors};
    const Opm::Deck deck = parser.parseString(text, ctx, errors);
    out.kv_s("active", deck.getActiveUnitSystem().getName());
    out.kv_s("default", deck.getDefaultUnitSystem().getName());
    out.key("keywords").arr();
    for (std::size_t k = 0; k < deck.size(); ++k) {
        const auto& kw = deck[k];
        out.obj();
        out.kv_s("name", kw.name());
        out.key("records").arr();
        for (const auto& rec : kw) {
            out.arr();
            for (const auto& item : rec) {
                out.obj();
                out.kv_s("name", item.name());
                const auto t = item.getType();
                out.kv_s("type", Opm::tag_name(t));
                const std::size_t n = item.data_size();
                out.kv_i("n", n);
                out.key("dflt").arr();
                for (std::size_t i = 0; i < n; ++i) out.b(item.defaultApplied(i));
                out.end_arr();
                out.key("has").arr();
                for (std::size_t i = 0; i < n; ++i) out.b(item.hasValue(i));
                out.end_arr();
                if (t == Opm::type_tag::fdouble) {
                    auto vec = [&](const char* key, bool si) {
                        try {
                            const auto& v = si ? item.getSIDoubleData() : item.getData<double>();
                            JW tmp;
                            tmp.arr();
                            for (double x : v) tmp.d(x);
                            tmp.end_arr();
                            out.key(key).raw(tmp.s);
                        } catch (const std::exception& e) {
                            out.kv_s(std::string(key) + "_exc", e.what());
                        }
                    };
                    vec("raw0", false);
                    vec("si", true);
                    vec("raw1", false);
                    vec("si2", true);
                } else if (t == Opm::type_tag::uda) {
                    out.key("uda").arr();
                    for (std::size_t i = 0; i < n; ++i) {
                        out.obj();
                        try {
                            const auto u = item.get<Opm::UDAValue>(i);
                            out.kv_b("numeric", u.is<double>());
                            out.key("dim");
                            put_dim(out, u.get_dim());
                            if (u.is<double>()) {
                                out.kv_d("raw", u.get<double>());
                                try {
                                    out.kv_d("si", u.getSI());
                                } catch (const std::exception& e) {
                                    out.kv_s("si_exc", e.what());
                                }
                            }
                        } catch (const std::exception& e) {
                            out.kv_s("exc", e.what());
                        }
                        out.end_obj();
                    }
                    out.end_arr();
                }
                out.end_obj();
            }
            out.end_arr();
        }
        out.end_arr();
        out.end_obj();
    }
    out.end_arr();
}

// ------------------------------------------------------------------ E: output conversion
// {system, fields:[{name, measure:int, data:[double]}], extra:[{name, measure, data}]}
// -> Solution::convertFromSI / convertToSI and RestartValue::convertFromSI / convertToSI results
PROBE_CMD(units_output) {
    const auto us = make_system(jstr(req, "system"));
    const int nmeas = static_cast<int>(UnitSystem::measure::_count);
    auto measure_of = [&](const cJSON* o) {
        const int m = (int)jint(o, "measure");
        if (m < 0 || m >= nmeas) throw BadRequest("measure out of range");
        return static_cast<UnitSystem::measure>(m);
    };
    Opm::data::Solution sol;   // si == true
    std::vector<std::string> names;
    jforeach(jget(req, "fields"), [&](const cJSON* f) {
        const auto name = jstr(f, "name");
        names.push_back(name);
        sol.insert(name, measure_of(f), jdoubles(jget(f, "data")), Opm::data::TargetType::RESTART_SOLUTION);
    });
    auto dump_sol = [&](const char* key, const Opm::data::Solution& s) {
        out.key(key).obj();
        for (const auto& n : names) {
            out.key(n).arr();
            for (double x : s.data<double>(n)) out.d(x);
            out.end_arr();
        }
        out.end_obj();
    };
    {
        auto s = sol;
        s.convertToSI(us);             // already SI: documented no-op
        dump_sol("sol_to_noop", s);
        s.convertFromSI(us);
        dump_sol("sol_from", s);
        s.convertFromSI(us);           // already converted: no-op
        dump_sol("sol_from_twice", s);
        s.convertToSI(us);
        dump_sol("sol_back", s);
    }
    {
        Opm::RestartValue rv(sol, {}, {}, {});
        std::vector<std::string> xnames;
        jforeach(jget(req, "extra"), [&](const cJSON* f) {
            const auto name = jstr(f, "name");
            xnames.push_back(name);
            rv.addExtra(name, measure_of(f), jdoubles(jget(f, "data")));
        });
        auto dump_x = [&](const char* key) {
            out.key(key).obj();
            for (const auto& n : xnames) {
                out.key(n).arr();
                for (double x : rv.getExtra(n)) out.d(x);
                out.end_arr();
            }
            out.end_obj();
        };
        rv.convertFromSI(us);
        dump_sol("rv_sol_from", rv.solution);
        dump_x("rv_extra_from");
        rv.convertToSI(us);
        dump_sol("rv_sol_back", rv.solution);
        dump_x("rv_extra_back");
    }
}
