// Commands for C11: Serializer<MemPacker> round trips
#include "probe.hpp"
#include "obs_getters.hpp"
#include "cmd_pack_common.hpp"

#include <opm/common/utility/MemPacker.hpp>
#include <opm/common/utility/Serializer.hpp>
#include <opm/input/eclipse/Deck/Deck.hpp>
#include <opm/input/eclipse/Parser/ErrorGuard.hpp>
#include <opm/input/eclipse/Parser/InputErrorAction.hpp>
#include <opm/input/eclipse/Parser/ParseContext.hpp>
#include <opm/input/eclipse/Parser/Parser.hpp>
#include <opm/input/eclipse/Python/Python.hpp>
#include <opm/input/eclipse/Schedule/Action/ActionResult.hpp>

#include <memory>

using namespace probe;
using namespace probe::pack;

namespace {

const Opm::Parser& the_parser() {
    static const Opm::Parser p;
    return p;
}

} // namespace

// {cmd:pack_deck, text|path, apps?:[{action,step,wells}], full?:bool, what?:[...]}
PROBE_CMD(pack_deck) {
    Opm::ParseContext ctx;
    ctx.update(Opm::ParseContext::PARSE_MISSING_INCLUDE, Opm::InputErrorAction::THROW_EXCEPTION);
    Opm::ErrorGuard errors;
    struct Clear { Opm::ErrorGuard& e; ~Clear() { e.clear(); } } clear{errors};
    Opm::Deck deck = jhas(req, "path") ? the_parser().parseFile(jstr(req, "path"), ctx, errors)
                                       : the_parser().parseString(jstr(req, "text"), ctx, errors);
    const bool full = jbool(req, "full");
    Opm::EclipseState es(deck);
    auto python = std::make_shared<Opm::Python>();
    Opm::Schedule sched(deck, es, ctx, errors, python);
    if (jhas(req, "apps")) {
        jforeach(jget(req, "apps"), [&](const cJSON* a) {
            const std::size_t step = (std::size_t)jint(a, "step");
            const Opm::Action::ActionX action = sched[step].actions()[jstr(a, "action")];
            auto result = Opm::Action::Result{true};
            result.wells(jstrs(jget(a, "wells")));
            sched.applyAction(step, action, result.matches(), std::unordered_map<std::string, double>{});
        });
    }
    Opm::SummaryConfig sc(deck, sched, es.fieldProps(), es.aquifer(), ctx, errors);
    roundtrip("Schedule", sched, [&] { return Opm::Schedule(python); },
              [](const Opm::Schedule& s, JW& o) { obs_schedule(s, o); }, full, out);
    roundtrip("EclipseState", es, [] { return Opm::EclipseState(); },
              [](const Opm::EclipseState& s, JW& o) { obs_eclipse_state(s, o); }, full, out);
    roundtrip("SummaryConfig", sc, [] { return Opm::SummaryConfig(); },
              [](const Opm::SummaryConfig& s, JW& o) { obs_summary_config(s, o); }, full, out);
    out.kv_i("nsteps", sched.size());
    out.kv_i("nwells", sched.wellNames().size());
}

// debugging aid: per-state packed sizes of a Schedule and of its unpacked copy
PROBE_CMD(pack_debug) {
    Opm::ParseContext ctx;
    ctx.update(Opm::ParseContext::PARSE_MISSING_INCLUDE, Opm::InputErrorAction::THROW_EXCEPTION);
    Opm::ErrorGuard errors;
    struct Clear { Opm::ErrorGuard& e; ~Clear() { e.clear(); } } clear{errors};
    Opm::Deck deck = jhas(req, "path") ? the_parser().parseFile(jstr(req, "path"), ctx, errors)
                                       : the_parser().parseString(jstr(req, "text"), ctx, errors);
    Opm::EclipseState es(deck);
    auto python = std::make_shared<Opm::Python>();
    Opm::Schedule x(deck, es, ctx, errors, python);
    Opm::Serialization::MemPacker packer;
    Opm::Serializer ser(packer);
    ser.pack(x);
    Opm::Schedule y(python);
    ser.unpack(y);
    {
        Opm::Serializer a(packer); a.pack(x); out.kv_i("x_again", a.position());
        Opm::Serializer b(packer); b.pack(y); out.kv_i("y", b.position());
        Opm::Schedule z(python); b.unpack(z);
        Opm::Serializer c(packer); c.pack(z); out.kv_i("z", c.position());
        Opm::Schedule xc = x;
        Opm::Serializer d(packer); d.pack(xc); out.kv_i("copy_of_x", d.position());
        // all states as one vector
        std::vector<Opm::ScheduleState> vx, vy;
        for (std::size_t i = 0; i < x.size(); ++i) { vx.push_back(x[i]); vy.push_back(y[i]); }
        Opm::Serializer e(packer); e.pack(vx); out.kv_i("states_x", e.position());
        Opm::Serializer f(packer); f.pack(vy); out.kv_i("states_y", f.position());
    }
    out.key("states").arr();
    for (std::size_t i = 0; i < x.size(); ++i) {
        Opm::Serializer s1(packer), s2(packer);
        s1.pack(x[i]);
        s2.pack(y[i]);
        out.arr().i(s1.position()).i(s2.position());
        // members
#define MEM(m) { Opm::Serializer a(packer), b(packer); a.pack(x[i].m); b.pack(y[i].m); if (a.position() != b.position()) out.arr().str(#m).i(a.position()).i(b.position()).end_arr(); }
        MEM(gconsale) MEM(gconsump) MEM(gecon) MEM(guide_rate) MEM(wlist_manager) MEM(well_order) MEM(group_order) MEM(actions) MEM(udq)
        MEM(udq_active) MEM(pavg) MEM(wtest_config) MEM(glo) MEM(network) MEM(network_balance) MEM(rpt_config) MEM(rft_config) MEM(rst_config)
        MEM(bhp_defaults) MEM(source) MEM(vfpprod) MEM(vfpinj) MEM(groups) MEM(wells)
        out.end_arr();
    }
    out.end_arr();
}
