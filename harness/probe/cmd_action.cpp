// Commands for C18 (ACTIONX condition evaluation and run gating).
// Observations only: the oracle lives in checks/c18.py.
#include "probe.hpp"

#include <opm/input/eclipse/Deck/Deck.hpp>
#include <opm/input/eclipse/Deck/DeckKeyword.hpp>
#include <opm/input/eclipse/Parser/ErrorGuard.hpp>
#include <opm/input/eclipse/Parser/InputErrorAction.hpp>
#include <opm/input/eclipse/Parser/ParseContext.hpp>
#include <opm/input/eclipse/Parser/Parser.hpp>
#include <opm/input/eclipse/Schedule/Action/Actdims.hpp>
#include <opm/input/eclipse/Schedule/Action/ActionAST.hpp>
#include <opm/input/eclipse/Schedule/Action/ActionContext.hpp>
#include <opm/input/eclipse/Schedule/Action/ActionResult.hpp>
#include <opm/input/eclipse/Schedule/Action/ActionX.hpp>
#include <opm/input/eclipse/Schedule/Action/Actions.hpp>
#include <opm/input/eclipse/Schedule/Action/State.hpp>
#include <opm/input/eclipse/Schedule/SummaryState.hpp>
#include <opm/input/eclipse/Schedule/Well/WListManager.hpp>

#include <ctime>
#include <memory>
#include <optional>
#include <string>
#include <utility>
#include <vector>

using namespace probe;
namespace A = Opm::Action;

namespace {

Opm::Deck parse_text(const std::string& text)
{
    // the keyword table is immutable after construction (parseString is const): built once per process,
    // every request still parses its own text into a fresh Deck
    static const Opm::Parser parser;
    Opm::ParseContext ctx(Opm::InputErrorAction::THROW_EXCEPTION);
    Opm::ErrorGuard errors;
    try {
        auto deck = parser.parseString(text, ctx, errors);
        errors.clear();
        return deck;
    } catch (...) {
        errors.clear();
        throw;
    }
}

// ACTIONX keyword text -> (ActionX, condition errors)
std::pair<A::ActionX, std::vector<std::pair<std::string, std::string>>>
action_from_deck(const std::string& text, std::time_t start)
{
    const auto deck = parse_text(text);
    const auto& kw = deck["ACTIONX"].back();
    return A::parseActionX(kw, Opm::Actdims(deck), start);
}

// [[key, value], ...]   /   [[var, name, value], ...]
void fill_summary(const cJSON* req, Opm::SummaryState& st)
{
    if (jhas(req, "fvals"))
        jforeach(jget(req, "fvals"), [&](const cJSON* e) {
            st.update(jstr(cJSON_GetArrayItem(e, 0)), jdouble(cJSON_GetArrayItem(e, 1)));
        });
    if (jhas(req, "gvals"))
        jforeach(jget(req, "gvals"), [&](const cJSON* e) {
            st.update_group_var(jstr(cJSON_GetArrayItem(e, 1)), jstr(cJSON_GetArrayItem(e, 0)),
                                jdouble(cJSON_GetArrayItem(e, 2)));
        });
    if (jhas(req, "wvals"))
        jforeach(jget(req, "wvals"), [&](const cJSON* e) {
            st.update_well_var(jstr(cJSON_GetArrayItem(e, 1)), jstr(cJSON_GetArrayItem(e, 0)),
                               jdouble(cJSON_GetArrayItem(e, 2)));
        });
    if (jhas(req, "svals"))
        jforeach(jget(req, "svals"), [&](const cJSON* e) {
            st.update_segment_var(jstr(cJSON_GetArrayItem(e, 1)), jstr(cJSON_GetArrayItem(e, 0)),
                                  (std::size_t)jint(cJSON_GetArrayItem(e, 2)), jdouble(cJSON_GetArrayItem(e, 3)));
        });
}

void fill_wlists(const cJSON* req, Opm::WListManager& wlm)
{
    if (!jhas(req, "wlists")) return;
    jforeach(jget(req, "wlists"), [&](const cJSON* e) {
        wlm.newList(jstr(cJSON_GetArrayItem(e, 0)), jstrs(cJSON_GetArrayItem(e, 1)));
    });
}

void put_result(JW& out, const A::Result& r, const std::vector<std::string>& ask)
{
    out.obj();
    out.kv_b("sat", r.conditionSatisfied());
    out.key("wells").arr();
    for (const auto& w : r.matches().wells()) out.str(w);
    out.end_arr();
    out.key("has").arr();
    for (const auto& w : ask) out.b(r.matches().hasWell(w));
    out.end_arr();
    out.end_obj();
}

} // namespace

// Evaluate one condition through both entry points.
//   tokens : token list for Action::AST(tokens).eval(context)          (optional)
//   deck   : ACTIONX ... keyword text -> Parser -> parseActionX -> ActionX::eval(context)  (optional)
//   fvals/gvals/wvals/wlists : summary state and well lists; ask : well names for hasWell()
PROBE_CMD(action_eval)
{
    Opm::SummaryState st(std::time_t{0});
    Opm::WListManager wlm;
    fill_summary(req, st);
    fill_wlists(req, wlm);
    const A::Context context(st, wlm);
    std::vector<std::string> ask;
    if (jhas(req, "ask")) ask = jstrs(jget(req, "ask"));

    if (jhas(req, "tokens")) {
        out.key("ast");
        // a failure of one entry point is itself an observation (the other one is still reported)
        try {
            const A::AST ast(jstrs(jget(req, "tokens")));
            const auto r = ast.eval(context);
            put_result(out, r, ask);
        } catch (const std::exception& e) {
            out.obj().kv_s("exc", e.what()).end_obj();
        }
    }
    if (jhas(req, "deck")) {
        out.key("actionx");
        try {
            const auto [action, errors] = action_from_deck(jstr(req, "deck"), std::time_t{0});
            if (!errors.empty()) {
                out.obj().key("parse_errors").arr();
                for (const auto& [k, m] : errors) out.str(k + ": " + m);
                out.end_arr().end_obj();
            } else {
                const auto r = action.eval(context);
                out.obj();
                out.kv_b("sat", r.conditionSatisfied());
                out.key("wells").arr();
                for (const auto& w : r.matches().wells()) out.str(w);
                out.end_arr();
                out.key("has").arr();
                for (const auto& w : ask) out.b(r.matches().hasWell(w));
                out.end_arr();
                out.kv_s("name", action.name());
                out.kv_i("max_run", action.max_run());
                out.kv_d("min_wait", action.min_wait());
                out.kv_i("nconditions", action.conditions().size());
                out.end_obj();
            }
        } catch (const std::exception& e) {
            out.obj().kv_s("exc", e.what()).end_obj();
        }
    }
}

namespace {

struct Spec {
    std::string name;
    bool from_deck = false;
    std::string key;      // summary key used by a deck action's condition
};

A::ActionX make_action(const cJSON* s, Spec& spec)
{
    spec.name = jstr(s, "name");
    const std::time_t start = (std::time_t)jint(s, "start");
    if (jhas(s, "deck")) {
        spec.from_deck = true;
        spec.key = jstr(s, "key");
        auto [action, errors] = action_from_deck(jstr(s, "deck"), start);
        if (!errors.empty()) throw std::runtime_error("ACTIONX condition error: " + errors.front().second);
        return action;
    }
    return A::ActionX(spec.name, (std::size_t)jint(s, "max_run"), jdouble(s, "min_wait"), start);
}

} // namespace

// Drive the documented protocol over a history.
//   actions : [{name, start, max_run, min_wait} | {name, start, deck, key}]
//   events  : [{"t": T, "fire": [b per action]} | {"redefine": {action spec}}]
// per time event: ready() of every action, Actions::pending() names, then for every pending action whose
// outcome is true: State::add_run(action, T, result); afterwards run_count / run_time of every action.
// A deck action's outcome is obtained by really evaluating its condition (summary value key = +1 / -1).
PROBE_CMD(action_run)
{
    A::Actions actions;
    std::vector<Spec> specs;
    jforeach(jget(req, "actions"), [&](const cJSON* s) {
        Spec spec;
        auto a = make_action(s, spec);
        actions.add(a);
        specs.push_back(spec);
    });
    A::State state;
    Opm::WListManager wlm;
    out.key("steps").arr();
    jforeach(jget(req, "events"), [&](const cJSON* ev) {
        out.obj();
        if (jhas(ev, "redefine")) {
            Spec spec;
            auto a = make_action(jget(ev, "redefine"), spec);
            actions.add(a);
            bool found = false;
            for (auto& s : specs) if (s.name == spec.name) { s = spec; found = true; }
            if (!found) specs.push_back(spec);
            out.kv_i("nactions", actions.ecl_size());
            out.key("ids").arr();
            for (const auto& act : actions) out.i((long long)act.id());
            out.end_arr();
            out.end_obj();
            return;
        }
        const std::time_t t = (std::time_t)jint(ev, "t");
        const auto fire = jints(jget(ev, "fire"));
        out.key("ready").arr();
        for (const auto& act : actions) out.b(act.ready(state, t));
        out.end_arr();
        out.kv_b("any_ready", actions.ready(state, t));
        const auto pending = actions.pending(state, t);
        out.key("pending").arr();
        for (const auto* p : pending) out.str(p->name());
        out.end_arr();
        out.key("ran").arr();
        for (const auto* p : pending) {
            std::size_t idx = 0;
            for (; idx < specs.size(); ++idx) if (specs[idx].name == p->name()) break;
            const bool want = idx < fire.size() && fire[idx] != 0;
            if (specs[idx].from_deck) {
                Opm::SummaryState st(std::time_t{0});
                st.update(specs[idx].key, want ? 1.0 : -1.0);
                const A::Context context(st, wlm);
                const auto r = p->eval(context);
                if (r.conditionSatisfied()) { state.add_run(*p, t, r); out.str(p->name()); }
            } else if (want) {
                state.add_run(*p, t, A::Result{true});
                out.str(p->name());
            }
        }
        out.end_arr();
        out.key("count").arr();
        for (const auto& act : actions) out.i((long long)state.run_count(act));
        out.end_arr();
        out.key("last").arr();
        for (const auto& act : actions) {
            if (state.run_count(act) == 0) out.null();
            else out.i((long long)state.run_time(act));
        }
        out.end_arr();
        out.end_obj();
    });
    out.end_arr();
    out.key("params").arr();
    for (const auto& act : actions) {
        out.obj().kv_s("name", act.name()).kv_i("max_run", act.max_run()).kv_d("min_wait", act.min_wait())
            .kv_i("start", (long long)act.start_time()).kv_i("id", act.id()).end_obj();
    }
    out.end_arr();
}

// One action, one time sequence, ALL 2^k outcome patterns (bit i of the pattern = outcome at event i).
// Per pattern: string of ready() bits per event, final run_count, final run_time (-1 = never ran).
PROBE_CMD(action_run_all)
{
    Spec spec;
    const auto action = make_action(jget(req, "action"), spec);
    A::Actions actions;
    actions.add(action);
    const auto& act = actions[std::size_t{0}];
    std::vector<std::time_t> times;
    jforeach(jget(req, "times"), [&](const cJSON* e) { times.push_back((std::time_t)jint(e)); });
    const std::size_t k = times.size();
    if (k > 12) throw BadRequest("too many events");
    out.key("ready").arr();
    std::vector<long long> counts, lasts;
    std::string pend_mismatch;
    for (unsigned long p = 0; p < (1ul << k); ++p) {
        A::State state;
        std::string bits(k, '0');
        for (std::size_t i = 0; i < k; ++i) {
            const bool rdy = act.ready(state, times[i]);
            const auto pending = actions.pending(state, times[i]);
            // observation: does pending() agree with ready()?  (reported, not judged)
            if ((pending.size() == 1) != rdy) pend_mismatch = "pattern " + std::to_string(p) + " event " + std::to_string(i);
            bits[i] = rdy ? '1' : '0';
            if (rdy && ((p >> i) & 1ul)) state.add_run(act, times[i], A::Result{true});
        }
        out.str(bits);
        counts.push_back((long long)state.run_count(act));
        lasts.push_back(state.run_count(act) == 0 ? -1 : (long long)state.run_time(act));
    }
    out.end_arr();
    out.key("count").arr();
    for (auto c : counts) out.i(c);
    out.end_arr();
    out.key("last").arr();
    for (auto c : lasts) out.i(c);
    out.end_arr();
    out.kv_s("pending_vs_ready", pend_mismatch);
    out.kv_i("max_run", act.max_run());
    out.kv_d("min_wait", act.min_wait());
    out.kv_i("start", (long long)act.start_time());
}
