// Commands for C05 (restart round trip).  Observation only: build a run from deck text, drive the
// summary/UDQ/action state like a simulator would, write a restart file, load it back, dump both sides.
#include "probe.hpp"
#include "all_state_headers.hpp"
#include "serialdump.hpp"
#include "restart_dump.hpp"

#include <opm/input/eclipse/Deck/Deck.hpp>
#include <opm/input/eclipse/EclipseState/EclipseState.hpp>
#include <opm/input/eclipse/EclipseState/Grid/EclipseGrid.hpp>
#include <opm/input/eclipse/EclipseState/Grid/RegionSetMatcher.hpp>
#include <opm/input/eclipse/EclipseState/SummaryConfig/SummaryConfig.hpp>
#include <opm/input/eclipse/Parser/ErrorGuard.hpp>
#include <opm/input/eclipse/Parser/InputErrorAction.hpp>
#include <opm/input/eclipse/Parser/ParseContext.hpp>
#include <opm/input/eclipse/Parser/Parser.hpp>
#include <opm/input/eclipse/Python/Python.hpp>
#include <opm/input/eclipse/Schedule/Action/ActionResult.hpp>
#include <opm/input/eclipse/Schedule/Action/Actions.hpp>
#include <opm/input/eclipse/Schedule/Action/ActionX.hpp>
#include <opm/input/eclipse/Schedule/Action/State.hpp>
#include <opm/input/eclipse/Schedule/MSW/SegmentMatcher.hpp>
#include <opm/input/eclipse/Schedule/Schedule.hpp>
#include <opm/input/eclipse/Schedule/ScheduleState.hpp>
#include <opm/input/eclipse/Schedule/SummaryState.hpp>
#include <opm/input/eclipse/Schedule/UDQ/UDQConfig.hpp>
#include <opm/input/eclipse/Schedule/UDQ/UDQState.hpp>
#include <opm/input/eclipse/Schedule/Well/Well.hpp>
#include <opm/input/eclipse/Schedule/Well/WellMatcher.hpp>
#include <opm/input/eclipse/Schedule/Well/WellTestState.hpp>
#include <opm/input/eclipse/Units/UnitSystem.hpp>

#include <opm/io/eclipse/ERst.hpp>
#include <opm/io/eclipse/OutputStream.hpp>
#include <opm/io/eclipse/RestartFileView.hpp>
#include <opm/io/eclipse/rst/state.hpp>

#include <opm/output/data/Groups.hpp>
#include <opm/output/data/Solution.hpp>
#include <opm/output/data/Wells.hpp>
#include <opm/output/eclipse/AggregateAquiferData.hpp>
#include <opm/output/eclipse/EclipseIO.hpp>
#include <opm/output/eclipse/Inplace.hpp>
#include <opm/output/eclipse/RestartIO.hpp>
#include <opm/output/eclipse/RestartValue.hpp>
#include <opm/output/eclipse/Summary.hpp>

#include <opm/common/utility/TimeService.hpp>

#include <algorithm>
#include <filesystem>
#include <memory>
#include <optional>

using namespace probe;

namespace {

using M = Opm::UnitSystem::measure;

const Opm::Parser& the_parser() {
    static const Opm::Parser p;
    return p;
}

M measure_of(const std::string& n) {
    static const std::map<std::string, M> tab = {
        {"identity", M::identity}, {"length", M::length}, {"time", M::time}, {"density", M::density},
        {"pressure", M::pressure}, {"temperature_absolute", M::temperature_absolute}, {"temperature", M::temperature},
        {"viscosity", M::viscosity}, {"permeability", M::permeability}, {"area", M::area},
        {"liquid_surface_volume", M::liquid_surface_volume}, {"gas_surface_volume", M::gas_surface_volume},
        {"volume", M::volume}, {"geometric_volume", M::geometric_volume}, {"liquid_surface_rate", M::liquid_surface_rate},
        {"gas_surface_rate", M::gas_surface_rate}, {"rate", M::rate}, {"transmissibility", M::transmissibility},
        {"effective_Kh", M::effective_Kh}, {"mass", M::mass}, {"mass_rate", M::mass_rate},
        {"gas_oil_ratio", M::gas_oil_ratio}, {"oil_gas_ratio", M::oil_gas_ratio}, {"water_cut", M::water_cut},
        {"gas_formation_volume_factor", M::gas_formation_volume_factor},
        {"oil_formation_volume_factor", M::oil_formation_volume_factor},
        {"energy", M::energy}, {"polymer_density", M::polymer_density}, {"salinity", M::salinity},
        {"water_formation_volume_factor", M::water_formation_volume_factor},
        {"gas_inverse_formation_volume_factor", M::gas_inverse_formation_volume_factor},
        {"oil_inverse_formation_volume_factor", M::oil_inverse_formation_volume_factor},
        {"water_inverse_formation_volume_factor", M::water_inverse_formation_volume_factor},
        {"liquid_productivity_index", M::liquid_productivity_index}, {"gas_productivity_index", M::gas_productivity_index},
        {"geometric_volume_rate", M::geometric_volume_rate}, {"energy_rate", M::energy_rate}, {"moles", M::moles},
    };
    auto it = tab.find(n);
    if (it == tab.end()) throw BadRequest("unknown measure " + n);
    return it->second;
}

Opm::data::TargetType target_of(const std::string& n) {
    using T = Opm::data::TargetType;
    if (n == "RESTART_SOLUTION") return T::RESTART_SOLUTION;
    if (n == "RESTART_AUXILIARY") return T::RESTART_AUXILIARY;
    if (n == "RESTART_OPM_EXTENDED") return T::RESTART_OPM_EXTENDED;
    if (n == "SUMMARY") return T::SUMMARY;
    throw BadRequest("unknown target " + n);
}

struct Built {
    Opm::Deck deck;
    std::unique_ptr<Opm::EclipseState> es;
    std::unique_ptr<Opm::Schedule> sched;
    std::unique_ptr<Opm::SummaryConfig> smcfg;
    std::unique_ptr<Opm::RestartIO::RstState> rst;
};

struct Guard {
    Opm::ParseContext ctx;
    Opm::ErrorGuard errors;
    Guard() { ctx.update(Opm::ParseContext::PARSE_MISSING_INCLUDE, Opm::InputErrorAction::THROW_EXCEPTION); }
    ~Guard() { errors.clear(); }
};

// base run: deck -> EclipseState, Schedule, SummaryConfig
Built build_base(const std::string& text) {
    Guard g;
    Built b;
    b.deck = the_parser().parseString(text, g.ctx, g.errors);
    b.es = std::make_unique<Opm::EclipseState>(b.deck);
    b.sched = std::make_unique<Opm::Schedule>(b.deck, *b.es, g.ctx, g.errors, std::make_shared<Opm::Python>(),
                                              false, false, true);
    b.smcfg = std::make_unique<Opm::SummaryConfig>(b.deck, *b.sched, b.es->fieldProps(), b.es->aquifer(), g.ctx, g.errors);
    return b;
}

// restarted run: deck with RESTART -> EclipseState; RstState from the file the deck names; Schedule(..., &rst)
// sched_from_rst == false: the Schedule is built from the (full) deck alone, only the dynamic state comes from the file
// (what upstream's test_Restart does, and flow's mode with restart_offset() == 0)
Built build_restarted(const std::string& text, bool with_schedule, bool sched_from_rst = true) {
    Guard g;
    Built b;
    b.deck = the_parser().parseString(text, g.ctx, g.errors);
    b.es = std::make_unique<Opm::EclipseState>(b.deck);
    const auto& init = b.es->getInitConfig();
    if (!init.restartRequested()) throw BadRequest("restart deck does not request a restart");
    const int step = init.getRestartStep();
    const auto fname = b.es->getIOConfig().getRestartFileName(init.getRestartRootName(), step, false);
    auto file = std::make_shared<Opm::EclIO::ERst>(fname);
    auto view = std::make_shared<Opm::EclIO::RestartFileView>(std::move(file), step);
    b.rst = std::make_unique<Opm::RestartIO::RstState>(
        Opm::RestartIO::RstState::load(std::move(view), b.es->runspec(), the_parser(), &b.es->getInputGrid()));
    if (with_schedule) {
        b.sched = std::make_unique<Opm::Schedule>(b.deck, *b.es, g.ctx, g.errors, std::make_shared<Opm::Python>(),
                                                  false, false, true, std::nullopt, sched_from_rst ? b.rst.get() : nullptr);
        b.smcfg = std::make_unique<Opm::SummaryConfig>(b.deck, *b.sched, b.es->fieldProps(), b.es->aquifer(), g.ctx, g.errors);
    }
    return b;
}

// ------------------------------------------------------------------ JSON -> simulator containers
Opm::data::Rates::opt rate_opt(const std::string& n) {
    using O = Opm::data::Rates::opt;
    static const std::map<std::string, O> tab = {
        {"wat", O::wat}, {"oil", O::oil}, {"gas", O::gas}, {"dissolved_gas", O::dissolved_gas},
        {"vaporized_oil", O::vaporized_oil}, {"reservoir_water", O::reservoir_water}, {"reservoir_oil", O::reservoir_oil},
        {"reservoir_gas", O::reservoir_gas}, {"well_potential_water", O::well_potential_water},
        {"well_potential_oil", O::well_potential_oil}, {"well_potential_gas", O::well_potential_gas},
        {"productivity_index_water", O::productivity_index_water}, {"productivity_index_oil", O::productivity_index_oil},
        {"productivity_index_gas", O::productivity_index_gas}, {"alq", O::alq},
    };
    auto it = tab.find(n);
    if (it == tab.end()) throw BadRequest("unknown rate " + n);
    return it->second;
}

void read_rates(const cJSON* o, Opm::data::Rates& r) {
    const cJSON* e;
    cJSON_ArrayForEach(e, o) r.set(rate_opt(e->string), jdouble(e));
}

Opm::Well::Status status_of(const std::string& s) {
    if (s == "OPEN") return Opm::Well::Status::OPEN;
    if (s == "SHUT") return Opm::Well::Status::SHUT;
    if (s == "STOP") return Opm::Well::Status::STOP;
    throw BadRequest("status " + s);
}

Opm::data::Wells read_wells(const cJSON* o) {
    Opm::data::Wells ws;
    const cJSON* e;
    cJSON_ArrayForEach(e, o) {
        Opm::data::Well w;
        if (jhas(e, "rates")) read_rates(jget(e, "rates"), w.rates);
        w.bhp = jdouble(e, "bhp", 0.0);
        w.thp = jdouble(e, "thp", 0.0);
        w.temperature = jdouble(e, "temperature", 0.0);
        w.control = (int)jint(e, "control", 0);
        w.dynamicStatus = status_of(jstr(e, "status", "OPEN"));
        if (jhas(e, "cc")) {
            const cJSON* c = jget(e, "cc");
            w.current_control.isProducer = jbool(c, "isProducer", true);
            w.current_control.prod = static_cast<Opm::Well::ProducerCMode>(jint(c, "prod", 1024));
            w.current_control.inj = static_cast<Opm::Well::InjectorCMode>(jint(c, "inj", 512));
        }
        if (jhas(e, "guide")) {
            using G = Opm::data::GuideRateValue::Item;
            const cJSON* c = jget(e, "guide");
            if (jhas(c, "oil")) w.guide_rates.set(G::Oil, jdouble(c, "oil"));
            if (jhas(c, "gas")) w.guide_rates.set(G::Gas, jdouble(c, "gas"));
            if (jhas(c, "wat")) w.guide_rates.set(G::Water, jdouble(c, "wat"));
            if (jhas(c, "resv")) w.guide_rates.set(G::ResV, jdouble(c, "resv"));
        }
        if (jhas(e, "conns")) jforeach(jget(e, "conns"), [&](const cJSON* c) {
            Opm::data::Connection x;
            x.index = (std::size_t)jint(c, "index");
            if (jhas(c, "rates")) read_rates(jget(c, "rates"), x.rates);
            x.pressure = jdouble(c, "pressure", 0.0);
            x.reservoir_rate = jdouble(c, "reservoir_rate", 0.0);
            x.cell_pressure = jdouble(c, "cell_pressure", 0.0);
            x.cell_saturation_water = jdouble(c, "cell_sw", 0.0);
            x.cell_saturation_gas = jdouble(c, "cell_sg", 0.0);
            x.effective_Kh = jdouble(c, "kh", 0.0);
            x.trans_factor = jdouble(c, "trans", 0.0);
            w.connections.push_back(x);
        });
        if (jhas(e, "segs")) jforeach(jget(e, "segs"), [&](const cJSON* c) {
            Opm::data::Segment s;
            s.segNumber = (std::size_t)jint(c, "n");
            if (jhas(c, "rates")) read_rates(jget(c, "rates"), s.rates);
            s.pressures[Opm::data::SegmentPressures::Value::Pressure] = jdouble(c, "pressure", 0.0);
            w.segments[s.segNumber] = s;
        });
        ws[e->string] = w;
    }
    return ws;
}

Opm::data::GroupAndNetworkValues read_groups(const cJSON* req) {
    Opm::data::GroupAndNetworkValues g;
    if (jhas(req, "groups")) {
        const cJSON* e;
        cJSON_ArrayForEach(e, jget(req, "groups")) {
            auto& gd = g.groupData[e->string];
            gd.currentControl.set(static_cast<Opm::Group::ProductionCMode>(jint(e, "prod", 0)),
                                  static_cast<Opm::Group::InjectionCMode>(jint(e, "ginj", 0)),
                                  static_cast<Opm::Group::InjectionCMode>(jint(e, "winj", 0)));
            using G = Opm::data::GuideRateValue::Item;
            if (jhas(e, "gr_oil")) gd.guideRates.production.set(G::Oil, jdouble(e, "gr_oil"));
            if (jhas(e, "gr_wat")) gd.guideRates.production.set(G::Water, jdouble(e, "gr_wat"));
            if (jhas(e, "gr_gas")) gd.guideRates.production.set(G::Gas, jdouble(e, "gr_gas"));
        }
    }
    if (jhas(req, "nodes")) {
        const cJSON* e;
        cJSON_ArrayForEach(e, jget(req, "nodes")) g.nodeData[e->string].pressure = jdouble(e);
    }
    return g;
}

// ------------------------------------------------------------------ dumps of dynamic containers
void dump_rates(const Opm::data::Rates& r, JW& out) {
    using O = Opm::data::Rates::opt;
    out.obj();
    for (auto [n, o] : {std::pair<const char*, O>{"wat", O::wat}, {"oil", O::oil}, {"gas", O::gas}})
        if (r.has(o)) out.kv_d(n, r.get(o));
    out.end_obj();
}

void dump_wells(const Opm::data::Wells& ws, JW& out) {
    std::vector<std::string> names;
    for (const auto& kv : ws) names.push_back(kv.first);
    std::sort(names.begin(), names.end());
    out.obj();
    for (const auto& n : names) {
        const auto& w = ws.at(n);
        out.key(n).obj();
        out.key("rates"); dump_rates(w.rates, out);
        out.kv_d("bhp", w.bhp).kv_d("thp", w.thp).kv_d("temperature", w.temperature).kv_i("control", w.control);
        out.kv_i("status", (int)w.dynamicStatus);
        out.key("cc").obj().kv_b("isProducer", w.current_control.isProducer).kv_i("prod", (int)w.current_control.prod)
            .kv_i("inj", (int)w.current_control.inj).end_obj();
        out.key("guide").obj();
        {
            using G = Opm::data::GuideRateValue::Item;
            for (auto [nm, it] : {std::pair<const char*, G>{"oil", G::Oil}, {"gas", G::Gas}, {"wat", G::Water}, {"resv", G::ResV}})
                if (w.guide_rates.has(it)) out.kv_d(nm, w.guide_rates.get(it));
        }
        out.end_obj();
        out.key("conns").arr();
        for (const auto& c : w.connections) {
            out.obj().kv_i("index", c.index);
            out.key("rates"); dump_rates(c.rates, out);
            out.kv_d("pressure", c.pressure).kv_d("reservoir_rate", c.reservoir_rate).kv_d("cell_pressure", c.cell_pressure)
                .kv_d("kh", c.effective_Kh).kv_d("trans", c.trans_factor).end_obj();
        }
        out.end_arr();
        std::vector<std::size_t> segs;
        for (const auto& kv : w.segments) segs.push_back(kv.first);
        std::sort(segs.begin(), segs.end());
        out.key("segs").arr();
        for (auto s : segs) {
            const auto& sg = w.segments.at(s);
            out.obj().kv_i("n", sg.segNumber).kv_i("key", s);
            out.key("rates"); dump_rates(sg.rates, out);
            out.kv_d("pressure", sg.pressures[Opm::data::SegmentPressures::Value::Pressure]).end_obj();
        }
        out.end_arr();
        out.end_obj();
    }
    out.end_obj();
}

void dump_smry(const Opm::SummaryState& st, JW& out) {
    std::vector<std::pair<std::string, double>> kv(st.begin(), st.end());
    std::sort(kv.begin(), kv.end());
    out.obj();
    for (const auto& [k, v] : kv) out.kv_d(k, v);
    out.end_obj();
}

void dump_solution(const Opm::data::Solution& sol, JW& out) {
    out.obj();
    for (const auto& [name, cd] : sol) {
        out.key(name).obj().kv_i("dim", (int)cd.dim).kv_i("target", (int)cd.target);
        bool is_int = false;
        try { (void)cd.data<int>(); is_int = true; } catch (const std::exception&) {}
        if (is_int) {
            out.key("idata").arr();
            for (int v : cd.data<int>()) out.i(v);
            out.end_arr();
        } else {
            out.key("data").arr();
            for (double v : cd.data<double>()) out.d(v);
            out.end_arr();
        }
        out.end_obj();
    }
    out.end_obj();
}

// UDQ state seen through the public queries, over the UDQs of `cfg` and the wells/groups of step `st`
void dump_udq_state(const Opm::UDQState& us, const Opm::UDQConfig& cfg, const Opm::ScheduleState& st, JW& out) {
    out.obj();
    out.kv_d("undefined", us.undefined_value());
    out.key("values").obj();
    for (const auto& in : cfg.input()) {
        const auto& kw = in.keyword();
        out.key(kw).obj();
        const auto vt = in.var_type();
        out.kv_i("var_type", (int)vt);
        if (vt == Opm::UDQVarType::FIELD_VAR || vt == Opm::UDQVarType::SCALAR) {
            out.kv_b("has", us.has(kw));
            if (us.has(kw)) out.kv_d("value", us.get(kw));
        } else if (vt == Opm::UDQVarType::WELL_VAR) {
            out.key("wells").obj();
            for (const auto& w : st.well_order().names()) {
                out.key(w);
                if (us.has_well_var(w, kw)) out.d(us.get_well_var(w, kw)); else out.null();
            }
            out.end_obj();
        } else if (vt == Opm::UDQVarType::GROUP_VAR) {
            out.key("groups").obj();
            for (const auto& g : st.group_order().names()) {
                out.key(g);
                if (us.has_group_var(g, kw)) out.d(us.get_group_var(g, kw)); else out.null();
            }
            out.end_obj();
        }
        out.end_obj();
    }
    out.end_obj();
    out.key("members").raw(serial_dump(us));
    out.end_obj();
}

void dump_action_state(const Opm::Action::State& as, const Opm::Action::Actions& actions, const Opm::ScheduleState& st, JW& out) {
    out.obj();
    for (const auto& a : actions) {
        out.key(a.name()).obj();
        const auto n = as.run_count(a);
        out.kv_i("run_count", n);
        if (n > 0) out.kv_i("run_time", (long long)as.run_time(a));
        const auto* r = as.result(a.name());
        out.key("wells");
        if (r) {
            out.arr();
            for (const auto& w : st.well_order().names()) if (r->hasWell(w)) out.str(w);
            out.end_arr();
        } else out.null();
        out.kv_i("max_run", a.max_run()).kv_d("min_wait", a.min_wait());
        out.end_obj();
    }
    out.end_obj();
}

// ------------------------------------------------------------------ the base run, driven like a simulator
struct BaseRun {
    Built b;
    Opm::SummaryState st;
    Opm::UDQState udq;
    Opm::Action::State actions;
    Opm::WellTestState wtest;
    Opm::data::Wells wells;
    Opm::data::GroupAndNetworkValues grp;
    int step = 0;
    double elapsed = 0;
    explicit BaseRun(Built&& bb)
        : b(std::move(bb))
        , st(Opm::TimeService::from_time_t(b.sched->getStartTime()), b.es->runspec().udqParams().undefinedValue())
        , udq(b.es->runspec().udqParams().undefinedValue()) {}
};

// {text, dir, base, step, evals:[{report_step, elapsed, wells, groups?, nodes?}], udq_eval, action_runs:[{name,time,wells}]}
std::unique_ptr<BaseRun> run_base(const cJSON* req) {
    auto run = std::make_unique<BaseRun>(build_base(jstr(req, "text")));
    auto& b = run->b;
    const std::string dir = jstr(req, "dir");
    std::filesystem::create_directories(dir);
    b.es->getIOConfig().setOutputDir(dir);
    b.es->getIOConfig().setBaseName(jstr(req, "base", "BASE"));
    b.es->getIOConfig().setEclCompatibleRST(jbool(req, "ecl_compatible", false));
    run->step = (int)jint(req, "step");
    if (run->step < 1 || (std::size_t)run->step >= b.sched->size()) throw BadRequest("step out of range");

    Opm::out::Summary summary(*b.smcfg, *b.es, b.es->getInputGrid(), *b.sched, jstr(req, "base", "BASE"));
    const bool udq_eval = jbool(req, "udq_eval", true);
    // like a simulator: the UDQs are evaluated at the end of EVERY report step 1..n (an ASSIGN is pending only in the
    // configuration of the step that holds it); the summary state is evaluated at the steps the request lists
    const auto& es = *b.es;
    auto eval_udq = [&](int rs) {
        if (!udq_eval) return;
        b.sched->getUDQConfig(rs - 1).eval(rs, b.sched->wellMatcher(rs), b.sched->segmentMatcherFactory(rs),
                                          [&es]() { return std::make_unique<Opm::RegionSetMatcher>(es.fipRegionStatistics()); },
                                          run->st, run->udq);
    };
    int last_udq = 0;
    jforeach(jget(req, "evals"), [&](const cJSON* e) {
        const int rs = (int)jint(e, "report_step");
        const double el = jdouble(e, "elapsed");
        for (int k = last_udq + 1; k < rs; ++k) eval_udq(k);
        run->wells = read_wells(jget(e, "wells"));
        run->grp = read_groups(e);
        summary.eval(run->st, rs, el, run->wells, {}, run->grp, {}, {}, {});
        eval_udq(rs);
        last_udq = rs;
        run->elapsed = el;
    });
    if (jhas(req, "action_runs")) jforeach(jget(req, "action_runs"), [&](const cJSON* a) {
        const auto& acts = (*b.sched)[run->step - 1].actions();
        const auto name = jstr(a, "name");
        if (!acts.has(name)) throw BadRequest("no such action " + name);
        Opm::Action::Result res{true};
        res.wells(jstrs(jget(a, "wells")));
        run->actions.add_run(acts[name], (std::time_t)jint(a, "time"), res);
    });
    return run;
}

Opm::RestartValue make_value(const cJSON* req, const BaseRun& run) {
    Opm::data::Solution sol;
    jforeach(jget(req, "solution"), [&](const cJSON* s) {
        const auto key = jstr(s, "key");
        const auto tgt = target_of(jstr(s, "target", "RESTART_SOLUTION"));
        if (jhas(s, "idata")) sol.insert(key, jints(jget(s, "idata")), tgt);
        else sol.insert(key, measure_of(jstr(s, "measure")), jdoubles(jget(s, "data")), tgt);
    });
    Opm::RestartValue v(sol, run.wells, run.grp, {});
    if (jhas(req, "extra")) jforeach(jget(req, "extra"), [&](const cJSON* s) {
        v.addExtra(jstr(s, "key"), measure_of(jstr(s, "measure")), jdoubles(jget(s, "data")));
    });
    return v;
}

// write the restart file for report step run.step; via == "save": RestartIO::save on an OutputStream::Restart,
// via == "eclipseio": EclipseIO::writeTimeStep (needs RPTRST BASIC=2 in the deck)
void write_restart_impl(const cJSON* req, BaseRun& run, JW& out);
// returns false (and reports {"save_error": what}) when the library throws while writing
bool write_restart(const cJSON* req, BaseRun& run, JW& out) {
    try {
        write_restart_impl(req, run, out);
        return true;
    } catch (const std::exception& e) {
        out.key("save_error").obj().kv_s("what", e.what()).end_obj();
        return false;
    }
}

void write_restart_impl(const cJSON* req, BaseRun& run, JW& out) {
    auto& b = run.b;
    const bool write_double = jbool(req, "write_double", false);
    const std::string via = jstr(req, "via", "save");
    const auto& io = b.es->getIOConfig();
    auto value = make_value(req, run);
    if (via == "eclipseio") {
        Opm::EclipseIO eio(*b.es, b.es->getInputGrid(), *b.sched, *b.smcfg);
        out.kv_b("write_rst_file", b.sched->write_rst_file(run.step));
        eio.writeTimeStep(run.actions, run.wtest, run.st, run.udq, run.step, false, run.elapsed, value, write_double);
    } else {
        namespace OS = Opm::EclIO::OutputStream;
        OS::Restart rstFile{OS::ResultSet{io.getOutputDir(), io.getBaseName()}, run.step,
                            OS::Formatted{io.getFMTOUT()}, OS::Unified{io.getUNIFOUT()}};
        auto aq = std::optional<Opm::RestartIO::Helpers::AggregateAquiferData>{std::nullopt};
        Opm::RestartIO::save(rstFile, run.step, run.elapsed, value, *b.es, b.es->getInputGrid(), *b.sched,
                             run.actions, run.wtest, run.st, run.udq, aq, write_double);
    }
    out.kv_s("file", io.getRestartFileName(io.getOutputDir() + "/" + io.getBaseName(), run.step, true));
}

std::vector<Opm::RestartKey> read_keys(const cJSON* a) {
    std::vector<Opm::RestartKey> keys;
    jforeach(a, [&](const cJSON* k) { keys.emplace_back(jstr(k, "key"), measure_of(jstr(k, "measure")), jbool(k, "required", true)); });
    return keys;
}

void structure(const Opm::Schedule& sched, const Opm::EclipseState& es, int sim_step, JW& out) {
    const auto& st = sched[sim_step];
    out.kv_i("nactive", es.getInputGrid().getNumActive());
    out.kv_i("ncells", es.getInputGrid().getCartesianSize());
    const auto& ph = es.runspec().phases();
    out.key("phases").obj().kv_b("oil", ph.active(Opm::Phase::OIL)).kv_b("gas", ph.active(Opm::Phase::GAS))
        .kv_b("wat", ph.active(Opm::Phase::WATER)).end_obj();
    out.key("seconds").arr();
    for (std::size_t i = 0; i < sched.size(); ++i) out.d(sched.seconds(i));
    out.end_arr();
    out.kv_i("start", (long long)sched.getStartTime());
    out.key("write_rst").arr();
    for (std::size_t i = 0; i < sched.size(); ++i) out.b(sched.write_rst_file(i));
    out.end_arr();
    out.key("wells").arr();
    for (const auto& wn : st.well_order().names()) {
        const auto& w = st.wells(wn);
        out.obj().kv_s("name", wn).kv_s("group", w.groupName()).kv_b("producer", w.isProducer())
            .kv_i("status", (int)w.getStatus()).kv_b("msw", w.isMultiSegment()).kv_d("efac", w.getEfficiencyFactor())
            .kv_b("prediction", w.predictionMode());
        out.kv_i("prod_cmode", (int)w.getProductionProperties().controlMode);
        out.kv_i("inj_cmode", (int)w.getInjectionProperties().controlMode);
        out.kv_i("inj_type", (int)w.getInjectionProperties().injectorType);
        out.kv_i("prod_controls", w.getProductionProperties().productionControls());
        out.kv_i("inj_controls", w.getInjectionProperties().injectionControls);
        out.key("conns").arr();
        for (const auto& c : w.getConnections())
            out.obj().kv_i("index", c.global_index()).kv_i("i", c.getI()).kv_i("j", c.getJ()).kv_i("k", c.getK())
                .kv_i("state", (int)c.state()).kv_b("active", es.getInputGrid().cellActive(c.global_index()))
                .kv_d("CF", c.CF()).kv_d("Kh", c.Kh()).end_obj();
        out.end_arr();
        out.key("segs").arr();
        if (w.isMultiSegment()) for (const auto& s : w.getSegments()) out.i(s.segmentNumber());
        out.end_arr();
        out.end_obj();
    }
    out.end_arr();
    out.key("groups").arr();
    for (const auto& gn : st.group_order().names()) {
        const auto& g = st.groups(gn);
        out.obj().kv_s("name", gn).kv_s("parent", g.parent()).kv_i("prod_cmode", (int)g.prod_cmode()).kv_d("efac", g.getGroupEfficiencyFactor());
        out.kv_b("has_winj", g.hasInjectionControl(Opm::Phase::WATER)).kv_b("has_ginj", g.hasInjectionControl(Opm::Phase::GAS));
        if (g.hasInjectionControl(Opm::Phase::WATER)) out.kv_i("winj", (int)g.injectionProperties(Opm::Phase::WATER).cmode);
        if (g.hasInjectionControl(Opm::Phase::GAS)) out.kv_i("ginj", (int)g.injectionProperties(Opm::Phase::GAS).cmode);
        out.end_obj();
    }
    out.end_arr();
    out.key("udqs").arr();
    for (const auto& in : st.udq().input()) out.arr().str(in.keyword()).i((int)in.var_type()).end_arr();
    out.end_arr();
    out.key("actions").arr();
    for (const auto& a : st.actions()) out.str(a.name());
    out.end_arr();
    out.key("network_nodes").arr();
    if (st.network().active()) for (const auto& n : st.network().node_names()) out.str(n);
    out.end_arr();
}

} // namespace

// {cmd:rst_info, text, step} -> what exists at sim_step = step-1 (the state a restart file of report step `step` describes)
PROBE_CMD(rst_info) {
    auto b = build_base(jstr(req, "text"));
    out.kv_i("nsteps", b.sched->size());
    out.key("structs").arr();
    for (int step : jints(jget(req, "steps"))) {
        if (step < 1 || (std::size_t)step >= b.sched->size()) { out.null(); continue; }
        out.obj();
        structure(*b.sched, *b.es, step - 1, out);
        out.end_obj();
    }
    out.end_arr();
}

// half A: {text, rst_text, dir, base, step, evals, solution, extra, write_double, via, udq_eval, action_runs,
//          load_keys:[{key,measure,required}], load_extra:[...], load_via: "load"|"eclipseio"}
PROBE_CMD(rst_roundtrip) {
    auto run = run_base(req);
    auto& b = run->b;
    const int n = run->step;
    out.key("saved").obj();
    out.key("smry"); dump_smry(run->st, out);
    out.key("udq"); dump_udq_state(run->udq, (*b.sched)[n - 1].udq(), (*b.sched)[n - 1], out);
    out.key("actions"); dump_action_state(run->actions, (*b.sched)[n - 1].actions(), (*b.sched)[n - 1], out);
    out.end_obj();
    if (!write_restart(req, *run, out)) return;

    // the restarted side: an exception here is an observation (the library could not continue from its own file)
    JW sub;
    std::string phase = "build";
    try {
        auto& out = sub;
    auto r = build_restarted(jstr(req, "rst_text"), true, jstr(req, "load_sched", "rst") != "deck");
    Opm::SummaryState st2(Opm::TimeService::from_time_t(r.sched->getStartTime()), r.es->runspec().udqParams().undefinedValue());
    Opm::Action::State as2;
    const auto keys = read_keys(jget(req, "load_keys"));
    const auto xkeys = jhas(req, "load_extra") ? read_keys(jget(req, "load_extra")) : std::vector<Opm::RestartKey>{};
    Opm::RestartValue rv;
    phase = "load";
    if (jstr(req, "load_via", "load") == "eclipseio") {
        r.es->getIOConfig().setOutputDir(jstr(req, "dir") + "/rst_out");
        std::filesystem::create_directories(jstr(req, "dir") + "/rst_out");
        Opm::EclipseIO eio(*r.es, r.es->getInputGrid(), *r.sched, *r.smcfg);
        rv = eio.loadRestart(as2, st2, keys, xkeys);
    } else {
        const auto& init = r.es->getInitConfig();
        const auto fname = r.es->getIOConfig().getRestartFileName(init.getRestartRootName(), init.getRestartStep(), false);
        rv = Opm::RestartIO::load(fname, init.getRestartStep(), as2, st2, keys, *r.es, r.es->getInputGrid(), *r.sched, xkeys);
    }
    phase = "load_rst";
    Opm::UDQState us2(r.es->runspec().udqParams().undefinedValue());
    us2.load_rst(*r.rst);
    as2.load_rst((*r.sched)[n - 1].actions(), *r.rst);

    phase = "dump";
    out.key("loaded").obj();
    out.key("solution"); dump_solution(rv.solution, out);
    out.key("extra").obj();
    for (const auto& [k, v] : rv.extra) {
        out.key(k.key).arr();
        for (double x : v) out.d(x);
        out.end_arr();
    }
    out.end_obj();
    out.key("wells"); dump_wells(rv.wells, out);
    out.key("smry"); dump_smry(st2, out);
    out.key("udq"); dump_udq_state(us2, (*r.sched)[n - 1].udq(), (*r.sched)[n - 1], out);
    out.key("actions"); dump_action_state(as2, (*r.sched)[n - 1].actions(), (*r.sched)[n - 1], out);
    out.kv_i("rst_report_step", r.rst->header.report_step);
    out.end_obj();
    } catch (const std::exception& e) {
        out.key("rst_error").obj().kv_s("phase", phase).kv_s("what", e.what()).end_obj();
        return;
    }
    out.raw(sub.s.substr(0));
}

// half B: same base run and file; then RstState::load + Schedule(deck+RESTART, ..., &rst_state); dumps of the
// restart-relevant projection of states `steps` of both schedules
PROBE_CMD(rst_sched) {
    auto run = run_base(req);
    auto& b = run->b;
    if (!write_restart(req, *run, out)) return;
    std::vector<int> steps = jints(jget(req, "steps"));
    out.kv_i("base_nsteps", b.sched->size());
    // both dumps evaluate UDA-controlled limits against the SAME summary state (the base run's)
    out.key("base").arr();
    for (int s : steps) {
        if (s < 0 || (std::size_t)s >= b.sched->size()) { out.null(); continue; }
        rst_dump_state(*b.sched, s, run->st, out);
    }
    out.end_arr();
    out.key("seconds_base").arr();
    for (std::size_t i = 0; i < b.sched->size(); ++i) out.d(b.sched->seconds(i));
    out.end_arr();
    JW sub;
    std::string phase = "build";
    try {
        auto r = build_restarted(jstr(req, "rst_text"), true);
        phase = "dump";
        sub.kv_i("rst_nsteps", r.sched->size());
        sub.key("rst").arr();
        for (int s : steps) {
            if (s < 0 || (std::size_t)s >= r.sched->size()) { sub.null(); continue; }
            rst_dump_state(*r.sched, s, run->st, sub);
        }
        sub.end_arr();
        sub.key("seconds_rst").arr();
        for (std::size_t i = 0; i < r.sched->size(); ++i) sub.d(r.sched->seconds(i));
        sub.end_arr();
    } catch (const std::exception& e) {
        out.key("rst_error").obj().kv_s("phase", phase).kv_s("what", e.what()).end_obj();
        return;
    }
    out.raw(sub.s);
}
