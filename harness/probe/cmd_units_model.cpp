// C02 sub-check D2: SI observations of EclipseState / Schedule built from one deck (public getters only).
#include "probe.hpp"

#include <opm/input/eclipse/Deck/Deck.hpp>
#include <opm/input/eclipse/EclipseState/EclipseState.hpp>
#include <opm/input/eclipse/EclipseState/Grid/EclipseGrid.hpp>
#include <opm/input/eclipse/EclipseState/Grid/FieldPropsManager.hpp>
#include <opm/input/eclipse/EclipseState/InitConfig/Equil.hpp>
#include <opm/input/eclipse/EclipseState/InitConfig/InitConfig.hpp>
#include <opm/input/eclipse/EclipseState/Tables/FlatTable.hpp>
#include <opm/input/eclipse/EclipseState/Tables/SimpleTable.hpp>
#include <opm/input/eclipse/EclipseState/Tables/TableColumn.hpp>
#include <opm/input/eclipse/EclipseState/Tables/TableContainer.hpp>
#include <opm/input/eclipse/EclipseState/Tables/TableManager.hpp>
#include <opm/input/eclipse/Parser/ErrorGuard.hpp>
#include <opm/input/eclipse/Parser/InputErrorAction.hpp>
#include <opm/input/eclipse/Parser/ParseContext.hpp>
#include <opm/input/eclipse/Parser/Parser.hpp>
#include <opm/input/eclipse/Python/Python.hpp>
#include <opm/input/eclipse/Schedule/Group/Group.hpp>
#include <opm/input/eclipse/Schedule/Schedule.hpp>
#include <opm/input/eclipse/Schedule/ScheduleState.hpp>
#include <opm/input/eclipse/Schedule/SummaryState.hpp>
#include <opm/input/eclipse/Schedule/VFPInjTable.hpp>
#include <opm/input/eclipse/Schedule/VFPProdTable.hpp>
#include <opm/input/eclipse/Schedule/Well/Connection.hpp>
#include <opm/input/eclipse/Schedule/Well/Well.hpp>
#include <opm/input/eclipse/Schedule/Well/WellConnections.hpp>
#include <opm/input/eclipse/Schedule/Well/WellInjectionControls.hpp>
#include <opm/input/eclipse/Schedule/Well/WellProductionControls.hpp>
#include <opm/input/eclipse/Units/UnitSystem.hpp>

#include <memory>

using namespace probe;

namespace {
void put_vec(JW& out, const std::string& key, const std::vector<double>& v) {
    out.key(key).arr();
    for (double x : v) out.d(x);
    out.end_arr();
}
void put_table(JW& out, const std::string& key, const Opm::SimpleTable& t) {
    out.key(key).arr();
    for (std::size_t c = 0; c < t.numColumns(); ++c) {
        out.arr();
        for (double x : t.getColumn(c).vectorCopy()) out.d(x);
        out.end_arr();
    }
    out.end_arr();
}
} // namespace

// {deck} -> SI values seen through EclipseState and Schedule
namespace probe_units { Opm::Parser& shared_parser(bool reset); }      // cmd_units.cpp

PROBE_CMD(units_model) {
    const std::string text = jstr(req, "deck");
    Opm::Parser local_parser;
    Opm::Parser& parser = jbool(req, "shared_parser", false) ? probe_units::shared_parser(jbool(req, "reset_parser", false)) : local_parser;
    Opm::ParseContext ctx(Opm::InputErrorAction::THROW_EXCEPTION);
    Opm::ErrorGuard errors;
    struct Clear { Opm::ErrorGuard& g; ~Clear() { g.clear(); } } clear{errors};
    const Opm::Deck deck = parser.parseString(text, ctx, errors);
    const Opm::EclipseState es(deck);
    const Opm::Schedule sched(deck, es, ctx, errors, std::make_shared<Opm::Python>());
    out.kv_s("units", es.getUnits().getName());

    // grid
    const auto& grid = es.getInputGrid();
    const std::size_t n = grid.getCartesianSize();
    out.key("volume").arr();
    for (std::size_t g = 0; g < n; ++g) out.d(grid.getCellVolume(g));
    out.end_arr();
    out.key("depth").arr();
    for (std::size_t g = 0; g < n; ++g) out.d(grid.getCellDepth(g));
    out.end_arr();
    out.key("dims").arr();
    for (std::size_t g = 0; g < n; ++g) {
        const auto d = grid.getCellDims(g);
        out.arr().d(d[0]).d(d[1]).d(d[2]).end_arr();
    }
    out.end_arr();

    // field properties
    const auto& fp = es.fieldProps();
    for (const char* kw : {"PORO", "PERMX", "PERMY", "PERMZ", "NTG", "PORV"}) put_vec(out, kw, fp.get_double(kw));

    // tables
    const auto& tm = es.getTableManager();
    {
        const auto& r = tm.getPvtwTable()[0];
        out.key("PVTW").arr().d(r.reference_pressure).d(r.volume_factor).d(r.compressibility).d(r.viscosity)
            .d(r.viscosibility).end_arr();
    }
    {
        const auto& r = tm.getDensityTable()[0];
        out.key("DENSITY").arr().d(r.oil).d(r.water).d(r.gas).end_arr();
    }
    {
        const auto& r = tm.getRockTable()[0];
        out.key("ROCK").arr().d(r.reference_pressure).d(r.compressibility).end_arr();
    }
    put_table(out, "PVDO", tm.getPvdoTables().getTable(0));
    put_table(out, "PVDG", tm.getPvdgTables().getTable(0));
    put_table(out, "SWOF", tm.getSwofTables().getTable(0));
    put_table(out, "SGOF", tm.getSgofTables().getTable(0));

    // equilibration
    {
        const auto& r = es.getInitConfig().getEquil().getRecord(0);
        out.key("EQUIL").arr().d(r.datumDepth()).d(r.datumDepthPressure()).d(r.waterOilContactDepth())
            .d(r.waterOilContactCapillaryPressure()).d(r.gasOilContactDepth()).d(r.gasOilContactCapillaryPressure())
            .end_arr();
    }

    // schedule
    const Opm::SummaryState st;
    out.key("steps").arr();
    for (std::size_t step = 0; step < sched.size(); ++step) {
        out.obj();
        out.kv_d("seconds", sched.seconds(step));
        const auto& state = sched[step];
        out.key("wells").obj();
        for (const auto& wname : sched.wellNames(step)) {
            const auto& w = sched.getWell(wname, step);
            out.key(wname).obj();
            out.kv_d("ref_depth", w.getRefDepth());
            out.kv_d("drainage_radius", w.getDrainageRadius());
            if (w.isProducer()) {
                const auto c = w.productionControls(st);
                out.key("prod").arr().d(c.oil_rate).d(c.water_rate).d(c.gas_rate).d(c.liquid_rate).d(c.resv_rate)
                    .d(c.bhp_limit).d(c.thp_limit).end_arr();
            } else {
                const auto c = w.injectionControls(st);
                out.key("inj").arr().d(c.surface_rate).d(c.reservoir_rate).d(c.bhp_limit).d(c.thp_limit).end_arr();
            }
            out.key("conns").arr();
            for (const auto& cn : w.getConnections()) {
                out.arr().d(cn.CF()).d(cn.Kh()).d(cn.rw()).d(cn.r0()).d(cn.re()).d(cn.skinFactor()).d(cn.depth())
                    .d(cn.connectionLength()).end_arr();
            }
            out.end_arr();
            out.end_obj();
        }
        out.end_obj();
        out.key("groups").obj();
        for (const auto& gname : sched.groupNames(step)) {
            const auto& g = sched.getGroup(gname, step);
            if (!g.isProductionGroup()) continue;
            const auto c = g.productionControls(st);
            out.key(gname).arr().d(c.oil_target).d(c.water_target).d(c.gas_target).d(c.liquid_target).d(c.resv_target)
                .end_arr();
        }
        out.end_obj();
        if (state.vfpprod.has(3)) {
            const auto& t = state.vfpprod(3);
            out.key("vfpprod").obj();
            out.kv_d("datum", t.getDatumDepth());
            put_vec(out, "flo", t.getFloAxis());
            put_vec(out, "thp", t.getTHPAxis());
            put_vec(out, "wfr", t.getWFRAxis());
            put_vec(out, "gfr", t.getGFRAxis());
            put_vec(out, "alq", t.getALQAxis());
            put_vec(out, "bhp", t.getTable());
            out.end_obj();
        }
        if (state.vfpinj.has(4)) {
            const auto& t = state.vfpinj(4);
            out.key("vfpinj").obj();
            out.kv_d("datum", t.getDatumDepth());
            put_vec(out, "flo", t.getFloAxis());
            put_vec(out, "thp", t.getTHPAxis());
            put_vec(out, "bhp", t.getTable());
            out.end_obj();
        }
        out.end_obj();
    }
    out.end_arr();
}
