// Commands for C01 / C19 / (C20-lite): parse text or files -> canonical Deck dump
#include "probe.hpp"
#include "deckdump.hpp"

#include <opm/input/eclipse/Deck/Deck.hpp>
#include <opm/input/eclipse/Parser/ErrorGuard.hpp>
#include <opm/input/eclipse/Parser/InputErrorAction.hpp>
#include <opm/input/eclipse/Parser/ParseContext.hpp>
#include <opm/input/eclipse/Parser/Parser.hpp>
#include <opm/input/eclipse/Parser/ParserKeyword.hpp>

#include <filesystem>
#include <fstream>
#include <sstream>

using namespace probe;

namespace {

Opm::ParseContext make_context(const std::string& mode) {
    // never EXIT1 / DELAYED_EXIT1: those are deliberate std::exit policies
    Opm::ParseContext ctx;
    if (mode == "strict") ctx = Opm::ParseContext(Opm::InputErrorAction::THROW_EXCEPTION);
    else if (mode == "warn") ctx = Opm::ParseContext(Opm::InputErrorAction::WARN);
    else if (mode == "ignore") ctx = Opm::ParseContext(Opm::InputErrorAction::IGNORE);
    else {
        // library default with the exit keys remapped to THROW
        ctx.update(Opm::ParseContext::PARSE_MISSING_INCLUDE, Opm::InputErrorAction::THROW_EXCEPTION);
    }
    return ctx;
}

Opm::Deck do_parse(const cJSON* req, const Opm::Parser& parser) {
    auto ctx = make_context(jstr(req, "ctx", "strict"));
    Opm::ErrorGuard errors;
    struct Clear { Opm::ErrorGuard& e; ~Clear() { e.clear(); } } clear{errors};
    if (jhas(req, "files")) {
        // write the file map below a fresh directory, parse the root from disk
        const std::string dir = scratch_dir() + "/deck";
        std::filesystem::remove_all(dir);
        std::filesystem::create_directories(dir);
        const cJSON* files = jget(req, "files");
        const cJSON* e;
        cJSON_ArrayForEach(e, files) {
            std::filesystem::path p = std::filesystem::path(dir) / e->string;
            std::filesystem::create_directories(p.parent_path());
            std::ofstream o(p, std::ios::binary);
            const std::string txt = jstr(e);
            o.write(txt.data(), (std::streamsize)txt.size());
        }
        return parser.parseFile(dir + "/" + jstr(req, "root"), ctx, errors);
    }
    if (jhas(req, "path")) return parser.parseFile(jstr(req, "path"), ctx, errors);
    return parser.parseString(jstr(req, "text"), ctx, errors);
}

const Opm::Parser& the_parser() {
    static const Opm::Parser p;    // immutable after construction
    return p;
}

} // namespace

// {cmd:parse, text | files+root, ctx} -> {deck: dump}
PROBE_CMD(parse) {
    auto deck = do_parse(req, the_parser());
    out.key("deck");
    dump_deck(deck, out, jbool(req, "si", true));
}

// {cmd:print_parse, ...}: D1 = parse(input); T1 = str(D1); D2 = parse(T1); T2 = str(D2); D3 = parse(T2); T3 = str(D3)
PROBE_CMD(print_parse) {
    auto d1 = do_parse(req, the_parser());
    // si_first: the Deck has been used before it is written - every item's SI data read once (what building an
    // EclipseState does); the values are converted lazily inside the items, the printed text must not care
    // (d1 is dumped BEFORE that, while the items still hold what the parser put there: the reference for D2)
    out.key("d1");
    dump_deck(d1, out, false);
    if (jbool(req, "si_first", false)) {
        JW scratch;
        dump_deck(d1, scratch, true);
    }
    std::ostringstream s1;
    s1 << d1;
    out.kv_s("t1", s1.str());
    auto ctx = make_context(jstr(req, "ctx", "strict"));
    Opm::ErrorGuard errors;
    struct Clear { Opm::ErrorGuard& e; ~Clear() { e.clear(); } } clear{errors};
    try {
        auto d2 = the_parser().parseString(s1.str(), ctx, errors);
        std::ostringstream s2;
        s2 << d2;
        out.kv_s("t2", s2.str());
        out.key("d2");
        dump_deck(d2, out, false);
        auto d3 = the_parser().parseString(s2.str(), ctx, errors);
        std::ostringstream s3;
        s3 << d3;
        out.kv_s("t3", s3.str());
    } catch (const std::exception& e) {
        out.kv_s("reparse_error", e.what());
    }
}

// {cmd:kwinfo, names:[...]} -> recognised? (generator sanity)
PROBE_CMD(kwinfo) {
    out.key("known").arr();
    for (const auto& n : jstrs(jget(req, "names"))) out.b(the_parser().isRecognizedKeyword(n));
    out.end_arr();
}

// {cmd:parse_build, text | files+root, ctx}: parse, then (each in its own try) EclipseState, Schedule, SummaryConfig.
// Used by the token-mutation part of C20 under the sanitizer build: the reply only says how far construction got.
#include <opm/input/eclipse/EclipseState/EclipseState.hpp>
#include <opm/input/eclipse/EclipseState/SummaryConfig/SummaryConfig.hpp>
#include <opm/input/eclipse/Python/Python.hpp>
#include <opm/input/eclipse/Schedule/Schedule.hpp>
PROBE_CMD(parse_build) {
    std::unique_ptr<Opm::Deck> deck;
    try {
        deck = std::make_unique<Opm::Deck>(do_parse(req, the_parser()));
    } catch (const std::exception& e) {
        out.kv_s("stage", "rejected-by-parser");
        return;
    }
    out.kv_i("keywords", deck->size());
    std::string stage = "deck";
    auto ctx = make_context(jstr(req, "ctx", "strict"));
    Opm::ErrorGuard errors;
    struct Clear { Opm::ErrorGuard& e; ~Clear() { e.clear(); } } clear{errors};
    std::unique_ptr<Opm::EclipseState> es;
    try { es = std::make_unique<Opm::EclipseState>(*deck); stage = "eclipse_state"; } catch (const std::exception&) {}
    if (es) {
        std::unique_ptr<Opm::Schedule> sched;
        try { sched = std::make_unique<Opm::Schedule>(*deck, *es, ctx, errors, std::make_shared<Opm::Python>()); stage = "schedule"; }
        catch (const std::exception&) {}
        if (sched) {
            try { Opm::SummaryConfig sc(*deck, *sched, es->fieldProps(), es->aquifer(), ctx, errors); stage = "summary_config"; }
            catch (const std::exception&) {}
        }
    }
    out.kv_s("stage", stage);
}
