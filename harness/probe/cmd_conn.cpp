// Commands for C06 (well connection factors / connection lists).
// Observations only: the Peaceman reference and the connection-list model live in checks/c06.py.
#include "probe.hpp"

#include <opm/input/eclipse/Deck/Deck.hpp>
#include <opm/input/eclipse/EclipseState/Grid/EclipseGrid.hpp>
#include <opm/input/eclipse/EclipseState/Grid/FieldPropsManager.hpp>
#include <opm/input/eclipse/EclipseState/Runspec.hpp>
#include <opm/input/eclipse/EclipseState/Tables/TableManager.hpp>
#include <opm/input/eclipse/Parser/ErrorGuard.hpp>
#include <opm/input/eclipse/Parser/InputErrorAction.hpp>
#include <opm/input/eclipse/Parser/ParseContext.hpp>
#include <opm/input/eclipse/Parser/Parser.hpp>
#include <opm/input/eclipse/Python/Python.hpp>
#include <opm/input/eclipse/Schedule/Schedule.hpp>
#include <opm/input/eclipse/Schedule/Well/Connection.hpp>
#include <opm/input/eclipse/Schedule/Well/Well.hpp>
#include <opm/input/eclipse/Schedule/Well/WellConnections.hpp>

#include <memory>
#include <string>
#include <vector>

using namespace probe;

namespace {

struct Guard {
    // ErrorGuard's destructor terminates the process when errors are pending: always clear first
    Opm::ErrorGuard errors;
    ~Guard() { errors.clear(); }
};

} // namespace

// deck text -> Schedule; for every asked well and every report step the connection list as returned by
// Schedule::getWell(name, step).getConnections(), in that order.
//   deck  : full deck text (RUNSPEC..SCHEDULE)
//   wells : well names
//   cells : optional [[i,j,k],...] (0-based): EclipseGrid::getCellDims + depth are reported (diagnostics)
PROBE_CMD(conn_sched)
{
    static const Opm::Parser parser;
    const Opm::ParseContext ctx(Opm::InputErrorAction::THROW_EXCEPTION);
    Guard g;
    const auto deck = parser.parseString(jstr(req, "deck"), ctx, g.errors);
    Opm::EclipseGrid grid(deck);
    const Opm::TableManager tables(deck);
    const Opm::Runspec runspec(deck);
    const Opm::FieldPropsManager fp(deck, runspec.phases(), grid, tables);
    const Opm::Schedule sched(deck, grid, fp, runspec, ctx, g.errors, std::make_shared<Opm::Python>());

    const auto nstep = sched.size();
    out.kv_i("steps", nstep);
    out.key("wells").obj();
    for (const auto& wname : jstrs(jget(req, "wells"))) {
        out.key(wname).arr();
        for (std::size_t step = 0; step < nstep; ++step) {
            if (!sched.hasWell(wname, step)) { out.null(); continue; }
            const auto& well = sched.getWell(wname, step);
            const auto& conns = well.getConnections();
            out.obj();
            out.kv_s("order", Opm::Connection::Order2String(conns.ordering()));
            out.kv_s("status", Opm::WellStatus2String(well.getStatus()));
            out.key("conns").arr();
            for (std::size_t ic = 0; ic < conns.size(); ++ic) {
                const auto& c = conns[ic];
                out.obj();
                out.key("ijk").arr().i(c.getI()).i(c.getJ()).i(c.getK()).end_arr();
                out.kv_s("state", Opm::Connection::State2String(c.state()));
                out.kv_s("dir", Opm::Connection::Direction2String(c.dir()));
                out.kv_i("complnum", c.complnum());
                out.kv_i("sort", c.sort_value());
                out.kv_d("CF", c.CF());
                out.kv_d("Kh", c.Kh());
                out.kv_d("rw", c.rw());
                out.kv_d("r0", c.r0());
                out.kv_d("skin", c.skinFactor());
                // not asserted by C06; reported for diagnostics
                out.kv_d("Ke", c.Ke());
                out.kv_d("re", c.re());
                out.kv_d("len", c.connectionLength());
                out.kv_d("wpimult", c.wpimult());
                out.kv_i("kind", static_cast<int>(c.kind()));
                out.kv_i("gidx", c.global_index());
                out.kv_d("depth", c.depth());
                out.end_obj();
            }
            out.end_arr();
            out.end_obj();
        }
        out.end_arr();
    }
    out.end_obj();

    if (jhas(req, "cells")) {
        out.key("cells").arr();
        jforeach(jget(req, "cells"), [&](const cJSON* e) {
            const auto ijk = jints(e);
            const auto d = grid.getCellDims(ijk.at(0), ijk.at(1), ijk.at(2));
            out.arr().d(d[0]).d(d[1]).d(d[2]).d(grid.getCellDepth(ijk.at(0), ijk.at(1), ijk.at(2)))
               .b(grid.cellActive(ijk.at(0), ijk.at(1), ijk.at(2))).end_arr();
        });
        out.end_arr();
    }
}
