// Probe command of the "deck" group (built with the sanitizer flags for C20): a byte string opened as an Eclipse
// result file.  {cmd:ecl_open, kind:0..10, hex:"..."} -> {opened, arrays}.  The reader-driving code is shared with
// the libFuzzer target (harness/ecl_drive.hpp).  Observations only: a crash is seen by the client as a dead probe.
#include "probe.hpp"
#include <ecl_drive.hpp>

#include <cstdlib>
#include <string>
#include <vector>

using namespace probe;

PROBE_CMD(ecl_open) {
    const std::string hex = jstr(req, "hex");
    std::vector<uint8_t> data;
    data.reserve(hex.size() / 2);
    auto nib = [](char c) -> int { return (c >= '0' && c <= '9') ? c - '0' : (c >= 'a' && c <= 'f') ? c - 'a' + 10 : (c >= 'A' && c <= 'F') ? c - 'A' + 10 : 0; };
    for (std::size_t i = 0; i + 1 < hex.size(); i += 2) data.push_back(uint8_t(nib(hex[i]) * 16 + nib(hex[i + 1])));
    const char* tmp = std::getenv("VERIF_TMP");
    const std::string dir = tmp ? tmp : "/tmp";
    ecldrive::Counters c;
    ecldrive::drive(unsigned(jint(req, "kind")) % 11, data.data(), data.size(), dir, c);
    out.kv_i("opened", (long long)c.opened);
    out.kv_i("arrays", (long long)c.arrays);
}
