// Commands for C09 (summary vectors: definitions, accumulation, group hierarchy).
// Observations only: deck text -> EclipseState/Schedule/SummaryConfig -> out::Summary::eval(...) driven with the
// simulator results given in the request -> values read back from the SummaryState.  The oracle lives in
// checks/c09.py.
#include "probe.hpp"

#include <opm/input/eclipse/Deck/Deck.hpp>
#include <opm/input/eclipse/EclipseState/EclipseState.hpp>
#include <opm/input/eclipse/EclipseState/Grid/EclipseGrid.hpp>
#include <opm/input/eclipse/EclipseState/SummaryConfig/SummaryConfig.hpp>
#include <opm/input/eclipse/Parser/ErrorGuard.hpp>
#include <opm/input/eclipse/Parser/InputErrorAction.hpp>
#include <opm/input/eclipse/Parser/ParseContext.hpp>
#include <opm/input/eclipse/Parser/Parser.hpp>
#include <opm/input/eclipse/Python/Python.hpp>
#include <opm/input/eclipse/Schedule/Schedule.hpp>
#include <opm/input/eclipse/Schedule/SummaryState.hpp>
#include <opm/input/eclipse/Schedule/Well/Well.hpp>

#include <opm/common/utility/TimeService.hpp>

#include <opm/output/data/Groups.hpp>
#include <opm/output/data/Wells.hpp>
#include <opm/output/eclipse/Inplace.hpp>
#include <opm/output/eclipse/Summary.hpp>

#include <memory>
#include <string>
#include <vector>

using namespace probe;
using rt = Opm::data::Rates::opt;

namespace {

struct Guard {
    // ErrorGuard's destructor terminates the process when errors are pending: always clear first
    Opm::ErrorGuard errors;
    ~Guard() { errors.clear(); }
};

const cJSON* at(const cJSON* a, int i)
{
    const cJSON* e = cJSON_GetArrayItem(a, i);
    if (!e) throw BadRequest("array too short");
    return e;
}

// [name, status (0 OPEN, 1 STOP, 2 SHUT), isProducer, [wat, oil, gas, resv_wat, resv_oil, resv_gas]]  (SI, m3/s)
void add_well(const cJSON* e, Opm::data::Wells& wells)
{
    Opm::data::Well w;
    const auto r = jdoubles(at(e, 3));
    if (r.size() != 6) throw BadRequest("need 6 rates");
    w.rates.set(rt::wat, r[0]);
    w.rates.set(rt::oil, r[1]);
    w.rates.set(rt::gas, r[2]);
    w.rates.set(rt::reservoir_water, r[3]);
    w.rates.set(rt::reservoir_oil, r[4]);
    w.rates.set(rt::reservoir_gas, r[5]);
    switch (jint(at(e, 1))) {
    case 0: w.dynamicStatus = Opm::Well::Status::OPEN; break;
    case 1: w.dynamicStatus = Opm::Well::Status::STOP; break;
    default: w.dynamicStatus = Opm::Well::Status::SHUT; break;
    }
    w.current_control.isProducer = jint(at(e, 2)) != 0;
    wells[jstr(at(e, 0))] = w;
}

} // namespace

// {cmd:summary_run, deck, wells:[..], groups:[..], wkeys:[..], gkeys:[..], fkeys:[..],
//  evals:[{rs, t, w:[[name,status,isProducer,[6 rates]],...]}, ...]}
// -> {steps, secs:[schedule.seconds(i)], start, evals:[{w:[[..per key] per well], g:[[..] per group], f:[..],
//     elapsed, nkeys, var_mismatch:[keys whose get() and get_well_var()/get_group_var() differ]}]}
// a value is null when the SummaryState does not hold the vector
PROBE_CMD(summary_run)
{
    static const Opm::Parser parser;
    const Opm::ParseContext ctx(Opm::InputErrorAction::THROW_EXCEPTION);
    Guard g;
    const auto deck = parser.parseString(jstr(req, "deck"), ctx, g.errors);
    const Opm::EclipseState es(deck);
    const Opm::Schedule sched(deck, es, ctx, g.errors, std::make_shared<Opm::Python>());
    Opm::SummaryConfig cfg(deck, sched, es.fieldProps(), es.aquifer(), ctx, g.errors);

    const auto wells = jstrs(jget(req, "wells"));
    const auto groups = jstrs(jget(req, "groups"));
    const auto wkeys = jstrs(jget(req, "wkeys"));
    const auto gkeys = jstrs(jget(req, "gkeys"));
    const auto fkeys = jstrs(jget(req, "fkeys"));

    out.kv_i("steps", sched.size());
    out.key("secs").arr();
    for (std::size_t i = 0; i < sched.size(); ++i) out.d(sched.seconds(i));
    out.end_arr();
    out.kv_i("start", (long long)sched.getStartTime());
    out.kv_i("nodes", cfg.size());

    Opm::SummaryState st(Opm::TimeService::from_time_t(sched.getStartTime()),
                         es.runspec().udqParams().undefinedValue());
    Opm::out::Summary smry(cfg, es, es.getInputGrid(), sched, scratch_dir() + "/C09CASE");

    const Opm::data::WellBlockAveragePressures wbp{};
    const Opm::data::GroupAndNetworkValues grp_nwrk{};

    out.key("evals").arr();
    jforeach(jget(req, "evals"), [&](const cJSON* ev) {
        Opm::data::Wells xw;
        jforeach(jget(ev, "w"), [&](const cJSON* e) { add_well(e, xw); });
        smry.eval(st, (int)jint(ev, "rs"), jdouble(ev, "t"), xw, wbp, grp_nwrk, {}, Opm::Inplace{}, Opm::Inplace{});

        std::vector<std::string> mism;
        out.obj();
        out.key("w").arr();
        for (const auto& w : wells) {
            out.arr();
            for (const auto& k : wkeys) {
                const auto key = k + ":" + w;
                const bool h1 = st.has(key), h2 = st.has_well_var(w, k);
                if (h1 != h2) mism.push_back(key);
                if (!h2) { out.null(); continue; }
                const double v = st.get_well_var(w, k);
                if (h1 && !(st.get(key) == v)) mism.push_back(key);
                out.d(v);
            }
            out.end_arr();
        }
        out.end_arr();
        out.key("g").arr();
        for (const auto& gr : groups) {
            out.arr();
            for (const auto& k : gkeys) {
                const auto key = k + ":" + gr;
                const bool h1 = st.has(key), h2 = st.has_group_var(gr, k);
                if (h1 != h2) mism.push_back(key);
                if (!h2) { out.null(); continue; }
                const double v = st.get_group_var(gr, k);
                if (h1 && !(st.get(key) == v)) mism.push_back(key);
                out.d(v);
            }
            out.end_arr();
        }
        out.end_arr();
        out.key("f").arr();
        for (const auto& k : fkeys) {
            if (!st.has(k)) { out.null(); continue; }
            out.d(st.get(k));
        }
        out.end_arr();
        out.kv_d("elapsed", st.get_elapsed());
        out.key("var_mismatch").arr();
        for (const auto& m : mism) out.str(m);
        out.end_arr();
        out.end_obj();
    });
    out.end_arr();
}
