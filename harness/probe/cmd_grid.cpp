// Commands for C13 (EclipseGrid / GridDims / ActiveGridCells / EGrid / NNC / MapAxes).
// Observations only: every public query named in the property's observe_at is
// evaluated and returned; the oracle lives in checks/c13.py.
#include "probe.hpp"

#include <opm/common/utility/ActiveGridCells.hpp>
#include <opm/input/eclipse/Deck/Deck.hpp>
#include <opm/input/eclipse/EclipseState/Grid/EclipseGrid.hpp>
#include <opm/input/eclipse/EclipseState/Grid/MapAxes.hpp>
#include <opm/input/eclipse/EclipseState/Grid/NNC.hpp>
#include <opm/input/eclipse/Parser/ErrorGuard.hpp>
#include <opm/input/eclipse/Parser/InputErrorAction.hpp>
#include <opm/input/eclipse/Parser/ParseContext.hpp>
#include <opm/input/eclipse/Parser/Parser.hpp>
#include <opm/input/eclipse/Units/UnitSystem.hpp>
#include <opm/io/eclipse/EGrid.hpp>
#include <opm/io/eclipse/EclFile.hpp>

#include <array>
#include <stdexcept>
#include <string>
#include <vector>

using namespace probe;

namespace {

Opm::Deck parse(const std::string& text) {
    Opm::ParseContext ctx(Opm::InputErrorAction::THROW_EXCEPTION);
    Opm::ErrorGuard guard;
    Opm::Parser parser;
    try {
        auto deck = parser.parseString(text, ctx, guard);
        guard.clear();
        return deck;
    } catch (...) {
        guard.clear();
        throw;
    }
}

void put3(JW& out, const std::array<double, 3>& a) {
    out.arr().d(a[0]).d(a[1]).d(a[2]).end_arr();
}

void dump_mapaxes(JW& out, const Opm::EclipseGrid& g) {
    out.key("mapaxes");
    const auto& ma = g.getMapAxes();
    if (!ma.has_value()) { out.null(); return; }
    out.obj();
    out.key("input").arr();
    for (float f : ma->input()) out.f(f);
    out.end_arr();
    out.key("mapunits");
    if (ma->mapunits().has_value()) out.str(*ma->mapunits()); else out.null();
    // the transformation the object stands for, sampled at three points
    out.key("transform").arr();
    const double pts[3][2] = {{0.0, 0.0}, {100.0, 0.0}, {0.0, 100.0}};
    for (auto& p : pts) {
        double x = p[0], y = p[1];
        ma->transform(x, y);
        out.arr().d(x).d(y).end_arr();
    }
    out.end_arr();
    out.end_obj();
}

// Full observation of one grid.  Order matters and is fixed: per-cell volumes are
// read BEFORE activeVolume() (direct path), then activeVolume() (OpenMP loop), then
// per-cell volumes again (cached path).
void dump_grid(JW& out, const Opm::EclipseGrid& g, bool geometry, bool arrays) {
    const std::size_t nx = g.getNX(), ny = g.getNY(), nz = g.getNZ();
    const std::size_t n = g.getCartesianSize();
    out.kv_i("nx", nx).kv_i("ny", ny).kv_i("nz", nz).kv_i("size", n);
    {
        auto d = g.getNXYZ();
        out.key("nxyz").arr().i(d[0]).i(d[1]).i(d[2]).end_arr();
    }
    out.kv_i("nactive", g.getNumActive()).kv_b("all_active", g.allActive());
    out.key("actnum").arr();
    for (int a : g.getACTNUM()) out.i(a);
    out.end_arr();
    out.key("active_map").arr();
    for (int a : g.getActiveMap()) out.i(a);
    out.end_arr();

    // (i,j,k) -> global, loop order k,j,i
    out.key("gidx_ijk").arr();
    for (std::size_t k = 0; k < nz; ++k)
        for (std::size_t j = 0; j < ny; ++j)
            for (std::size_t i = 0; i < nx; ++i)
                out.u(g.getGlobalIndex(i, j, k));
    out.end_arr();
    out.key("ijk").arr();
    for (std::size_t c = 0; c < n; ++c) {
        auto t = g.getIJK(c);
        out.arr().i(t[0]).i(t[1]).i(t[2]).end_arr();
    }
    out.end_arr();
    out.key("cell_active").arr();
    for (std::size_t c = 0; c < n; ++c) out.i(g.cellActive(c) ? 1 : 0);
    out.end_arr();
    out.key("cell_active_ijk").arr();
    for (std::size_t k = 0; k < nz; ++k)
        for (std::size_t j = 0; j < ny; ++j)
            for (std::size_t i = 0; i < nx; ++i)
                out.i(g.cellActive(i, j, k) ? 1 : 0);
    out.end_arr();
    // active index per global cell; the documented refusal for inactive cells is an observation (-1)
    out.key("active_index").arr();
    for (std::size_t c = 0; c < n; ++c) {
        try { out.i((long long)g.activeIndex(c)); }
        catch (const std::invalid_argument&) { out.i(-1); }
    }
    out.end_arr();
    out.key("active_index_ijk").arr();
    for (std::size_t k = 0; k < nz; ++k)
        for (std::size_t j = 0; j < ny; ++j)
            for (std::size_t i = 0; i < nx; ++i) {
                try { out.i((long long)g.activeIndex(i, j, k)); }
                catch (const std::invalid_argument&) { out.i(-1); }
            }
    out.end_arr();
    out.key("global_of_active").arr();
    for (std::size_t a = 0; a < g.getNumActive(); ++a) out.u(g.getGlobalIndex(a));
    out.end_arr();
    // compressedVector of the identity: a fourth route through the active map
    {
        std::vector<int> ident(n);
        for (std::size_t c = 0; c < n; ++c) ident[c] = (int)c;
        out.key("compressed_identity").arr();
        for (int v : g.compressedVector(ident)) out.i(v);
        out.end_arr();
    }
    // ActiveGridCells built from the grid's own active map
    {
        const auto& am = g.getActiveMap();
        Opm::ActiveGridCells agc(nx, ny, nz, am.data(), am.size());
        out.key("agc_local").arr();
        for (std::size_t c = 0; c < n; ++c) out.i(agc.localCell(c));
        out.end_arr();
        out.key("agc_local_ijk").arr();
        for (std::size_t k = 0; k < nz; ++k)
            for (std::size_t j = 0; j < ny; ++j)
                for (std::size_t i = 0; i < nx; ++i)
                    out.i(agc.localCell(i, j, k));
        out.end_arr();
        out.key("agc_active").arr();
        for (std::size_t c = 0; c < n; ++c) out.i(agc.cellActive(c) ? 1 : 0);
        out.end_arr();
        out.key("agc_actnum").arr();
        for (int a : agc.actNum()) out.i(a);
        out.end_arr();
    }

    if (geometry) {
        out.key("vol_direct").arr();
        for (std::size_t c = 0; c < n; ++c) out.d(g.getCellVolume(c));
        out.end_arr();
        out.key("center").arr();
        for (std::size_t c = 0; c < n; ++c) put3(out, g.getCellCenter(c));
        out.end_arr();
        out.key("depth").arr();
        for (std::size_t c = 0; c < n; ++c) out.d(g.getCellDepth(c));
        out.end_arr();
        out.key("dims").arr();
        for (std::size_t c = 0; c < n; ++c) put3(out, g.getCellDims(c));
        out.end_arr();
        out.key("thickness").arr();
        for (std::size_t c = 0; c < n; ++c) out.d(g.getCellThickness(c));
        out.end_arr();
        // the (i,j,k) overloads
        out.key("vol_ijk").arr();
        for (std::size_t k = 0; k < nz; ++k)
            for (std::size_t j = 0; j < ny; ++j)
                for (std::size_t i = 0; i < nx; ++i)
                    out.d(g.getCellVolume(i, j, k));
        out.end_arr();
        out.key("depth_ijk").arr();
        for (std::size_t k = 0; k < nz; ++k)
            for (std::size_t j = 0; j < ny; ++j)
                for (std::size_t i = 0; i < nx; ++i)
                    out.d(g.getCellDepth(i, j, k));
        out.end_arr();
        out.key("center_ijk").arr();
        for (std::size_t k = 0; k < nz; ++k)
            for (std::size_t j = 0; j < ny; ++j)
                for (std::size_t i = 0; i < nx; ++i)
                    put3(out, g.getCellCenter(i, j, k));
        out.end_arr();
        out.key("corners").arr();
        for (std::size_t k = 0; k < nz; ++k)
            for (std::size_t j = 0; j < ny; ++j)
                for (std::size_t i = 0; i < nx; ++i) {
                    out.arr();
                    for (std::size_t c = 0; c < 8; ++c) put3(out, g.getCornerPos(i, j, k, c));
                    out.end_arr();
                }
        out.end_arr();
    }
    out.key("active_volume").arr();
    for (double v : g.activeVolume()) out.d(v);
    out.end_arr();
    out.key("vol_cached").arr();
    for (std::size_t c = 0; c < n; ++c) out.d(g.getCellVolume(c));
    out.end_arr();
    if (arrays) {
        out.key("coord").arr();
        for (double v : g.getCOORD()) out.d(v);
        out.end_arr();
        out.key("zcorn").arr();
        for (double v : g.getZCORN()) out.d(v);
        out.end_arr();
    }
    dump_mapaxes(out, g);
}

} // namespace

// {deck, geometry?:bool, arrays?:bool, save?: {path, formatted}}
// -> grid observations [+ nnc_input (what was handed to save), deck unit name]
PROBE_CMD(grid_obs) {
    const auto deck = parse(jstr(req, "deck"));
    Opm::EclipseGrid grid(deck);
    out.key("grid").obj();
    dump_grid(out, grid, jbool(req, "geometry", true), jbool(req, "arrays", true));
    out.end_obj();
    out.kv_s("deck_units", deck.getActiveUnitSystem().getName());
    if (jhas(req, "save")) {
        const cJSON* s = jget(req, "save");
        const Opm::NNC nnc(grid, deck);
        out.key("nnc_input").arr();
        for (const auto& n : nnc.input()) out.arr().u(n.cell1).u(n.cell2).d(n.trans).end_arr();
        out.end_arr();
        // the refusal of a unit system is an observation of save(), not of the grid
        try {
            grid.save(jstr(s, "path"), jbool(s, "formatted"), nnc.input(), deck.getActiveUnitSystem());
            out.kv_b("saved", true);
        } catch (const std::exception& e) {
            out.kv_b("saved", false);
            out.kv_s("save_error", e.what());
        }
        if (jbool(s, "twice")) {
            // a second save of the same object (save() resets the cached input arrays)
            grid.save(jstr(s, "path") + ".2", jbool(s, "formatted"), nnc.input(), deck.getActiveUnitSystem());
        }
    }
}

// {deck} -> the thread-dependent part only: activeVolume() and per-cell volumes
PROBE_CMD(grid_vol) {
    const auto deck = parse(jstr(req, "deck"));
    Opm::EclipseGrid grid(deck);
    const std::size_t n = grid.getCartesianSize();
    out.kv_i("size", n).kv_i("nactive", grid.getNumActive());
    if (jbool(req, "direct", false)) {
        out.key("vol_direct").arr();
        for (std::size_t c = 0; c < n; ++c) out.d(grid.getCellVolume(c));
        out.end_arr();
    }
    out.key("active_volume").arr();
    for (double v : grid.activeVolume()) out.d(v);
    out.end_arr();
    out.key("vol_cached").arr();
    for (std::size_t c = 0; c < n; ++c) out.d(grid.getCellVolume(c));
    out.end_arr();
}

// {deck, actnum:[...], route} -> index observations of a grid whose activity was set through
// another public route: "ctor" EclipseGrid(deck, actnum*), "reset" resetACTNUM(vector) after the
// volume cache was filled, "copy" EclipseGrid(src, actnum), "reset_all" resetACTNUM()
PROBE_CMD(grid_actnum) {
    const auto deck = parse(jstr(req, "deck"));
    const std::vector<int> actnum = jints(jget(req, "actnum"));
    const std::string route = jstr(req, "route");
    out.key("grid").obj();
    if (route == "ctor") {
        Opm::EclipseGrid grid(deck, actnum.data());
        dump_grid(out, grid, false, false);
    } else if (route == "reset") {
        Opm::EclipseGrid grid(deck);
        // actnum0: an earlier activity (e.g. another mask with the SAME number of active cells) under which the
        // volume cache is filled before the final mask is set
        if (jhas(req, "actnum0")) grid.resetACTNUM(jints(jget(req, "actnum0")));
        (void)grid.activeVolume();
        grid.resetACTNUM(actnum);
        dump_grid(out, grid, false, false);
    } else if (route == "copy") {
        Opm::EclipseGrid src(deck);
        if (jhas(req, "actnum0")) src.resetACTNUM(jints(jget(req, "actnum0")));
        (void)src.activeVolume();
        Opm::EclipseGrid grid(src, actnum);
        dump_grid(out, grid, false, false);
    } else if (route == "reset_all") {
        Opm::EclipseGrid grid(deck);
        (void)grid.activeVolume();
        grid.resetACTNUM();
        dump_grid(out, grid, false, false);
    } else throw BadRequest("route");
    out.end_obj();
}

// {path} -> EclipseGrid(filename) observations + what the EGrid reader and the raw file say
PROBE_CMD(grid_load) {
    const std::string path = jstr(req, "path");
    {
        Opm::EclipseGrid grid(path);
        out.key("grid").obj();
        dump_grid(out, grid, jbool(req, "geometry", true), true);
        out.end_obj();
    }
    {
        Opm::EclIO::EGrid eg(path);
        out.key("egrid").obj();
        const auto& d = eg.dimension();
        out.key("dimension").arr().i(d[0]).i(d[1]).i(d[2]).end_arr();
        out.kv_i("active_cells", eg.activeCells()).kv_i("total_cells", eg.totalNumberOfCells());
        out.kv_b("radial", eg.is_radial());
        out.kv_b("formatted", eg.formattedInput());
        out.key("mapaxes").arr();
        for (float f : eg.get_mapaxes()) out.f(f);
        out.end_arr();
        out.kv_s("mapunits", eg.get_mapunits());
        out.key("active_index").arr();
        for (int k = 0; k < d[2]; ++k)
            for (int j = 0; j < d[1]; ++j)
                for (int i = 0; i < d[0]; ++i)
                    out.i(eg.active_index(i, j, k));
        out.end_arr();
        out.key("global_index").arr();
        for (int k = 0; k < d[2]; ++k)
            for (int j = 0; j < d[1]; ++j)
                for (int i = 0; i < d[0]; ++i)
                    out.i(eg.global_index(i, j, k));
        out.end_arr();
        out.key("ijk_from_global").arr();
        for (int c = 0; c < eg.totalNumberOfCells(); ++c) {
            auto t = eg.ijk_from_global_index(c);
            out.arr().i(t[0]).i(t[1]).i(t[2]).end_arr();
        }
        out.end_arr();
        out.key("ijk_from_active").arr();
        for (int a = 0; a < eg.activeCells(); ++a) {
            auto t = eg.ijk_from_active_index(a);
            out.arr().i(t[0]).i(t[1]).i(t[2]).end_arr();
        }
        out.end_arr();
        out.key("nnc_ijk").arr();
        for (const auto& e : eg.get_nnc_ijk())
            out.arr().i(std::get<0>(e)).i(std::get<1>(e)).i(std::get<2>(e))
               .i(std::get<3>(e)).i(std::get<4>(e)).i(std::get<5>(e)).end_arr();
        out.end_arr();
        if (jbool(req, "geometry", true)) {
            // one surface at a time, read straight from the file by a reader that has not loaded ZCORN yet (unformatted
            // files only), against the corners of the fully loaded reader: two public routes to the same numbers
            std::vector<std::vector<std::array<float, 3>>> surf;
            std::string surf_error;
            if (!eg.formattedInput()) {
                try {
                    Opm::EclIO::EGrid eg2(path);
                    for (int k = 0; k < d[2]; ++k)
                        for (int b = 0; b < 2; ++b) surf.push_back(eg2.getXYZ_layer(k, b == 1));
                } catch (const std::exception& e) { surf_error = e.what(); }
            }
            out.key("corners").arr();
            long surf_checked = 0;
            std::string surf_mismatch;
            for (int c = 0; c < eg.totalNumberOfCells(); ++c) {
                std::array<double, 8> X{}, Y{}, Z{};
                eg.getCellCorners(c, X, Y, Z);
                out.arr();
                for (int q = 0; q < 8; ++q) out.arr().d(X[q]).d(Y[q]).d(Z[q]).end_arr();
                out.end_arr();
                if (!surf.empty() && surf_mismatch.empty()) {
                    const int k = c / (d[0] * d[1]), ij = c % (d[0] * d[1]);
                    for (int q = 0; q < 8; ++q) {
                        const auto& sf = surf[2 * k + (q >= 4 ? 1 : 0)];
                        const std::size_t idx = (std::size_t)ij * 4 + (q % 4);
                        ++surf_checked;
                        if (idx >= sf.size() || sf[idx][0] != (float)X[q] || sf[idx][1] != (float)Y[q] || sf[idx][2] != (float)Z[q]) {
                            surf_mismatch = "cell " + std::to_string(c) + " corner " + std::to_string(q) + ": getXYZ_layer z="
                                + (idx < sf.size() ? std::to_string(sf[idx][2]) : std::string("<missing>")) + " getCellCorners z=" + std::to_string(Z[q]);
                            break;
                        }
                    }
                }
            }
            out.end_arr();
            out.kv_i("xyz_layer_checked", surf_checked).kv_s("xyz_layer_mismatch", surf_mismatch).kv_s("xyz_layer_error", surf_error);
        }
        out.end_obj();
    }
    {
        // raw arrays of the file
        Opm::EclIO::EclFile f(path);
        out.key("file").obj();
        out.key("names").arr();
        for (const auto& e : f.getList()) out.str(std::get<0>(e));
        out.end_arr();
        out.key("gridunit").arr();
        for (const auto& s : f.get<std::string>("GRIDUNIT")) out.str(s);
        out.end_arr();
        out.key("gridhead").arr();
        for (int v : f.get<int>("GRIDHEAD")) out.i(v);
        out.end_arr();
        out.key("filehead").arr();
        for (int v : f.get<int>("FILEHEAD")) out.i(v);
        out.end_arr();
        out.key("coord").arr();
        for (float v : f.get<float>("COORD")) out.f(v);
        out.end_arr();
        out.key("zcorn").arr();
        for (float v : f.get<float>("ZCORN")) out.f(v);
        out.end_arr();
        out.key("actnum");
        if (f.hasKey("ACTNUM")) {
            out.arr();
            for (int v : f.get<int>("ACTNUM")) out.i(v);
            out.end_arr();
        } else out.null();
        out.key("mapaxes");
        if (f.hasKey("MAPAXES")) {
            out.arr();
            for (float v : f.get<float>("MAPAXES")) out.f(v);
            out.end_arr();
        } else out.null();
        out.key("mapunits");
        if (f.hasKey("MAPUNITS")) out.str(f.get<std::string>("MAPUNITS")[0]); else out.null();
        for (const char* nm : {"NNCHEAD", "NNC1", "NNC2"}) {
            out.key(nm);
            if (f.hasKey(nm)) {
                out.arr();
                for (int v : f.get<int>(nm)) out.i(v);
                out.end_arr();
            } else out.null();
        }
        out.end_obj();
    }
}
