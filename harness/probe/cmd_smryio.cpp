// Commands for C10: summary writer (out::Summary) and the three summary readers
// (ESmry, ESmry::make_esmry_file, ExtESmry).  Observations only.
#include "probe.hpp"

#include <opm/io/eclipse/ESmry.hpp>
#include <opm/io/eclipse/ExtESmry.hpp>

#include <opm/output/data/Aquifer.hpp>
#include <opm/output/data/Groups.hpp>
#include <opm/output/data/InterRegFlowMap.hpp>
#include <opm/output/data/Wells.hpp>
#include <opm/output/eclipse/Inplace.hpp>
#include <opm/output/eclipse/Summary.hpp>

#include <opm/input/eclipse/Deck/Deck.hpp>
#include <opm/input/eclipse/EclipseState/EclipseState.hpp>
#include <opm/input/eclipse/EclipseState/IOConfig/IOConfig.hpp>
#include <opm/input/eclipse/EclipseState/SummaryConfig/SummaryConfig.hpp>
#include <opm/input/eclipse/Parser/ErrorGuard.hpp>
#include <opm/input/eclipse/Parser/InputErrorAction.hpp>
#include <opm/input/eclipse/Parser/ParseContext.hpp>
#include <opm/input/eclipse/Parser/Parser.hpp>
#include <opm/input/eclipse/Python/Python.hpp>
#include <opm/input/eclipse/Schedule/Schedule.hpp>
#include <opm/input/eclipse/Schedule/SummaryState.hpp>

#include <opm/common/utility/TimeService.hpp>

#include <chrono>
#include <memory>
#include <string>
#include <vector>

using namespace probe;
namespace E = Opm::EclIO;

namespace {

long long to_secs(const Opm::time_point& tp)
{
    return std::chrono::duration_cast<std::chrono::seconds>(tp.time_since_epoch()).count();
}

} // namespace

// {cmd:smry_write, deck, dir, base, esmry, blocks:[[kw,num]...], singles:[name...], regnames:[name...],
//  wells:[name...], keys:[SummaryState key...],
//  steps:[{rs, t, sub, flush, final, bv:[..], sv:[..], rv:[[..]..], wv:[[wat,oil,gas,bhp,thp]..]}]}
// -> {st:[[value-or-null per key] per step]}   (what the writer was given: SummaryState::get)
PROBE_CMD(smry_write) {
    Opm::ParseContext pc(Opm::InputErrorAction::WARN);
    pc.update(Opm::ParseContext::PARSE_MISSING_INCLUDE, Opm::InputErrorAction::THROW_EXCEPTION);
    Opm::ErrorGuard eg;
    struct Clear { Opm::ErrorGuard& g; ~Clear() { g.clear(); } } clear{eg};

    // deck_path: the deck text has been written there by the caller (a restart deck resolves its RESTART root
    // relative to the directory of the deck file)
    const auto deck = jhas(req, "deck_path") ? Opm::Parser{}.parseFile(jstr(req, "deck_path"), pc, eg)
                                             : Opm::Parser{}.parseString(jstr(req, "deck"), pc, eg);
    Opm::EclipseState es(deck);
    es.getIOConfig().setOutputDir(jstr(req, "dir"));
    es.getIOConfig().setBaseName(jstr(req, "base"));
    Opm::Schedule sched(deck, es, pc, eg, std::make_shared<Opm::Python>());
    Opm::SummaryConfig cfg(deck, sched, es.fieldProps(), es.aquifer(), pc, eg);
    eg.clear();

    std::vector<std::pair<std::string, int>> blocks;
    if (jhas(req, "blocks"))
        jforeach(jget(req, "blocks"), [&](const cJSON* e) {
            blocks.emplace_back(jstr(cJSON_GetArrayItem(e, 0)), (int)jint(cJSON_GetArrayItem(e, 1)));
        });
    const auto singles = jhas(req, "singles") ? jstrs(jget(req, "singles")) : std::vector<std::string>{};
    const auto regnames = jhas(req, "regnames") ? jstrs(jget(req, "regnames")) : std::vector<std::string>{};
    const auto wells = jhas(req, "wells") ? jstrs(jget(req, "wells")) : std::vector<std::string>{};
    const auto keys = jstrs(jget(req, "keys"));

    Opm::SummaryState st(Opm::TimeService::from_time_t(sched.getStartTime()),
                         es.runspec().udqParams().undefinedValue());
    Opm::out::Summary writer(cfg, es, es.getInputGrid(), sched, jstr(req, "base"), jbool(req, "esmry"));

    out.key("st").arr();
    jforeach(jget(req, "steps"), [&](const cJSON* s) {
        Opm::out::Summary::BlockValues bv;
        Opm::out::Summary::GlobalProcessParameters sv;
        Opm::out::Summary::RegionParameters rv;
        Opm::data::Wells wv;
        if (jhas(s, "bv")) {
            const auto v = jdoubles(jget(s, "bv"));
            for (std::size_t i = 0; i < blocks.size() && i < v.size(); ++i) bv[blocks[i]] = v[i];
        }
        if (jhas(s, "sv")) {
            const auto v = jdoubles(jget(s, "sv"));
            for (std::size_t i = 0; i < singles.size() && i < v.size(); ++i) sv[singles[i]] = v[i];
        }
        if (jhas(s, "rv")) {
            std::size_t i = 0;
            jforeach(jget(s, "rv"), [&](const cJSON* e) {
                if (i < regnames.size()) rv[regnames[i]] = jdoubles(e);
                ++i;
            });
        }
        if (jhas(s, "wv")) {
            std::size_t i = 0;
            using rt = Opm::data::Rates::opt;
            jforeach(jget(s, "wv"), [&](const cJSON* e) {
                if (i < wells.size()) {
                    const auto v = jdoubles(e);
                    Opm::data::Well w;
                    w.rates.set(rt::wat, v.at(0)).set(rt::oil, v.at(1)).set(rt::gas, v.at(2));
                    w.bhp = v.at(3);
                    w.thp = v.at(4);
                    wv[wells[i]] = w;
                }
                ++i;
            });
        }
        const int rs = (int)jint(s, "rs");
        writer.eval(st, rs, jdouble(s, "t"), wv, {}, {}, sv, {}, {}, rv, bv, {}, {});
        out.arr();
        for (const auto& k : keys) {
            if (st.has(k)) out.d(st.get(k));
            else out.null();
        }
        out.end_arr();
        writer.add_timestep(st, rs, jbool(s, "sub"));
        if (jbool(s, "flush")) writer.write(jbool(s, "final"));
    });
    out.end_arr();
}

namespace {

template <class Smry>
void dump_common(Smry& smry, const cJSON* req, JW& out)
{
    out.kv_i("nvect", smry.numberOfVectors());
    out.kv_i("ntstep", smry.numberOfTimeSteps());
    out.key("keywords").arr();
    for (const auto& k : smry.keywordList()) out.str(k);
    out.end_arr();
    out.key("start_v").arr();
    for (int v : smry.start_v()) out.i(v);
    out.end_arr();
    out.kv_i("startdate", to_secs(smry.startdate()));

    // "pre": [["get", key] | ["dates"] | ["rstep", key] | ["load_list", [keys...]] | ["load_all"], ...]
    // accesses made on the same object before the load / dump below (results discarded here; the dump repeats them)
    if (jhas(req, "pre")) {
        jforeach(jget(req, "pre"), [&](const cJSON* e) {
            const std::string what = jstr(cJSON_GetArrayItem(e, 0));
            if (what == "get") (void) smry.get(jstr(cJSON_GetArrayItem(e, 1)));
            else if (what == "dates") (void) smry.dates();
            else if (what == "rstep") (void) smry.get_at_rstep(jstr(cJSON_GetArrayItem(e, 1)));
            else if (what == "load_list") smry.loadData(jstrs(cJSON_GetArrayItem(e, 1)));
            else if (what == "load_all") smry.loadData();
        });
    }

    const std::string load = jstr(req, "load", "none");
    if (load == "all") smry.loadData();
    else if (load == "list") smry.loadData(jstrs(jget(req, "list")));

    const auto dump = jhas(req, "dump") ? jstrs(jget(req, "dump")) : std::vector<std::string>{};
    out.key("data").arr();
    for (const auto& k : dump) {
        out.arr();
        for (float v : smry.get(k)) out.f(v);
        out.end_arr();
    }
    out.end_arr();
    out.key("units").arr();
    for (const auto& k : dump) out.str(smry.get_unit(k));
    out.end_arr();
    out.key("has").arr();
    if (jhas(req, "haskeys"))
        for (const auto& k : jstrs(jget(req, "haskeys"))) out.b(smry.hasKey(k));
    out.end_arr();
    if (jbool(req, "dates", true)) {
        out.key("dates").arr();
        for (const auto& d : smry.dates()) out.i(to_secs(d));
        out.end_arr();
    }
    out.key("rstep").arr();
    if (jhas(req, "rstep_keys"))
        for (const auto& k : jstrs(jget(req, "rstep_keys"))) {
            out.arr();
            for (float v : smry.get_at_rstep(k)) out.f(v);
            out.end_arr();
        }
    out.end_arr();
    out.kv_b("all_steps", smry.all_steps_available());
}

} // namespace

// {cmd:smry_read, path(.SMSPEC|.FSMSPEC), base_run, load:"all"|"list"|"none", list:[..], dump:[..], rstep_keys:[..]}
PROBE_CMD(smry_read) {
    E::ESmry smry(jstr(req, "path"), jbool(req, "base_run"));
    dump_common(smry, req, out);
    const auto dr = smry.dates_at_rstep();
    out.key("dates_at_rstep").arr();
    for (const auto& d : dr) out.i(to_secs(d));
    out.end_arr();
    out.key("rstep_idx").arr();
    for (std::size_t r = 1; r <= dr.size(); ++r) out.i(smry.timestepIdxAtReportstepStart((int)r));
    out.end_arr();
}

// {cmd:smry_make_esmry, path} -> {made: bool}
PROBE_CMD(smry_make_esmry) {
    E::ESmry smry(jstr(req, "path"), false);
    out.kv_b("made", smry.make_esmry_file());
}

// {cmd:esmry_read, path(.ESMRY), base_run, load, list, dump, rstep_keys}
PROBE_CMD(esmry_read) {
    E::ExtESmry smry(jstr(req, "path"), jbool(req, "base_run"));
    dump_common(smry, req, out);
}
