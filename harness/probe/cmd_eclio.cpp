// Commands for C07 (EclOutput/EclFile), C08 (OutputStream::Restart / ERst)
#include "probe.hpp"

#include <opm/io/eclipse/EclFile.hpp>
#include <opm/io/eclipse/EclOutput.hpp>
#include <opm/io/eclipse/ERst.hpp>
#include <opm/io/eclipse/OutputStream.hpp>

#include <cstring>
#include <fstream>
#include <iterator>
#include <memory>

using namespace probe;
namespace E = Opm::EclIO;

namespace {

struct Arr {
    std::string name, type;
    int elsize = 8;
    std::vector<int> iv;
    std::vector<float> fv;
    std::vector<double> dv;
    std::vector<bool> bv;
    std::vector<std::string> sv;
};

Arr read_arr(const cJSON* a) {
    Arr r;
    r.name = jstr(a, "name");
    r.type = jstr(a, "type");
    r.elsize = (int)jint(a, "elsize", 8);
    if (r.type == "MESS") return r;
    const cJSON* d = jget(a, "data");
    if (r.type == "INTE") r.iv = jints(d);
    else if (r.type == "REAL") {
        jforeach(d, [&](const cJSON* e) {
            std::uint32_t bits = (std::uint32_t)jint(e);
            float f; std::memcpy(&f, &bits, 4); r.fv.push_back(f);
        });
    } else if (r.type == "DOUB") r.dv = jdoubles(d);
    else if (r.type == "LOGI") jforeach(d, [&](const cJSON* e) { r.bv.push_back(jint(e) != 0); });
    else if (r.type == "CHAR" || r.type == "C0NN") r.sv = jstrs(d);
    else throw BadRequest("bad type " + r.type);
    return r;
}

template <class Stream> void write_arr(Stream& s, const Arr& a);

template <> void write_arr<E::EclOutput>(E::EclOutput& s, const Arr& a) {
    if (a.type == "INTE") s.write(a.name, a.iv);
    else if (a.type == "REAL") s.write(a.name, a.fv);
    else if (a.type == "DOUB") s.write(a.name, a.dv);
    else if (a.type == "LOGI") s.write(a.name, a.bv);
    else if (a.type == "CHAR") s.write(a.name, a.sv);
    else if (a.type == "C0NN") s.write(a.name, a.sv, a.elsize);
    else if (a.type == "MESS") s.message(a.name);
}

template <> void write_arr<E::OutputStream::Restart>(E::OutputStream::Restart& s, const Arr& a) {
    if (a.type == "INTE") s.write(a.name, a.iv);
    else if (a.type == "REAL") s.write(a.name, a.fv);
    else if (a.type == "DOUB") s.write(a.name, a.dv);
    else if (a.type == "LOGI") s.write(a.name, a.bv);
    else if (a.type == "CHAR") s.write(a.name, a.sv);
    else if (a.type == "MESS") s.message(a.name);
    else throw BadRequest("type not supported by Restart stream");
}

const char* tname(E::eclArrType t) {
    switch (t) {
    case E::INTE: return "INTE";
    case E::REAL: return "REAL";
    case E::DOUB: return "DOUB";
    case E::CHAR: return "CHAR";
    case E::LOGI: return "LOGI";
    case E::MESS: return "MESS";
    case E::C0NN: return "C0NN";
    }
    return "?";
}

void dump_array(E::EclFile& f, int idx, E::eclArrType t, JW& out) {
    out.arr();
    switch (t) {
    case E::INTE: for (int v : f.get<int>(idx)) out.i(v); break;
    case E::REAL: for (float v : f.get<float>(idx)) out.f(v); break;
    case E::DOUB: for (double v : f.get<double>(idx)) out.d(v); break;
    case E::LOGI: for (bool v : f.get<bool>(idx)) out.i(v ? 1 : 0); break;
    case E::CHAR:
    case E::C0NN: for (const auto& v : f.get<std::string>(idx)) out.str(v); break;
    case E::MESS: break;
    }
    out.end_arr();
}

} // namespace

// {cmd:ecl_write, path, formatted, ix, append, arrays:[...]}
PROBE_CMD(ecl_write) {
    const std::string path = jstr(req, "path");
    const bool fmt = jbool(req, "formatted");
    std::vector<Arr> arrs;
    jforeach(jget(req, "arrays"), [&](const cJSON* a) { arrs.push_back(read_arr(a)); });
    {
        E::EclOutput o(path, fmt, jbool(req, "append") ? std::ios::app : std::ios::out);
        if (jbool(req, "ix")) o.set_ix();
        for (const auto& a : arrs) write_arr(o, a);
    }
    out.kv_i("n", arrs.size());
}

// {cmd:ecl_read, path, order:[i...], formatted(optional), preload}
// -> {list:[[name,type,size,elsize]...], data:{"i":[...]}, is_ix}
PROBE_CMD(ecl_read) {
    const std::string path = jstr(req, "path");
    std::unique_ptr<E::EclFile> f;
    if (jhas(req, "formatted"))
        f = std::make_unique<E::EclFile>(path, E::EclFile::Formatted{jbool(req, "formatted")}, jbool(req, "preload"));
    else
        f = std::make_unique<E::EclFile>(path, jbool(req, "preload"));
    auto list = f->getList();
    const auto& els = f->getElementSizeList();
    out.key("list").arr();
    for (std::size_t i = 0; i < list.size(); ++i) {
        out.arr().str(std::get<0>(list[i])).str(tname(std::get<1>(list[i])))
            .i(std::get<2>(list[i])).i(els[i]).end_arr();
    }
    out.end_arr();
    out.kv_i("size", f->size());
    out.kv_b("formatted", f->formattedInput());
    if (jbool(req, "load_all")) f->loadData();
    out.key("data").arr();
    if (jhas(req, "order")) {
        for (int idx : jints(jget(req, "order"))) {
            out.arr().i(idx);
            dump_array(*f, idx, std::get<1>(list.at(idx)), out);
            out.end_arr();
        }
    }
    out.end_arr();
    if (jbool(req, "by_name")) {
        // name-based access returns the first... (documented: last occurrence wins in array_index)
        out.key("has").arr();
        for (auto& e : list) out.b(f->hasKey(std::get<0>(e)));
        out.end_arr();
    }
}

// {cmd:rst_write, dir, base, formatted, unified, seqnum, arrays:[...]}: one report step
PROBE_CMD(rst_write) {
    E::OutputStream::ResultSet rset{jstr(req, "dir"), jstr(req, "base")};
    std::vector<Arr> arrs;
    jforeach(jget(req, "arrays"), [&](const cJSON* a) { arrs.push_back(read_arr(a)); });
    {
        E::OutputStream::Restart rst(rset, (int)jint(req, "seqnum"),
                                     E::OutputStream::Formatted{jbool(req, "formatted")},
                                     E::OutputStream::Unified{jbool(req, "unified", true)});
        for (const auto& a : arrs) write_arr(rst, a);
    }
    out.kv_i("n", arrs.size());
}

// {cmd:rst_read, path}: ERst on a unified restart file; every listed step, every array
PROBE_CMD(rst_read) {
    E::ERst rst(jstr(req, "path"));
    const bool with_data = jbool(req, "data", true);
    auto steps = rst.listOfReportStepNumbers();
    out.key("steps").arr();
    for (int s : steps) out.i(s);
    out.end_arr();
    out.key("has").arr();
    if (jhas(req, "probe_steps"))
        for (int s : jints(jget(req, "probe_steps"))) out.b(rst.hasReportStepNumber(s));
    out.end_arr();
    out.key("content").arr();
    for (int s : steps) {
        out.obj().kv_i("step", s).key("arrays").arr();
        // per-step errors are part of the observation (exact-or-error)
        try {
            auto arrays = rst.listOfRstArrays(s);
            for (std::size_t i = 0; i < arrays.size(); ++i) {
                const auto& [name, type, size] = arrays[i];
                out.obj().kv_s("name", name).kv_s("type", tname(type)).kv_i("size", size);
                if (with_data) {
                    out.key("data");
                    try {
                        out.arr();
                        switch (type) {
                        case E::INTE: for (int v : rst.getRestartData<int>((int)i, s)) out.i(v); break;
                        case E::REAL: for (float v : rst.getRestartData<float>((int)i, s)) out.f(v); break;
                        case E::DOUB: for (double v : rst.getRestartData<double>((int)i, s)) out.d(v); break;
                        case E::LOGI: for (bool v : rst.getRestartData<bool>((int)i, s)) out.i(v ? 1 : 0); break;
                        case E::CHAR:
                        case E::C0NN: for (const auto& v : rst.getRestartData<std::string>((int)i, s)) out.str(v); break;
                        case E::MESS: break;
                        }
                        out.end_arr();
                    } catch (const std::exception& e) {
                        out.end_arr();
                        out.kv_s("error", e.what());
                    }
                    // the same array through (name, step, occurrence): occurrence = number of earlier arrays of the step
                    // with this name; must be the very same data as through the index
                    int occ = 0;
                    for (std::size_t j = 0; j < i; ++j) if (std::get<0>(arrays[j]) == name) ++occ;
                    try {
                        bool same = true;
                        switch (type) {
                        case E::INTE: same = rst.getRestartData<int>(name, s, occ) == rst.getRestartData<int>((int)i, s); break;
                        case E::REAL: {
                            const auto& a = rst.getRestartData<float>(name, s, occ); const auto& b = rst.getRestartData<float>((int)i, s);
                            same = a.size() == b.size() && std::memcmp(a.data(), b.data(), a.size() * sizeof(float)) == 0; break; }
                        case E::DOUB: {
                            const auto& a = rst.getRestartData<double>(name, s, occ); const auto& b = rst.getRestartData<double>((int)i, s);
                            same = a.size() == b.size() && std::memcmp(a.data(), b.data(), a.size() * sizeof(double)) == 0; break; }
                        case E::LOGI: same = rst.getRestartData<bool>(name, s, occ) == rst.getRestartData<bool>((int)i, s); break;
                        case E::CHAR: same = rst.getRestartData<std::string>(name, s, occ) == rst.getRestartData<std::string>((int)i, s); break;
                        case E::C0NN: break;   // (the by-name getter accepts CHAR only; C0nn arrays are read through the index)
                        case E::MESS: break;
                        }
                        out.kv_i("occurrence", occ).kv_b("by_occurrence_same", same);
                    } catch (const std::exception& e) {
                        out.kv_i("occurrence", occ).kv_s("by_occurrence_error", e.what());
                    }
                }
                out.end_obj();
            }
            out.end_arr();
        } catch (const std::exception& e) {
            out.end_arr();
            out.kv_s("error", e.what());
        }
        out.end_obj();
    }
    out.end_arr();
}

// ---------------------------------------------------------------- truncation scan (C08)
namespace {
struct Fnv {
    std::uint64_t h = 1469598103934665603ull;
    void bytes(const void* p, std::size_t n) {
        const unsigned char* c = (const unsigned char*)p;
        for (std::size_t i = 0; i < n; ++i) { h ^= c[i]; h *= 1099511628211ull; }
    }
    void u32(std::uint32_t v) { unsigned char b[4] = {(unsigned char)(v >> 24), (unsigned char)(v >> 16), (unsigned char)(v >> 8), (unsigned char)v}; bytes(b, 4); }
    void u64(std::uint64_t v) { u32((std::uint32_t)(v >> 32)); u32((std::uint32_t)v); }
};

std::uint64_t hash_rst_array(E::ERst& rst, int i, int s, E::eclArrType type) {
    Fnv f;
    switch (type) {
    case E::INTE: for (int v : rst.getRestartData<int>(i, s)) f.u32((std::uint32_t)v); break;
    case E::REAL: for (float v : rst.getRestartData<float>(i, s)) { std::uint32_t b; std::memcpy(&b, &v, 4); f.u32(b); } break;
    case E::DOUB: for (double v : rst.getRestartData<double>(i, s)) { std::uint64_t b; std::memcpy(&b, &v, 8); f.u64(b); } break;
    case E::LOGI: for (bool v : rst.getRestartData<bool>(i, s)) f.u32(v ? 1 : 0); break;
    case E::CHAR:
    case E::C0NN: for (const auto& v : rst.getRestartData<std::string>(i, s)) { f.bytes(v.data(), v.size()); f.u32(0xFFFFFFFFu); } break;
    case E::MESS: break;
    }
    return f.h;
}
}

// {cmd:rst_trunc_scan, path, offsets:[...]} : for each offset o, copy the first o bytes of `path`
// to a scratch file named like a unified restart file and observe what ERst makes of it.
PROBE_CMD(rst_trunc_scan) {
    const std::string path = jstr(req, "path");
    std::string content;
    {
        std::ifstream in(path, std::ios::binary);
        content.assign(std::istreambuf_iterator<char>(in), std::istreambuf_iterator<char>());
    }
    const std::string tpath = scratch_dir() + "/TRUNC.UNRST";
    out.kv_i("size", content.size());
    out.key("scan").arr();
    for (int off : jints(jget(req, "offsets"))) {
        {
            std::ofstream o(tpath, std::ios::binary | std::ios::trunc);
            o.write(content.data(), off);
        }
        out.obj().kv_i("o", off);
        try {
            E::ERst rst(tpath);
            auto steps = rst.listOfReportStepNumbers();
            out.key("steps").arr();
            for (int s : steps) {
                out.arr().i(s).b(rst.hasReportStepNumber(s));
                out.arr();
                try {
                    auto arrays = rst.listOfRstArrays(s);
                    for (std::size_t i = 0; i < arrays.size(); ++i) {
                        const auto& [name, type, size] = arrays[i];
                        out.arr().str(name).str(tname(type)).i(size);
                        try {
                            std::uint64_t h = hash_rst_array(rst, (int)i, s, type);
                            out.u(h);
                        } catch (const std::exception& e) {
                            out.str(std::string("ERR:") + e.what());
                        }
                        out.end_arr();
                    }
                } catch (const std::exception& e) {
                    out.str(std::string("ERR:") + e.what());
                }
                out.end_arr();
                out.end_arr();
            }
            out.end_arr();
        } catch (const std::exception& e) {
            out.kv_s("err", e.what());
        }
        out.end_obj();
    }
    out.end_arr();
    std::remove(tpath.c_str());
}
