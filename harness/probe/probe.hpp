// opmprobe: persistent JSON-lines server driving opm-common's public API.
// The probe never judges: it returns observations; oracles live in Python.
#pragma once
#include <cjson/cJSON.h>

#include <cmath>
#include <cstdint>
#include <cstdio>
#include <cstring>
#include <functional>
#include <map>
#include <stdexcept>
#include <string>
#include <vector>

namespace probe {

// ---------------------------------------------------------------- output
class JW {
public:
    std::string s;
    void comma() {
        if (need_comma) s += ',';
        need_comma = true;
    }
    JW& obj() { comma(); s += '{'; need_comma = false; return *this; }
    JW& end_obj() { s += '}'; need_comma = true; return *this; }
    JW& arr() { comma(); s += '['; need_comma = false; return *this; }
    JW& end_arr() { s += ']'; need_comma = true; return *this; }
    JW& key(const std::string& k) { comma(); quote(k); s += ':'; need_comma = false; return *this; }
    JW& str(const std::string& v) { comma(); quote(v); return *this; }
    JW& i(long long v) { comma(); s += std::to_string(v); return *this; }
    JW& u(unsigned long long v) { comma(); s += std::to_string(v); return *this; }
    JW& b(bool v) { comma(); s += v ? "true" : "false"; return *this; }
    JW& null() { comma(); s += "null"; return *this; }
    // doubles travel as C99 hex floats (strings) so that "bit for bit" is literal
    JW& d(double v) {
        comma();
        char buf[64];
        if (std::isnan(v)) {
            std::uint64_t bits; std::memcpy(&bits, &v, 8);
            std::snprintf(buf, sizeof buf, "\"nan:%016llx\"", (unsigned long long)bits);
        } else if (std::isinf(v)) std::snprintf(buf, sizeof buf, "\"%sinf\"", v < 0 ? "-" : "");
        else std::snprintf(buf, sizeof buf, "\"%a\"", v);
        s += buf;
        return *this;
    }
    JW& f(float v) {
        comma();
        char buf[64];
        std::uint32_t bits; std::memcpy(&bits, &v, 4);
        std::snprintf(buf, sizeof buf, "%u", bits);   // floats travel as their bit pattern
        s += buf;
        return *this;
    }
    JW& raw(const std::string& json) { comma(); s += json; return *this; }
    template <class T> JW& kv_i(const std::string& k, T v) { key(k); return i((long long)v); }
    JW& kv_s(const std::string& k, const std::string& v) { key(k); return str(v); }
    JW& kv_d(const std::string& k, double v) { key(k); return d(v); }
    JW& kv_b(const std::string& k, bool v) { key(k); return b(v); }
    void quote(const std::string& v) {
        s += '"';
        for (unsigned char c : v) {
            switch (c) {
            case '"': s += "\\\""; break;
            case '\\': s += "\\\\"; break;
            case '\n': s += "\\n"; break;
            case '\r': s += "\\r"; break;
            case '\t': s += "\\t"; break;
            default:
                if (c < 0x20 || c >= 0x7f) {
                    // bytes are transported as latin-1 code points
                    char buf[8];
                    std::snprintf(buf, sizeof buf, "\\u%04x", c);
                    s += buf;
                } else s += (char)c;
            }
        }
        s += '"';
    }
private:
    bool need_comma = false;
};

// ----------------------------------------------------------------- input
struct BadRequest : std::runtime_error { using std::runtime_error::runtime_error; };

inline const cJSON* jget(const cJSON* o, const char* k) {
    const cJSON* v = cJSON_GetObjectItemCaseSensitive(o, k);
    if (!v) throw BadRequest(std::string("missing key ") + k);
    return v;
}
inline bool jhas(const cJSON* o, const char* k) {
    const cJSON* v = cJSON_GetObjectItemCaseSensitive(o, k);
    return v && !cJSON_IsNull(v);
}
// strings: JSON \u00XX escapes come back from cJSON as UTF-8; decode to bytes
inline std::string utf8_to_latin1(const char* p) {
    std::string out;
    const unsigned char* u = (const unsigned char*)p;
    while (*u) {
        if (*u < 0x80) out += (char)*u++;
        else if ((*u & 0xE0) == 0xC0 && u[1]) { out += (char)(((*u & 0x1F) << 6) | (u[1] & 0x3F)); u += 2; }
        else { out += '?'; ++u; }
    }
    return out;
}
inline std::string jstr(const cJSON* v) {
    if (!cJSON_IsString(v)) throw BadRequest("expected string");
    return utf8_to_latin1(v->valuestring);
}
inline std::string jstr(const cJSON* o, const char* k) { return jstr(jget(o, k)); }
inline std::string jstr(const cJSON* o, const char* k, const std::string& dflt) {
    return jhas(o, k) ? jstr(jget(o, k)) : dflt;
}
inline double jdouble(const cJSON* v) {
    if (cJSON_IsNumber(v)) return v->valuedouble;
    if (cJSON_IsString(v)) {
        const char* s = v->valuestring;
        if (std::strncmp(s, "nan:", 4) == 0) {
            std::uint64_t bits = std::strtoull(s + 4, nullptr, 16);
            double d; std::memcpy(&d, &bits, 8); return d;
        }
        if (std::strcmp(s, "nan") == 0) return std::nan("");
        if (std::strcmp(s, "inf") == 0) return HUGE_VAL;
        if (std::strcmp(s, "-inf") == 0) return -HUGE_VAL;
        return std::strtod(s, nullptr);   // hex float or decimal
    }
    throw BadRequest("expected number");
}
inline double jdouble(const cJSON* o, const char* k) { return jdouble(jget(o, k)); }
inline double jdouble(const cJSON* o, const char* k, double d) { return jhas(o, k) ? jdouble(jget(o, k)) : d; }
inline long long jint(const cJSON* v) {
    if (cJSON_IsNumber(v)) return (long long)v->valuedouble;
    if (cJSON_IsBool(v)) return cJSON_IsTrue(v);
    if (cJSON_IsString(v)) return std::strtoll(v->valuestring, nullptr, 10);
    throw BadRequest("expected int");
}
inline long long jint(const cJSON* o, const char* k) { return jint(jget(o, k)); }
inline long long jint(const cJSON* o, const char* k, long long d) { return jhas(o, k) ? jint(jget(o, k)) : d; }
inline bool jbool(const cJSON* o, const char* k, bool d = false) {
    if (!jhas(o, k)) return d;
    const cJSON* v = jget(o, k);
    if (cJSON_IsBool(v)) return cJSON_IsTrue(v);
    return jint(v) != 0;
}
template <class F> void jforeach(const cJSON* a, F&& f) {
    const cJSON* e;
    cJSON_ArrayForEach(e, a) f(e);
}
inline std::vector<double> jdoubles(const cJSON* a) {
    std::vector<double> r; jforeach(a, [&](const cJSON* e) { r.push_back(jdouble(e)); }); return r;
}
inline std::vector<int> jints(const cJSON* a) {
    std::vector<int> r; jforeach(a, [&](const cJSON* e) { r.push_back((int)jint(e)); }); return r;
}
inline std::vector<std::string> jstrs(const cJSON* a) {
    std::vector<std::string> r; jforeach(a, [&](const cJSON* e) { r.push_back(jstr(e)); }); return r;
}

// -------------------------------------------------------------- registry
using Handler = std::function<void(const cJSON*, JW&)>;
std::map<std::string, Handler>& registry();
struct Reg {
    Reg(const char* name, Handler h) { registry()[name] = std::move(h); }
};
#define PROBE_CMD(name) \
    static void cmd_##name(const cJSON* req, probe::JW& out); \
    static probe::Reg reg_##name(#name, cmd_##name); \
    static void cmd_##name(const cJSON* req, probe::JW& out)

std::string scratch_dir();   // per-process temp dir (created on start-up)

} // namespace probe
