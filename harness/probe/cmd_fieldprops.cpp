// Commands for C12 (FieldProps / FieldPropsManager through EclipseState).
// Observations only: the deck text is parsed, EclipseState is constructed and every
// requested cell property array is read through the public getters named in the
// property's observe_at (get_double/get_int/get_global_*/defaulted/has_*).  A getter
// that throws is itself an observation (an array that is not fully defined cannot be
// read), so per-array exceptions are recorded instead of aborting the request.
#include "probe.hpp"

#include <opm/common/OpmLog/OpmLog.hpp>
#include <opm/input/eclipse/Deck/Deck.hpp>
#include <opm/input/eclipse/EclipseState/EclipseState.hpp>
#include <opm/input/eclipse/EclipseState/Grid/EclipseGrid.hpp>
#include <opm/input/eclipse/EclipseState/Grid/FieldPropsManager.hpp>
#include <opm/input/eclipse/Parser/ErrorGuard.hpp>
#include <opm/input/eclipse/Parser/InputErrorAction.hpp>
#include <opm/input/eclipse/Parser/ParseContext.hpp>
#include <opm/input/eclipse/Parser/Parser.hpp>

#include <exception>
#include <string>
#include <vector>

using namespace probe;

namespace {

Opm::Deck parse(const std::string& text) {
    Opm::ParseContext ctx(Opm::InputErrorAction::THROW_EXCEPTION);
    Opm::ErrorGuard guard;
    Opm::Parser parser;
    try {
        auto deck = parser.parseString(text, ctx, guard);
        guard.clear();
        return deck;
    } catch (...) {
        guard.clear();
        throw;
    }
}

template <class F> void guarded(JW& out, const char* key, F&& f) {
    // the value of `key` is either what f wrote or {"exc": what}
    out.key(key);
    JW tmp;
    try {
        f(tmp);
        out.raw(tmp.s);
    } catch (const std::exception& e) {
        out.obj().kv_s("exc", e.what()).end_obj();
    }
}

void dump_double(JW& out, const Opm::FieldPropsManager& fp, const std::string& kw, bool want_global) {
    out.obj();
    out.kv_s("name", kw);
    guarded(out, "has", [&](JW& o) { o.b(fp.has_double(kw)); });
    guarded(out, "data", [&](JW& o) {
        const auto& v = fp.get_double(kw);
        o.arr();
        for (double x : v) o.d(x);
        o.end_arr();
    });
    guarded(out, "defaulted", [&](JW& o) {
        // only meaningful when the array can be read; ask after get_double so that the
        // order of lazily created arrays is the same in every request
        if (!fp.has_double(kw)) { o.null(); return; }
        const auto v = fp.defaulted<double>(kw);
        o.arr();
        for (bool b : v) o.i(b ? 1 : 0);
        o.end_arr();
    });
    if (want_global) {
        guarded(out, "global", [&](JW& o) {
            const auto v = fp.get_global_double(kw);
            o.arr();
            for (double x : v) o.d(x);
            o.end_arr();
        });
    }
    out.end_obj();
}

void dump_int(JW& out, const Opm::FieldPropsManager& fp, const std::string& kw, bool want_global) {
    out.obj();
    out.kv_s("name", kw);
    guarded(out, "has", [&](JW& o) { o.b(fp.has_int(kw)); });
    guarded(out, "data", [&](JW& o) {
        const auto& v = fp.get_int(kw);
        o.arr();
        for (int x : v) o.i(x);
        o.end_arr();
    });
    guarded(out, "defaulted", [&](JW& o) {
        if (!fp.has_int(kw)) { o.null(); return; }
        const auto v = fp.defaulted<int>(kw);
        o.arr();
        for (bool b : v) o.i(b ? 1 : 0);
        o.end_arr();
    });
    if (want_global) {
        guarded(out, "global", [&](JW& o) {
            const auto v = fp.get_global_int(kw);
            o.arr();
            for (int x : v) o.i(x);
            o.end_arr();
        });
    }
    out.end_obj();
}

} // namespace

// {"cmd":"fieldprops","deck":text,"doubles":[names],"ints":[names],"global":bool}
// -> grid dims, ACTNUM of the state's grid, default region, and one record per name.
PROBE_CMD(fieldprops) {
    Opm::OpmLog::removeAllBackends();
    const auto deck = parse(jstr(req, "deck"));
    const bool want_global = jbool(req, "global", true);
    const auto dnames = jhas(req, "doubles") ? jstrs(jget(req, "doubles")) : std::vector<std::string>{};
    const auto inames = jhas(req, "ints") ? jstrs(jget(req, "ints")) : std::vector<std::string>{};

    Opm::EclipseState es(deck);
    const auto& grid = es.getInputGrid();
    const auto& fp = es.fieldProps();

    out.kv_i("nx", grid.getNX()).kv_i("ny", grid.getNY()).kv_i("nz", grid.getNZ());
    out.kv_i("nactive", grid.getNumActive());
    out.kv_i("fp_active_size", fp.active_size());
    out.key("actnum").arr();
    for (int a : grid.getACTNUM()) out.i(a);
    out.end_arr();
    out.key("active_map").arr();
    for (int g : grid.getActiveMap()) out.i(g);
    out.end_arr();
    out.kv_s("default_region", fp.default_region());

    // the arrays are asked for in the order of the request (ints before doubles if ints_first)
    const bool ints_first = jbool(req, "ints_first", false);
    if (ints_first) {
        out.key("ints").arr();
        for (const auto& kw : inames) dump_int(out, fp, kw, want_global);
        out.end_arr();
    }
    out.key("doubles").arr();
    for (const auto& kw : dnames) dump_double(out, fp, kw, want_global);
    out.end_arr();
    if (!ints_first) {
        out.key("ints").arr();
        for (const auto& kw : inames) dump_int(out, fp, kw, want_global);
        out.end_arr();
    }

    guarded(out, "porv", [&](JW& o) {
        const auto v = fp.porv(false);
        o.arr();
        for (double x : v) o.d(x);
        o.end_arr();
    });
    out.key("keys_double").arr();
    for (const auto& k : fp.keys<double>()) out.str(k);
    out.end_arr();
    out.key("keys_int").arr();
    for (const auto& k : fp.keys<int>()) out.str(k);
    out.end_arr();
}
