// Commands for C11, second part: Serializer<MemPacker> round trips of the DYNAMIC state objects
//   SummaryState, UDQState, Action::State, WellTestState, RestartValue (data::Solution / Wells /
//   GroupAndNetworkValues / Aquifers / extra vectors).
// Each object is BUILT from a JSON operation history through the class's public mutators, then
// sent through the same three-generation round trip as the deck objects (cmd_pack_common.hpp).
// The observation goes through the PUBLIC getters / public data members only, over a query
// universe supplied by the caller (names that were inserted plus names that were not).
// The probe only observes; checks/c11.py judges.
#include "probe.hpp"
#include "serialdump.hpp"
#include "cmd_pack_common.hpp"

#include <opm/common/utility/TimeService.hpp>
#include <opm/input/eclipse/Python/Python.hpp>
#include <opm/input/eclipse/Schedule/Action/ActionResult.hpp>
#include <opm/input/eclipse/Schedule/Action/ActionX.hpp>
#include <opm/input/eclipse/Schedule/Action/PyAction.hpp>
#include <opm/input/eclipse/Schedule/Action/State.hpp>
#include <opm/input/eclipse/Schedule/SummaryState.hpp>
#include <opm/input/eclipse/Schedule/UDQ/UDQEnums.hpp>
#include <opm/input/eclipse/Schedule/UDQ/UDQSet.hpp>
#include <opm/input/eclipse/Schedule/UDQ/UDQState.hpp>
#include <opm/input/eclipse/Schedule/Well/WellTestConfig.hpp>
#include <opm/input/eclipse/Schedule/Well/WellTestState.hpp>
#include <opm/input/eclipse/Units/UnitSystem.hpp>
#include <opm/output/data/Aquifer.hpp>
#include <opm/output/data/Cells.hpp>
#include <opm/output/data/Groups.hpp>
#include <opm/output/data/GuideRateValue.hpp>
#include <opm/output/data/Solution.hpp>
#include <opm/output/data/Wells.hpp>
#include <opm/output/eclipse/RestartValue.hpp>
#include <opm/output/eclipse/WindowedArray.hpp>

#include <algorithm>
#include <memory>
#include <optional>
#include <string>
#include <type_traits>
#include <utility>
#include <variant>
#include <vector>

using namespace probe;
using namespace probe::pack;

namespace {

// ------------------------------------------------------------------ small helpers
std::optional<double> optd(const cJSON* v) {
    if (cJSON_IsNull(v)) return std::nullopt;
    return jdouble(v);
}
std::vector<double> dvec(const cJSON* o, const char* k) { return jdoubles(jget(o, k)); }

// a query that may throw: the exception text is the observation
template <class F> void gd(JW& out, F&& f) {
    try { const double v = f(); out.d(v); } catch (const std::exception& e) { out.str(std::string("exc:") + e.what()); }
}
template <class F> void gi(JW& out, F&& f) {
    try { const long long v = f(); out.i(v); } catch (const std::exception& e) { out.str(std::string("exc:") + e.what()); }
}
void sorted_strs(JW& out, std::vector<std::string> v) {
    std::sort(v.begin(), v.end());
    out.arr();
    for (const auto& s : v) out.str(s);
    out.end_arr();
}
void strs(JW& out, const std::vector<std::string>& v) {
    out.arr();
    for (const auto& s : v) out.str(s);
    out.end_arr();
}
void dbls(JW& out, const std::vector<double>& v) {
    out.arr();
    for (double x : v) out.d(x);
    out.end_arr();
}
std::vector<std::string> qstrs(const cJSON* q, const char* k) {
    return jhas(q, k) ? jstrs(jget(q, k)) : std::vector<std::string>{};
}
std::vector<long long> qints(const cJSON* q, const char* k) {
    std::vector<long long> r;
    if (jhas(q, k)) jforeach(jget(q, k), [&](const cJSON* e) { r.push_back(jint(e)); });
    return r;
}

// ------------------------------------------------------------------ UDQSet from a description
// {kind: scalar|field|well|group|segment, name, items: [[wgname, number, value|null], ...]}
Opm::UDQSet make_udqset(const cJSON* s) {
    const std::string kind = jstr(s, "kind");
    const std::string name = jstr(s, "name");
    std::vector<std::string> wg;
    std::vector<std::size_t> num;
    std::vector<std::optional<double>> val;
    jforeach(jget(s, "items"), [&](const cJSON* it) {
        wg.push_back(jstr(cJSON_GetArrayItem(it, 0)));
        num.push_back((std::size_t)jint(cJSON_GetArrayItem(it, 1)));
        val.push_back(optd(cJSON_GetArrayItem(it, 2)));
    });
    if (kind == "scalar") return Opm::UDQSet::scalar(name, val.at(0));
    if (kind == "field") {
        Opm::UDQSet us(name, Opm::UDQVarType::FIELD_VAR);
        us.assign(std::size_t{0}, val.at(0));
        return us;
    }
    if (kind == "well" || kind == "group") {
        auto us = (kind == "well") ? Opm::UDQSet::wells(name, wg) : Opm::UDQSet::groups(name, wg);
        for (std::size_t i = 0; i < wg.size(); ++i) us.assign(i, val[i]);
        return us;
    }
    if (kind == "segment") {
        std::vector<Opm::UDQSet::EnumeratedItems> items;
        for (std::size_t i = 0; i < wg.size(); ++i) items.push_back({wg[i], {num[i]}});
        auto us = Opm::UDQSet::segments(name, items);
        for (std::size_t i = 0; i < wg.size(); ++i) us.assign(i, val[i]);
        return us;
    }
    throw BadRequest("udq set kind " + kind);
}

// ================================================================== SummaryState
void apply_smry(Opm::SummaryState& st, const cJSON* ops) {
    jforeach(ops, [&](const cJSON* o) {
        const std::string op = jstr(o, "op");
        if (op == "update") st.update(jstr(o, "key"), jdouble(o, "v"));
        else if (op == "set") st.set(jstr(o, "key"), jdouble(o, "v"));
        else if (op == "well") st.update_well_var(jstr(o, "well"), jstr(o, "var"), jdouble(o, "v"));
        else if (op == "group") st.update_group_var(jstr(o, "group"), jstr(o, "var"), jdouble(o, "v"));
        else if (op == "conn") st.update_conn_var(jstr(o, "well"), jstr(o, "var"), (std::size_t)jint(o, "num"), jdouble(o, "v"));
        else if (op == "segment") st.update_segment_var(jstr(o, "well"), jstr(o, "var"), (std::size_t)jint(o, "num"), jdouble(o, "v"));
        else if (op == "region") st.update_region_var(jstr(o, "regset"), jstr(o, "var"), (std::size_t)jint(o, "num"), jdouble(o, "v"));
        else if (op == "elapsed") st.update_elapsed(jdouble(o, "v"));
        else if (op == "udq") st.update_udq(make_udqset(jget(o, "set")));
        else if (op == "erase") (void)st.erase(jstr(o, "key"));
        else if (op == "erase_well") (void)st.erase_well_var(jstr(o, "well"), jstr(o, "var"));
        else if (op == "erase_group") (void)st.erase_group_var(jstr(o, "group"), jstr(o, "var"));
        else if (op == "wells") (void)st.wells();       // fills the (serialized) name cache
        else if (op == "groups") (void)st.groups();
        else if (op == "append") {
            Opm::SummaryState buf(Opm::TimeService::from_time_t((std::time_t)jint(o, "start")), jdouble(o, "undef"));
            apply_smry(buf, jget(o, "ops"));
            st.append(buf);
        } else throw BadRequest("SummaryState op " + op);
    });
}

void obs_smry(const Opm::SummaryState& st, const cJSON* q, JW& o) {
    const auto keys = qstrs(q, "keys"), wells = qstrs(q, "wells"), groups = qstrs(q, "groups"), vars = qstrs(q, "vars"),
               regsets = qstrs(q, "regsets");
    const auto nums = qints(q, "nums");
    const double dflt = -123.25;
    o.obj();
    o.kv_d("elapsed", st.get_elapsed()).kv_i("size", st.size()).kv_i("num_wells", st.num_wells());
    o.key("udq_undefined");
    gd(o, [&] { return st.get("FU\x01NOSUCH"); });
    o.key("wells"); strs(o, st.wells());
    o.key("groups"); strs(o, st.groups());
    {
        std::vector<std::pair<std::string, double>> all(st.begin(), st.end());
        std::sort(all.begin(), all.end());
        o.key("all").arr();
        for (const auto& [k, v] : all) o.arr().str(k).d(v).b(st.is_undefined_value(v)).end_arr();
        o.end_arr();
    }
    o.key("keys").arr();
    for (const auto& k : keys) {
        o.arr().str(k).b(st.has(k)).d(st.get(k, dflt));
        gd(o, [&] { return st.get(k); });
        o.end_arr();
    }
    o.end_arr();
    o.key("vars").arr();
    for (const auto& var : vars) {
        o.arr().str(var).b(st.has_well_var(var)).b(st.has_group_var(var));
        sorted_strs(o, st.wells(var));
        sorted_strs(o, st.groups(var));
        for (const auto& w : wells) {
            o.arr().b(st.has_well_var(w, var)).d(st.get_well_var(w, var, dflt));
            gd(o, [&] { return st.get_well_var(w, var); });
            for (long long n : nums) {
                o.b(st.has_conn_var(w, var, n)).d(st.get_conn_var(w, var, n, dflt));
                o.b(st.has_segment_var(w, var, n)).d(st.get_segment_var(w, var, n, dflt));
                gd(o, [&] { return st.get_conn_var(w, var, n); });
                gd(o, [&] { return st.get_segment_var(w, var, n); });
            }
            o.end_arr();
        }
        for (const auto& g : groups) {
            o.arr().b(st.has_group_var(g, var)).d(st.get_group_var(g, var, dflt));
            gd(o, [&] { return st.get_group_var(g, var); });
            o.end_arr();
        }
        for (const auto& rs : regsets)
            for (long long n : nums) {
                o.b(st.has_region_var(rs, var, n));
                gd(o, [&] { return st.get_region_var(rs, var, n); });
            }
        o.end_arr();
    }
    o.end_arr();
    o.end_obj();
}

// ================================================================== UDQState
void apply_udq(Opm::UDQState& st, const cJSON* ops) {
    jforeach(ops, [&](const cJSON* o) {
        const std::string op = jstr(o, "op");
        if (op == "define") st.add_define((std::size_t)jint(o, "step"), jstr(o, "key"), make_udqset(jget(o, "set")));
        else if (op == "assign") st.add_assign(jstr(o, "key"), make_udqset(jget(o, "set")));
        else throw BadRequest("UDQState op " + op);
    });
}

void obs_udq(const Opm::UDQState& st, const cJSON* q, JW& o) {
    const auto keys = qstrs(q, "keys"), wells = qstrs(q, "wells"), groups = qstrs(q, "groups");
    const auto nums = qints(q, "nums");
    long long maxnum = 1;
    for (long long n : nums) maxnum = std::max(maxnum, n);
    maxnum = std::min(maxnum, 100000ll);
    o.obj();
    o.kv_d("undefined_value", st.undefined_value());
    o.key("keys").arr();
    for (const auto& k : keys) {
        o.arr().str(k).b(st.has(k));
        gd(o, [&] { return st.get(k); });
        for (const auto& w : wells) {
            o.b(st.has_well_var(w, k));
            gd(o, [&] { return st.get_well_var(w, k); });
            for (long long n : nums) {
                o.b(st.has_segment_var(w, k, n));
                gd(o, [&] { return st.get_segment_var(w, k, n); });
            }
            // DUDS export window of this well
            try {
                using WA = Opm::RestartIO::Helpers::WindowedArray<double>;
                WA arr(WA::NumWindows{1}, WA::WindowSize{(WA::Idx)maxnum}, -7.5);
                auto win = arr[0];
                st.exportSegmentUDQ(k, w, win);
                o.arr();
                for (double v : arr.data()) o.d(v);
                o.end_arr();
            } catch (const std::exception&) {
                // (the text names the first offending segment in hash-table order: not part of the observation)
                o.str("exc:exportSegmentUDQ");
            }
        }
        for (const auto& g : groups) {
            o.b(st.has_group_var(g, k));
            gd(o, [&] { return st.get_group_var(g, k); });
        }
        o.end_arr();
    }
    o.end_arr();
    o.end_obj();
}

// ================================================================== Action::State
Opm::Action::ActionX make_action(const std::string& name, std::size_t id) {
    Opm::Action::ActionX a(name, 0, 0.0, 0);
    a.update_id(id);
    return a;
}

void apply_action(Opm::Action::State& st, const cJSON* ops) {
    static const auto python = std::make_shared<Opm::Python>();
    jforeach(ops, [&](const cJSON* o) {
        const std::string op = jstr(o, "op");
        if (op == "run") {
            auto res = Opm::Action::Result{true};
            res.wells(jstrs(jget(o, "wells")));
            st.add_run(make_action(jstr(o, "name"), (std::size_t)jint(o, "id")), (std::time_t)jint(o, "time"), res);
        } else if (op == "pyrun") {
            const Opm::Action::PyAction py(python, jstr(o, "name"), Opm::Action::PyAction::RunCount::unlimited, "");
            st.add_run(py, jbool(o, "result"));
        } else throw BadRequest("Action::State op " + op);
    });
}

void obs_action(const Opm::Action::State& st, const cJSON* q, JW& o) {
    const auto names = qstrs(q, "names"), wells = qstrs(q, "wells");
    const auto ids = qints(q, "ids");
    o.obj();
    o.key("actions").arr();
    for (const auto& n : names) {
        o.arr().str(n);
        for (long long id : ids) {
            const auto a = make_action(n, (std::size_t)id);
            o.i((long long)st.run_count(a));
            gi(o, [&] { return (long long)st.run_time(a); });
        }
        const auto* r = st.result(n);
        if (r == nullptr) o.null();
        else {
            o.arr();
            for (const auto& w : wells) o.b(r->hasWell(w));
            o.end_arr();
        }
        const auto py = st.python_result(n);
        if (py.has_value()) o.b(*py); else o.null();
        o.end_arr();
    }
    o.end_arr();
    o.end_obj();
}

// ================================================================== WellTestState
struct WTestCase {
    Opm::WellTestState st;
    Opm::WellTestConfig config;     // the run's WTEST configuration at the end of the history (not serialized itself)
};

void apply_wtest(WTestCase& x, const cJSON* ops) {
    jforeach(ops, [&](const cJSON* o) {
        const std::string op = jstr(o, "op");
        if (op == "close_well") x.st.close_well(jstr(o, "well"), (Opm::WTest::Reason)jint(o, "reason"), jdouble(o, "t"));
        else if (op == "open_well") x.st.open_well(jstr(o, "well"));
        else if (op == "close_completion") x.st.close_completion(jstr(o, "well"), (int)jint(o, "num"), jdouble(o, "t"));
        else if (op == "open_completion") x.st.open_completion(jstr(o, "well"), (int)jint(o, "num"));
        else if (op == "open_completions") x.st.open_completions(jstr(o, "well"));
        else if (op == "filter_wells") x.st.filter_wells(jstrs(jget(o, "wells")));
        else if (op == "clear") x.st.clear();
        else if (op == "config")
            x.config.add_well(jstr(o, "well"), (int)jint(o, "reasons"), jdouble(o, "interval"), (int)jint(o, "num_test"),
                              jdouble(o, "startup"), (int)jint(o, "step"));
        else if (op == "drop_config") x.config.drop_well(jstr(o, "well"));
        else if (op == "test") (void)x.st.test_wells(x.config, jdouble(o, "t"));
        else throw BadRequest("WellTestState op " + op);
    });
}

void obs_wtest_queries(const Opm::WellTestState& st, const Opm::WellTestConfig& config, const std::vector<std::string>& wells,
                       const std::vector<long long>& nums, JW& o) {
    o.arr();
    o.i((long long)st.num_closed_wells()).i((long long)st.num_closed_completions());
    for (const auto& w : wells) {
        o.arr().str(w).b(st.well_is_closed(w));
        gd(o, [&] { return st.lastTestTime(w); });
        for (long long n : nums) o.b(st.completion_is_closed(w, (int)n));
        try {
            const auto rw = st.restart_well(config, w);
            if (!rw.has_value()) o.null();
            else o.arr().str(rw->name).d(rw->test_interval).i(rw->num_test).d(rw->startup_time).i(rw->config_reasons).i(rw->close_reason).end_arr();
        } catch (const std::exception& e) {
            o.str(std::string("exc:") + e.what());
        }
        o.end_arr();
    }
    o.end_arr();
}

void obs_wtest(const Opm::WellTestState& st, const Opm::WellTestConfig& config, const cJSON* q, JW& o) {
    const auto wells = qstrs(q, "wells");
    const auto nums = qints(q, "nums");
    o.obj();
    o.key("now");
    obs_wtest_queries(st, config, wells, nums, o);
    // continuation: the attempt counters / WTEST report step have no getter of their own; they show in which wells
    // a copy of the state proposes for testing at later times
    o.key("continued").arr();
    Opm::WellTestState copy = st;
    for (double t : jhas(q, "times") ? jdoubles(jget(q, "times")) : std::vector<double>{}) {
        sorted_strs(o, copy.test_wells(config, t));
        obs_wtest_queries(copy, config, wells, nums, o);
    }
    o.end_arr();
    o.end_obj();
}

// ================================================================== RestartValue
namespace data = Opm::data;
using measure = Opm::UnitSystem::measure;

const Opm::UnitSystem& units(int i) {
    static const Opm::UnitSystem u[4] = {Opm::UnitSystem::newMETRIC(), Opm::UnitSystem::newFIELD(), Opm::UnitSystem::newLAB(),
                                         Opm::UnitSystem::newPVT_M()};
    return u[((i % 4) + 4) % 4];
}

constexpr int num_rate_bits = 23;
data::Rates::opt rate_opt(int bit) { return static_cast<data::Rates::opt>(1u << bit); }
constexpr int tracer_bit = 19;

// {set: [[bit, value], ...], tracers: [[name, value], ...]}
void set_rates(data::Rates& r, const cJSON* d) {
    jforeach(jget(d, "set"), [&](const cJSON* e) {
        r.set(rate_opt((int)jint(cJSON_GetArrayItem(e, 0))), jdouble(cJSON_GetArrayItem(e, 1)));
    });
    jforeach(jget(d, "tracers"), [&](const cJSON* e) {
        r.set(data::Rates::opt::tracer, jdouble(cJSON_GetArrayItem(e, 1)), jstr(cJSON_GetArrayItem(e, 0)));
    });
}
template <class Coll> void set_items(Coll& c, const cJSON* d) {
    jforeach(d, [&](const cJSON* e) {
        c.set(static_cast<typename Coll::Item>(jint(cJSON_GetArrayItem(e, 0))), jdouble(cJSON_GetArrayItem(e, 1)));
    });
}
void set_guide(data::GuideRateValue& g, const cJSON* d) {
    jforeach(d, [&](const cJSON* e) {
        g.set(static_cast<data::GuideRateValue::Item>(jint(cJSON_GetArrayItem(e, 0))), jdouble(cJSON_GetArrayItem(e, 1)));
    });
}

void apply_rv(Opm::RestartValue& rv, const cJSON* ops) {
    jforeach(ops, [&](const cJSON* o) {
        const std::string op = jstr(o, "op");
        if (op == "sol") {
            const std::string kind = jstr(o, "kind");
            const auto target = (data::TargetType)jint(o, "target");
            if (kind == "d") rv.solution.insert(jstr(o, "name"), (measure)jint(o, "dim"), dvec(o, "data"), target);
            else if (kind == "f") {
                const auto d = dvec(o, "data");
                rv.solution.insert(jstr(o, "name"), (measure)jint(o, "dim"), std::vector<float>(d.begin(), d.end()), target);
            } else if (kind == "i") rv.solution.insert(jstr(o, "name"), jints(jget(o, "data")), target);
            else if (kind == "mono") rv.solution.insert({jstr(o, "name"), data::CellData{}});
            else throw BadRequest("solution kind " + kind);
        } else if (op == "well") {
            data::Well w{};
            set_rates(w.rates, jget(o, "rates"));
            w.bhp = jdouble(o, "bhp");
            w.thp = jdouble(o, "thp");
            w.temperature = jdouble(o, "temp");
            w.control = (int)jint(o, "control");
            const auto f = dvec(o, "filtrate");
            w.filtrate.rate = f.at(0); w.filtrate.total = f.at(1); w.filtrate.concentration = f.at(2);
            w.dynamicStatus = (Opm::WellStatus)jint(o, "status");
            const auto cc = jints(jget(o, "cc"));
            w.current_control.isProducer = cc.at(0) != 0;
            w.current_control.prod = (Opm::WellProducerCMode)cc.at(1);
            w.current_control.inj = (Opm::WellInjectorCMode)cc.at(2);
            set_guide(w.guide_rates, jget(o, "guide"));
            set_items(w.limits, jget(o, "limits"));
            rv.wells[jstr(o, "name")] = std::move(w);
        } else if (op == "rate") {
            auto& r = rv.wells.at(jstr(o, "well")).rates;
            if (jhas(o, "tracer")) r.set(data::Rates::opt::tracer, jdouble(o, "v"), jstr(o, "tracer"));
            else r.set(rate_opt((int)jint(o, "bit")), jdouble(o, "v"));
        } else if (op == "conn") {
            data::Connection c{};
            c.index = (std::size_t)jint(o, "index");
            set_rates(c.rates, jget(o, "rates"));
            const auto v = dvec(o, "vals");
            c.pressure = v.at(0); c.reservoir_rate = v.at(1); c.cell_pressure = v.at(2); c.cell_saturation_water = v.at(3);
            c.cell_saturation_gas = v.at(4); c.effective_Kh = v.at(5); c.trans_factor = v.at(6); c.d_factor = v.at(7);
            c.compact_mult = v.at(8);
            const auto f = dvec(o, "filtrate");
            c.filtrate = data::ConnectionFiltrate{f.at(0), f.at(1), f.at(2), f.at(3), f.at(4), f.at(5), f.at(6), f.at(7)};
            rv.wells.at(jstr(o, "well")).connections.push_back(std::move(c));
        } else if (op == "seg") {
            data::Segment s{};
            set_rates(s.rates, jget(o, "rates"));
            const auto p = dvec(o, "pres");
            using V = data::SegmentPressures::Value;
            s.pressures[V::Pressure] = p.at(0); s.pressures[V::PDrop] = p.at(1); s.pressures[V::PDropHydrostatic] = p.at(2);
            s.pressures[V::PDropAccel] = p.at(3); s.pressures[V::PDropFriction] = p.at(4);
            set_items(s.velocity, jget(o, "vel"));
            set_items(s.holdup, jget(o, "holdup"));
            set_items(s.viscosity, jget(o, "visc"));
            set_items(s.density, jget(o, "dens"));
            s.segNumber = (std::size_t)jint(o, "num");
            rv.wells.at(jstr(o, "well")).segments[(std::size_t)jint(o, "key")] = std::move(s);
        } else if (op == "group") {
            data::GroupData g{};
            const auto cm = jints(jget(o, "cmodes"));
            g.currentControl.set((Opm::Group::ProductionCMode)cm.at(0), (Opm::Group::InjectionCMode)cm.at(1),
                                 (Opm::Group::InjectionCMode)cm.at(2));
            set_guide(g.guideRates.production, jget(o, "gprod"));
            set_guide(g.guideRates.injection, jget(o, "ginj"));
            rv.grp_nwrk.groupData[jstr(o, "name")] = g;
        } else if (op == "node") {
            rv.grp_nwrk.nodeData[jstr(o, "name")] = data::NodeData{jdouble(o, "p"), jdouble(o, "cp")};
        } else if (op == "aquifer") {
            data::AquiferData a{};
            const auto v = dvec(o, "vals");
            a.aquiferID = (int)jint(o, "aid");
            a.pressure = v.at(0); a.fluxRate = v.at(1); a.volume = v.at(2); a.initPressure = v.at(3); a.datumDepth = v.at(4);
            const std::string type = jstr(o, "type");
            const auto t = dvec(o, "tvals");
            if (type == "fet") {
                auto* f = a.typeData.create<data::AquiferType::Fetkovich>();
                f->initVolume = t.at(0); f->prodIndex = t.at(1); f->timeConstant = t.at(2);
            } else if (type == "ct") {
                auto* c = a.typeData.create<data::AquiferType::CarterTracy>();
                c->timeConstant = t.at(0); c->influxConstant = t.at(1); c->waterDensity = t.at(2); c->waterViscosity = t.at(3);
                c->dimensionless_time = t.at(4); c->dimensionless_pressure = t.at(5);
            } else if (type == "num") {
                a.typeData.create<data::AquiferType::Numerical>()->initPressure = t;
            } else if (type != "none") throw BadRequest("aquifer type " + type);
            rv.aquifer[(int)jint(o, "id")] = std::move(a);
        } else if (op == "extra") {
            const auto d = dvec(o, "data");
            const bool asfloat = jbool(o, "float");
            if (jhas(o, "dim")) {
                if (asfloat) rv.addExtra(jstr(o, "key"), (measure)jint(o, "dim"), std::vector<float>(d.begin(), d.end()));
                else rv.addExtra(jstr(o, "key"), (measure)jint(o, "dim"), d);
            } else {
                if (asfloat) rv.addExtra(jstr(o, "key"), std::vector<float>(d.begin(), d.end()));
                else rv.addExtra(jstr(o, "key"), d);
            }
        } else if (op == "from_si") rv.convertFromSI(units((int)jint(o, "units")));
        else if (op == "to_si") rv.convertToSI(units((int)jint(o, "units")));
        else throw BadRequest("RestartValue op " + op);
    });
}

void obs_rates(const data::Rates& r, const std::vector<std::string>& tracers, JW& o) {
    o.arr().b(r.flowing());
    for (int b = 0; b < num_rate_bits; ++b) {
        if (b == tracer_bit) { o.b(r.has(rate_opt(b))); continue; }
        o.b(r.has(rate_opt(b))).d(r.get(rate_opt(b), -1.5));
    }
    for (const auto& t : tracers) o.d(r.get(data::Rates::opt::tracer, -1.5, t));
    o.end_arr();
}
template <class Coll> void obs_items(const Coll& c, JW& o) {
    o.arr();
    for (int i = 0; i < (int)Coll::Item::NumItems; ++i) {
        const auto it = static_cast<typename Coll::Item>(i);
        o.b(c.has(it));
        if (c.has(it)) o.d(c.get(it));
    }
    o.end_arr();
}
void obs_guide(const data::GuideRateValue& g, JW& o) {
    o.arr();
    for (int i = 0; i < (int)data::GuideRateValue::Item::NumItems; ++i) {
        const auto it = static_cast<data::GuideRateValue::Item>(i);
        o.b(g.has(it));
        if (g.has(it)) o.d(g.get(it));
    }
    o.end_arr();
}
void obs_celldata(const data::CellData& c, JW& o) {
    o.arr().i((int)c.dim).i((int)c.target);
    c.visit([&](const auto& v) {
        using V = std::remove_cv_t<std::remove_reference_t<decltype(v)>>;
        if constexpr (std::is_same_v<V, std::monostate>) o.str("mono");
        else if constexpr (std::is_same_v<V, std::vector<double>>) { o.str("double"); dbls(o, v); }
        else { o.str("int"); o.arr(); for (int x : v) o.i(x); o.end_arr(); }
    });
    o.end_arr();
}
void obs_solution(const data::Solution& sol, JW& o) {
    o.arr();
    for (const auto& [name, cell] : sol) { o.str(name); obs_celldata(cell, o); }
    o.end_arr();
}

void obs_rv(const Opm::RestartValue& rv, const cJSON* q, JW& o) {
    const auto wells = qstrs(q, "wells"), sols = qstrs(q, "sol"), extras = qstrs(q, "extra"), tracers = qstrs(q, "tracers"),
               groups = qstrs(q, "groups");
    const auto idx = qints(q, "idx"), aqids = qints(q, "aqids");
    o.obj();
    // ---- solution
    o.key("solution").arr().i((long long)rv.solution.size());
    obs_solution(rv.solution, o);
    for (const auto& s : sols) {
        o.b(rv.solution.has(s));
        if (rv.solution.has(s)) {
            try { dbls(o, rv.solution.data<double>(s)); } catch (const std::exception&) { o.str("not-double"); }
            try { const auto& v = rv.solution.data<int>(s); o.arr(); for (int x : v) o.i(x); o.end_arr(); }
            catch (const std::exception&) { o.str("not-int"); }
        }
    }
    o.end_arr();
    // the solution's SI flag has no getter: it shows in what the unit conversions do to a copy
    for (int dir = 0; dir < 2; ++dir) {
        o.key(dir == 0 ? "to_si" : "from_si");
        try {
            Opm::RestartValue copy = rv;
            if (dir == 0) copy.convertToSI(units(1)); else copy.convertFromSI(units(1));
            JW sub;
            sub.arr();
            obs_solution(copy.solution, sub);
            for (const auto& e : copy.extra) dbls(sub, e.second);
            sub.end_arr();
            o.raw(sub.s);
        } catch (const std::exception& e) {
            o.str(std::string("exc:") + e.what());
        }
    }
    // ---- extra
    o.key("extra").arr();
    for (const auto& e : rv.extra) { o.arr().str(e.first.key).i((int)e.first.dim).b(e.first.required); dbls(o, e.second); o.end_arr(); }
    for (const auto& k : extras) {
        o.b(rv.hasExtra(k));
        try { const auto& v = rv.getExtra(k); dbls(o, v); } catch (const std::exception& e) { o.str(std::string("exc:") + e.what()); }
    }
    o.end_arr();
    // ---- wells
    o.key("wells").arr().i((long long)rv.wells.size());
    for (const auto& [name, w] : rv.wells) o.str(name);
    for (const auto& name : wells) {
        o.arr().str(name);
        for (int b = 0; b < num_rate_bits; ++b) {
            if (b == tracer_bit) continue;
            o.d(rv.wells.get(name, rate_opt(b)));
            for (long long i : idx) o.d(rv.wells.get(name, (std::size_t)i, rate_opt(b)));
        }
        for (const auto& t : tracers) o.d(rv.wells.get(name, data::Rates::opt::tracer, t));
        const auto it = rv.wells.find(name);
        if (it == rv.wells.end()) { o.null().end_arr(); continue; }
        const data::Well& w = it->second;
        o.obj();
        o.key("rates"); obs_rates(w.rates, tracers, o);
        o.kv_b("flowing", w.flowing()).kv_d("bhp", w.bhp).kv_d("thp", w.thp).kv_d("temperature", w.temperature).kv_i("control", w.control);
        o.key("filtrate").arr().d(w.filtrate.rate).d(w.filtrate.total).d(w.filtrate.concentration).end_arr();
        o.kv_i("status", (int)w.dynamicStatus);
        o.key("cc").arr().b(w.current_control.isProducer).i((int)w.current_control.prod).i((int)w.current_control.inj).end_arr();
        o.key("guide"); obs_guide(w.guide_rates, o);
        o.key("limits"); obs_items(w.limits, o);
        o.key("find").arr();
        for (long long i : idx) {
            const auto* c = w.find_connection((std::size_t)i);
            if (c == nullptr) o.null(); else o.i((long long)(c - w.connections.data()));
        }
        o.end_arr();
        o.key("connections").arr();
        for (const auto& c : w.connections) {
            o.arr().u(c.index);
            obs_rates(c.rates, tracers, o);
            o.d(c.pressure).d(c.reservoir_rate).d(c.cell_pressure).d(c.cell_saturation_water).d(c.cell_saturation_gas)
                .d(c.effective_Kh).d(c.trans_factor).d(c.d_factor).d(c.compact_mult);
            o.d(c.filtrate.rate).d(c.filtrate.total).d(c.filtrate.skin_factor).d(c.filtrate.thickness).d(c.filtrate.perm)
                .d(c.filtrate.poro).d(c.filtrate.radius).d(c.filtrate.area_of_flow);
            o.end_arr();
        }
        o.end_arr();
        o.key("segments").arr();
        {
            std::vector<std::size_t> segkeys;
            for (const auto& [k, s] : w.segments) segkeys.push_back(k);
            std::sort(segkeys.begin(), segkeys.end());
            for (const auto k : segkeys) {
                const auto& s = w.segments.at(k);
                using V = data::SegmentPressures::Value;
                o.arr().u(k).u(s.segNumber);
                obs_rates(s.rates, tracers, o);
                o.d(s.pressures[V::Pressure]).d(s.pressures[V::PDrop]).d(s.pressures[V::PDropHydrostatic])
                    .d(s.pressures[V::PDropAccel]).d(s.pressures[V::PDropFriction]);
                obs_items(s.velocity, o);
                obs_items(s.holdup, o);
                obs_items(s.viscosity, o);
                obs_items(s.density, o);
                o.end_arr();
            }
        }
        o.end_arr();
        o.end_obj();
        o.end_arr();
    }
    o.end_arr();
    // ---- groups and network nodes
    o.key("groups").arr();
    for (const auto& [name, g] : rv.grp_nwrk.groupData) {
        o.arr().str(name).i((int)g.currentControl.currentProdConstraint).i((int)g.currentControl.currentGasInjectionConstraint)
            .i((int)g.currentControl.currentWaterInjectionConstraint);
        obs_guide(g.guideRates.production, o);
        obs_guide(g.guideRates.injection, o);
        o.end_arr();
    }
    for (const auto& g : groups) o.b(rv.grp_nwrk.groupData.count(g) != 0).b(rv.grp_nwrk.nodeData.count(g) != 0);
    o.end_arr();
    o.key("nodes").arr();
    for (const auto& [name, n] : rv.grp_nwrk.nodeData) o.arr().str(name).d(n.pressure).d(n.converged_pressure).end_arr();
    o.end_arr();
    // ---- aquifers
    o.key("aquifers").arr();
    for (const auto& [id, a] : rv.aquifer) {
        o.arr().i(id).i(a.aquiferID).d(a.pressure).d(a.fluxRate).d(a.volume).d(a.initPressure).d(a.datumDepth);
        for (const char* k : {"AAQP", "ANQP", "AAQR", "ANQR", "AAQT", "ANQT", "AAQTD", "AAQPD", "NOSUCH"}) o.d(a.get(k));
        o.b(a.typeData.is<data::AquiferType::Fetkovich>()).b(a.typeData.is<data::AquiferType::CarterTracy>())
            .b(a.typeData.is<data::AquiferType::Numerical>());
        if (const auto* f = a.typeData.get<data::AquiferType::Fetkovich>()) o.d(f->initVolume).d(f->prodIndex).d(f->timeConstant);
        if (const auto* c = a.typeData.get<data::AquiferType::CarterTracy>())
            o.d(c->timeConstant).d(c->influxConstant).d(c->waterDensity).d(c->waterViscosity).d(c->dimensionless_time)
                .d(c->dimensionless_pressure);
        if (const auto* n = a.typeData.get<data::AquiferType::Numerical>()) dbls(o, n->initPressure);
        o.end_arr();
    }
    for (long long id : aqids) o.b(rv.aquifer.count((int)id) != 0);
    o.end_arr();
    o.end_obj();
}

// The object x is valid by construction, so an exception out of pack/unpack/compare is itself an observation
// (reported as "roundtrip_exc"), not a rejection of the input.
template <class T, class Make, class Obs>
void guarded_roundtrip(const char* label, const T& x, Make&& make_y, Obs&& obs, bool full, JW& out) {
    JW sub;
    sub.obj();
    try {
        roundtrip(label, x, make_y, obs, full, sub);
    } catch (const std::exception& e) {
        out.kv_s("roundtrip_exc", e.what());
        return;
    }
    sub.end_obj();
    out.key("result").raw(sub.s);
}

} // namespace

// {cmd:pack_dyn, cls: SummaryState|UDQState|ActionState|WellTestState|RestartValue,
//  testobj?: bool (the class's serializationTestObject() instead of a history),
//  ctor?: {...}, ops: [...], q: {query universe}, full?: bool}
PROBE_CMD(pack_dyn) {
    const std::string cls = jstr(req, "cls");
    const bool full = jbool(req, "full");
    const bool testobj = jbool(req, "testobj");
    const cJSON* q = jget(req, "q");
    const cJSON* ctor = jhas(req, "ctor") ? jget(req, "ctor") : nullptr;
    const cJSON* ops = jhas(req, "ops") ? jget(req, "ops") : nullptr;
    if (!testobj && ops == nullptr) throw BadRequest("pack_dyn needs ops or testobj");
    if (cls == "SummaryState") {
        Opm::SummaryState x = testobj ? Opm::SummaryState::serializationTestObject()
                                      : Opm::SummaryState(Opm::TimeService::from_time_t((std::time_t)jint(ctor, "start")), jdouble(ctor, "undef"));
        if (!testobj) apply_smry(x, ops);
        out.kv_i("entries", x.size());
        guarded_roundtrip("SummaryState", x, [] { return Opm::SummaryState(); },
                  [&](const Opm::SummaryState& s, JW& o) { obs_smry(s, q, o); }, full, out);
    } else if (cls == "UDQState") {
        Opm::UDQState x = testobj ? Opm::UDQState::serializationTestObject() : Opm::UDQState(jdouble(ctor, "undef"));
        if (!testobj) apply_udq(x, ops);
        guarded_roundtrip("UDQState", x, [] { return Opm::UDQState(); }, [&](const Opm::UDQState& s, JW& o) { obs_udq(s, q, o); }, full, out);
    } else if (cls == "ActionState") {
        Opm::Action::State x = testobj ? Opm::Action::State::serializationTestObject() : Opm::Action::State();
        if (!testobj) apply_action(x, ops);
        guarded_roundtrip("ActionState", x, [] { return Opm::Action::State(); },
                  [&](const Opm::Action::State& s, JW& o) { obs_action(s, q, o); }, full, out);
    } else if (cls == "WellTestState") {
        WTestCase x;
        if (testobj) {
            x.st = Opm::WellTestState::serializationTestObject();
            x.config = Opm::WellTestConfig::serializationTestObject();
        } else apply_wtest(x, ops);
        guarded_roundtrip("WellTestState", x.st, [] { return Opm::WellTestState(); },
                  [&](const Opm::WellTestState& s, JW& o) { obs_wtest(s, x.config, q, o); }, full, out);
    } else if (cls == "RestartValue") {
        Opm::RestartValue x = testobj ? Opm::RestartValue::serializationTestObject()
                                      : Opm::RestartValue(data::Solution(jbool(ctor, "si", true)), data::Wells{},
                                                          data::GroupAndNetworkValues{}, data::Aquifers{});
        if (!testobj) apply_rv(x, ops);
        guarded_roundtrip("RestartValue", x, [] { return Opm::RestartValue(); },
                  [&](const Opm::RestartValue& s, JW& o) { obs_rv(s, q, o); }, full, out);
    } else throw BadRequest("pack_dyn: unknown class " + cls);
}
