#include "probe.hpp"

#include <opm/common/OpmLog/OpmLog.hpp>

#include <cstdlib>
#include <cxxabi.h>
#include <iostream>
#include <string>
#include <typeinfo>
#include <unistd.h>
#include <sys/stat.h>

namespace probe {
std::map<std::string, Handler>& registry() {
    static std::map<std::string, Handler> r;
    return r;
}
static std::string g_scratch;
std::string scratch_dir() { return g_scratch; }
}

static bool g_in_request = false;
static void exit_tripwire() {
    if (g_in_request) {
        // some path called exit() while serving a request: make it visible
        std::fputs("\n@@R {\"fatal\":\"exit-called-inside-request\"}\n", stdout);
        std::fflush(stdout);
    }
}

static std::string demangle(const char* n) {
    int st = 0;
    char* d = abi::__cxa_demangle(n, nullptr, nullptr, &st);
    std::string r = (st == 0 && d) ? d : n;
    std::free(d);
    return r;
}

int main(int argc, char** argv) {
    std::atexit(exit_tripwire);
    const char* base = std::getenv("VERIF_TMP");
    std::string tmpl = std::string(base ? base : "/tmp") + "/opmprobe.XXXXXX";
    std::vector<char> buf(tmpl.begin(), tmpl.end());
    buf.push_back(0);
    if (!mkdtemp(buf.data())) { std::perror("mkdtemp"); return 3; }
    probe::g_scratch = buf.data();

    std::ios::sync_with_stdio(false);
    std::string line;
    while (std::getline(std::cin, line)) {
        if (line.empty()) continue;
        cJSON* req = cJSON_Parse(line.c_str());
        probe::JW out;
        out.obj();
        if (!req) {
            out.kv_s("exc", "BadRequest").kv_s("what", "unparsable json");
        } else {
            std::string cmd;
            try {
                cmd = probe::jstr(req, "cmd");
                auto it = probe::registry().find(cmd);
                if (it == probe::registry().end()) throw probe::BadRequest("unknown cmd " + cmd);
                probe::JW body;
                body.obj();
                g_in_request = true;
                it->second(req, body);
                g_in_request = false;
                body.end_obj();
                out.key("ok").raw(body.s);
            } catch (const probe::BadRequest& e) {
                g_in_request = false;
                out.kv_s("exc", "BadRequest").kv_s("what", e.what());
            } catch (const std::exception& e) {
                g_in_request = false;
                out.kv_s("exc", demangle(typeid(e).name())).kv_s("what", e.what());
            } catch (...) {
                g_in_request = false;
                out.kv_s("exc", "NON_STD_EXCEPTION").kv_s("what", "");
            }
            cJSON_Delete(req);
        }
        out.end_obj();
        // the library occasionally prints to stdout itself: replies carry a marker at line start
        std::cout.flush();
        std::fputs("\n@@R ", stdout);
        std::fwrite(out.s.data(), 1, out.s.size(), stdout);
        std::fputc('\n', stdout);
        std::fflush(stdout);
        Opm::OpmLog::removeAllBackends();
    }
    std::string rm = "rm -rf '" + probe::g_scratch + "'";
    if (std::system(rm.c_str())) {}
    return 0;
}

PROBE_CMD(ping) {
    (void)req;
    out.kv_s("pong", "1");
    out.kv_s("scratch", probe::scratch_dir());
}
