// Commands for C15 (saturation functions: tables, end-point scaling, hysteresis).
// Observations only: an EclMaterialLawManager is initialised from an EclipseState built from the
// request's deck text; per cell a small "program" of operations is executed against
// materialLawParams(cell) and every computed number is returned.
#include <config.h>
#include "probe.hpp"

#include <opm/input/eclipse/Deck/Deck.hpp>
#include <opm/input/eclipse/EclipseState/EclipseState.hpp>
#include <opm/input/eclipse/EclipseState/Grid/FieldPropsManager.hpp>
#include <opm/input/eclipse/Parser/ErrorGuard.hpp>
#include <opm/input/eclipse/Parser/InputErrorAction.hpp>
#include <opm/input/eclipse/Parser/ParseContext.hpp>
#include <opm/input/eclipse/Parser/Parser.hpp>

#include <opm/material/fluidmatrixinteractions/EclEpsScalingPoints.hpp>
#include <opm/material/fluidmatrixinteractions/EclMaterialLawManager.hpp>
#include <opm/material/fluidmatrixinteractions/MaterialTraits.hpp>
#include <opm/material/fluidstates/SimpleModularFluidState.hpp>

#include <array>
#include <functional>
#include <string>
#include <vector>

using namespace probe;

namespace {

enum { waterPhaseIdx = 0, oilPhaseIdx = 1, gasPhaseIdx = 2, numPhases = 3 };
using Traits = Opm::ThreePhaseMaterialTraits<double, waterPhaseIdx, oilPhaseIdx, gasPhaseIdx>;
using Manager = Opm::EclMaterialLawManager<Traits>;
using MaterialLaw = Manager::MaterialLaw;
using FluidState = Opm::SimpleModularFluidState<double, 3, 3, void,
                                                /*storePressure=*/false, /*storeTemperature=*/false,
                                                /*storeComposition=*/false, /*storeFugacity=*/false,
                                                /*storeSaturation=*/true, /*storeDensity=*/false,
                                                /*storeViscosity=*/false, /*storeEnthalpy=*/false>;

FluidState make_fs(const cJSON* s)
{
    if (cJSON_GetArraySize(s) != 3) throw BadRequest("saturation triple expected");
    FluidState fs;
    fs.setSaturation(waterPhaseIdx, jdouble(cJSON_GetArrayItem(s, 0)));
    fs.setSaturation(oilPhaseIdx, jdouble(cJSON_GetArrayItem(s, 1)));
    fs.setSaturation(gasPhaseIdx, jdouble(cJSON_GetArrayItem(s, 2)));
    return fs;
}

void eval_point(Manager& mgr, unsigned elem, const FluidState& fs, JW& out)
{
    // the two-phase laws leave the entry of the absent phase untouched: pre-set it to 0
    std::array<double, numPhases> kr = {0.0, 0.0, 0.0};
    std::array<double, numPhases> pc = {0.0, 0.0, 0.0};
    MaterialLaw::relativePermeabilities(kr, mgr.materialLawParams(elem), fs);
    MaterialLaw::capillaryPressures(pc, mgr.materialLawParams(elem), fs);
    out.arr();
    for (double v : kr) out.d(v);
    for (double v : pc) out.d(v);
    out.end_arr();
}

void eps_info(const Opm::EclEpsScalingPointsInfo<double>& e, JW& out)
{
    out.obj()
        .kv_d("Swl", e.Swl).kv_d("Sgl", e.Sgl).kv_d("Swcr", e.Swcr).kv_d("Sgcr", e.Sgcr)
        .kv_d("Sowcr", e.Sowcr).kv_d("Sogcr", e.Sogcr).kv_d("Swu", e.Swu).kv_d("Sgu", e.Sgu)
        .kv_d("maxPcow", e.maxPcow).kv_d("maxPcgo", e.maxPcgo)
        .kv_d("Krwr", e.Krwr).kv_d("Krgr", e.Krgr).kv_d("Krorw", e.Krorw).kv_d("Krorg", e.Krorg)
        .kv_d("maxKrw", e.maxKrw).kv_d("maxKrg", e.maxKrg).kv_d("maxKrow", e.maxKrow).kv_d("maxKrog", e.maxKrog)
        .end_obj();
}

} // namespace

// {cmd:satfunc_run, deck:"...", cells:[{elem:i, prog:[op,...]}, ...]}
//   op = {"op":"eval", "s":[[Sw,So,Sg],...]}      -> {"eval":[[krw,kro,krg,pcw,pco,pcg],...]}
//      | {"op":"update", "s":[Sw,So,Sg]}          -> {"update":bool}       (Manager::updateHysteresis)
//      | {"op":"hystparams"}                      -> {"ow":[soMax,swMax,swMin] | null, "go":[sgMax,shMax,soMin] | null}
// -> {nelem, eps, hyst, pchyst, cells:[{elem, satnum, imbnum, info:{scaled oil-water end-point info}, res:[...]}]}
// Saturations and results in SI (pressures in Pa), doubles as hex floats.
PROBE_CMD(satfunc_run) {
    const std::string text = jstr(req, "deck");

    Opm::ParseContext ctx(Opm::InputErrorAction::THROW_EXCEPTION);
    Opm::ErrorGuard guard;
    struct Clear { Opm::ErrorGuard& g; ~Clear() { g.clear(); } } clear{guard};

    const Opm::Deck deck = Opm::Parser().parseString(text, ctx, guard);
    const Opm::EclipseState es(deck);

    const std::function<std::vector<int>(const Opm::FieldPropsManager&, const std::string&, bool)> lookup =
        [](const Opm::FieldPropsManager& fp, const std::string& kw, bool needsTranslation) {
            const auto& raw = fp.get_int(kw);
            std::vector<int> dest(raw.size());
            for (std::size_t i = 0; i < raw.size(); ++i) dest[i] = raw[i] - (needsTranslation ? 1 : 0);
            return dest;
        };
    const std::function<unsigned(unsigned)> ident = [](unsigned i) { return i; };

    const std::size_t nelem = es.fieldProps().active_size();
    Manager mgr;
    mgr.initFromState(es);
    mgr.initParamsForElements(es, nelem, lookup, ident);

    out.kv_i("nelem", nelem);
    out.kv_b("eps", mgr.enableEndPointScaling());
    out.kv_b("hyst", mgr.enableHysteresis());
    out.kv_b("pchyst", mgr.enablePCHysteresis());
    out.kv_b("nwhyst", mgr.enableNonWettingHysteresis());
    out.kv_b("whyst", mgr.enableWettingHysteresis());
    out.key("cells").arr();
    jforeach(jget(req, "cells"), [&](const cJSON* c) {
        const long long e = jint(c, "elem");
        if (e < 0 || (std::size_t)e >= nelem) throw BadRequest("elem out of range");
        const unsigned elem = (unsigned)e;
        out.obj();
        out.kv_i("elem", elem);
        out.kv_i("satnum", mgr.satnumRegionIdx(elem));
        out.kv_i("imbnum", mgr.enableHysteresis() ? mgr.imbnumRegionIdx(elem) : -1);
        out.key("info");
        eps_info(mgr.oilWaterScaledEpsInfoDrainage(elem), out);
        out.key("res").arr();
        jforeach(jget(c, "prog"), [&](const cJSON* op) {
            const std::string what = jstr(op, "op");
            out.obj();
            if (what == "eval") {
                out.key("eval").arr();
                jforeach(jget(op, "s"), [&](const cJSON* s) { eval_point(mgr, elem, make_fs(s), out); });
                out.end_arr();
            } else if (what == "update") {
                const FluidState fs = make_fs(jget(op, "s"));
                out.kv_b("update", mgr.updateHysteresis(fs, elem));
            } else if (what == "hystparams") {
                if (mgr.enableHysteresis()) {
                    double a = 0, b = 0, c2 = 0;
                    // the getters read both two-phase parameter objects; absent systems hold their initial values
                    mgr.oilWaterHysteresisParams(a, b, c2, elem);
                    out.key("ow").arr().d(a).d(b).d(c2).end_arr();
                    mgr.gasOilHysteresisParams(a, b, c2, elem);
                    out.key("go").arr().d(a).d(b).d(c2).end_arr();
                } else {
                    out.key("ow").null();
                    out.key("go").null();
                }
            } else {
                throw BadRequest("unknown op " + what);
            }
            out.end_obj();
        });
        out.end_arr();
        out.end_obj();
    });
    out.end_arr();
}
