// libFuzzer target for C20, result-file side (T4): any byte string opened as an Eclipse result file.
// byte 0 selects the reader and the file extension (formatted / unformatted); the rest is the file.
// Oracle as in fz_deck.cpp: return or std::exception.
#include <opm/io/eclipse/EclFile.hpp>
#include <opm/io/eclipse/EGrid.hpp>
#include <opm/io/eclipse/ERft.hpp>
#include <opm/io/eclipse/ERst.hpp>
#include <opm/io/eclipse/ESmry.hpp>
#include <opm/io/eclipse/EInit.hpp>

#include <cstdint>
#include <cstdio>
#include <cstdlib>
#include <filesystem>
#include <fstream>
#include <string>
#include <unistd.h>
#include <vector>

namespace E = Opm::EclIO;
static std::string g_dir;
static unsigned long long g_n = 0, g_opened = 0, g_arrays = 0;

static void dump_counters() {
    const char* p = std::getenv("FZ_COUNTERS");
    if (!p) return;
    std::string fn = std::string(p) + "." + std::to_string(getpid());
    if (FILE* f = std::fopen(fn.c_str(), "w")) {
        std::fprintf(f, "{\"execs\":%llu,\"opened\":%llu,\"arrays_read\":%llu}\n", g_n, g_opened, g_arrays);
        std::fclose(f);
    }
}

extern "C" int LLVMFuzzerInitialize(int*, char***) {
    const char* base = std::getenv("FZ_TMP");
    std::string tmpl = std::string(base ? base : "/tmp") + "/fzecl.XXXXXX";
    std::vector<char> b(tmpl.begin(), tmpl.end());
    b.push_back(0);
    if (!mkdtemp(b.data())) std::abort();
    g_dir = b.data();
    std::atexit(dump_counters);
    return 0;
}

static void put(const std::string& path, const uint8_t* d, size_t n) {
    std::ofstream o(path, std::ios::binary | std::ios::trunc);
    o.write(reinterpret_cast<const char*>(d), (std::streamsize)n);
}

template <class F> static void read_all(F& f) {
    auto list = f.getList();
    for (std::size_t i = 0; i < list.size() && i < 64; ++i) {
        try {
            switch (std::get<1>(list[i])) {
            case E::INTE: f.template get<int>((int)i); break;
            case E::REAL: f.template get<float>((int)i); break;
            case E::DOUB: f.template get<double>((int)i); break;
            case E::LOGI: f.template get<bool>((int)i); break;
            case E::CHAR:
            case E::C0NN: f.template get<std::string>((int)i); break;
            default: break;
            }
            ++g_arrays;
        } catch (const std::exception&) {}
    }
}

extern "C" int LLVMFuzzerTestOneInput(const uint8_t* data, size_t size) {
    if (size < 1) return 0;
    ++g_n;
    if ((g_n & 0x3ff) == 0) dump_counters();
    const unsigned kind = data[0] % 10;
    const uint8_t* d = data + 1;
    const size_t n = size - 1;
    try {
        switch (kind) {
        case 0: case 1: {
            const std::string p = g_dir + (kind ? "/F.FDATA" : "/F.DATAX");
            put(p, d, n);
            E::EclFile f(p, E::EclFile::Formatted{kind == 1});
            ++g_opened;
            read_all(f);
            f.is_ix();
            break;
        }
        case 2: case 3: {
            const std::string p = g_dir + (kind == 3 ? "/F.FUNRST" : "/F.UNRST");
            put(p, d, n);
            E::ERst r(p);
            ++g_opened;
            for (int s : r.listOfReportStepNumbers()) {
                try {
                    auto arrays = r.listOfRstArrays(s);
                    r.loadReportStepNumber(s);
                    g_arrays += arrays.size();
                    for (auto& a : arrays) r.occurrence_count(std::get<0>(a), s);
                } catch (const std::exception&) {}
            }
            break;
        }
        case 4: case 5: {
            const std::string p = g_dir + (kind == 5 ? "/F.FEGRID" : "/F.EGRID");
            put(p, d, n);
            E::EGrid g(p);
            ++g_opened;
            auto dims = g.dimension();
            if ((long)dims[0] * dims[1] * dims[2] < 100000 && dims[0] > 0 && dims[1] > 0 && dims[2] > 0) {
                g.load_grid_data();
                std::array<double, 8> X, Y, Z;
                try { g.getCellCorners(0, X, Y, Z); } catch (const std::exception&) {}
                try { g.activeCells(); g.get_mapaxes(); g.get_mapunits(); } catch (const std::exception&) {}
                ++g_arrays;
            }
            break;
        }
        case 6: case 7: {
            // summary: spec part and data part split at the first 0x1C byte
            size_t cut = 0;
            while (cut < n && d[cut] != 0x1c) ++cut;
            const bool fmt = kind == 7;
            const std::string spec = g_dir + (fmt ? "/S.FSMSPEC" : "/S.SMSPEC");
            const std::string uns = g_dir + (fmt ? "/S.FUNSMRY" : "/S.UNSMRY");
            put(spec, d, cut);
            if (cut < n) put(uns, d + cut + 1, n - cut - 1); else put(uns, d, 0);
            E::ESmry s(spec, false);
            ++g_opened;
            s.loadData();
            auto kws = s.keywordList();
            for (std::size_t i = 0; i < kws.size() && i < 32; ++i) {
                try { s.get(kws[i]); s.get_unit(kws[i]); ++g_arrays; } catch (const std::exception&) {}
            }
            try { s.dates(); s.startdate(); } catch (const std::exception&) {}
            break;
        }
        case 8: {
            const std::string p = g_dir + "/F.RFT";
            put(p, d, n);
            E::ERft r(p);
            ++g_opened;
            for (auto& rep : r.listOfRftReports()) {
                try { r.listOfRftArrays(std::get<0>(rep), std::get<1>(rep)); ++g_arrays; } catch (const std::exception&) {}
            }
            break;
        }
        default: {
            const std::string p = g_dir + "/F.INIT";
            put(p, d, n);
            E::EInit in(p);
            ++g_opened;
            try { in.list_arrays(); ++g_arrays; } catch (const std::exception&) {}
            break;
        }
        }
    } catch (const std::exception&) {
    }
    return 0;
}
