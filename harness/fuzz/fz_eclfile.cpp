// libFuzzer target for C20, result-file side (T4): any byte string opened as an Eclipse result file.
// byte 0 selects the reader and the file extension (formatted / unformatted); the rest is the file.
// Oracle as in fz_deck.cpp: return or std::exception.
#include <ecl_drive.hpp>
#include <opm/io/eclipse/EclFile.hpp>
#include <opm/io/eclipse/EGrid.hpp>
#include <opm/io/eclipse/ERft.hpp>
#include <opm/io/eclipse/ERst.hpp>
#include <opm/io/eclipse/ESmry.hpp>
#include <opm/io/eclipse/ExtESmry.hpp>
#include <opm/io/eclipse/EInit.hpp>

#include <cstdint>
#include <cstdio>
#include <cstdlib>
#include <filesystem>
#include <fstream>
#include <string>
#include <unistd.h>
#include <vector>

namespace E = Opm::EclIO;
static std::string g_dir;
static unsigned long long g_n = 0, g_opened = 0, g_arrays = 0;

static void dump_counters() {
    const char* p = std::getenv("FZ_COUNTERS");
    if (!p) return;
    std::string fn = std::string(p) + "." + std::to_string(getpid());
    if (FILE* f = std::fopen(fn.c_str(), "w")) {
        std::fprintf(f, "{\"execs\":%llu,\"opened\":%llu,\"arrays_read\":%llu}\n", g_n, g_opened, g_arrays);
        std::fclose(f);
    }
}

extern "C" int LLVMFuzzerInitialize(int*, char***) {
    const char* base = std::getenv("FZ_TMP");
    std::string tmpl = std::string(base ? base : "/tmp") + "/fzecl.XXXXXX";
    std::vector<char> b(tmpl.begin(), tmpl.end());
    b.push_back(0);
    if (!mkdtemp(b.data())) std::abort();
    g_dir = b.data();
    std::atexit(dump_counters);
    return 0;
}

extern "C" int LLVMFuzzerTestOneInput(const uint8_t* data, size_t size) {
    if (size < 1) return 0;
    ++g_n;
    if ((g_n & 0x3ff) == 0) dump_counters();
    static ecldrive::Counters cnt;
    ecldrive::drive(data[0] % 11, data + 1, size - 1, g_dir, cnt);
    g_opened = cnt.opened;
    g_arrays = cnt.arrays;
    return 0;
}


// ---------------------------------------------------------------------------------------------------------------
// Structure-aware mutation for the unformatted readers: the input is walked as Fortran records
// ([16][name8 count4 type4][16] then data blocks [len][...][len]) and ONE framing field is changed - a block's
// leading or trailing length marker, an array's element count, its type string (incl. C0nn widths), the header
// length, a truncation at a record boundary, an array duplicated or dropped, an integer payload word replaced by an
// extreme value.  Byte-level mutation (libFuzzer's own) is used for every third call and for formatted inputs.
// ---------------------------------------------------------------------------------------------------------------
#include <cstring>
#include <random>

extern "C" size_t LLVMFuzzerMutate(uint8_t* data, size_t size, size_t max_size);

namespace {
inline int32_t be32(const uint8_t* p) { return int32_t((uint32_t(p[0]) << 24) | (uint32_t(p[1]) << 16) | (uint32_t(p[2]) << 8) | uint32_t(p[3])); }
inline void put32(uint8_t* p, int32_t v) { uint32_t u = uint32_t(v); p[0] = u >> 24; p[1] = u >> 16; p[2] = u >> 8; p[3] = u; }
struct Arr { size_t hdr; size_t end; int32_t count; std::vector<size_t> blocks; };     // blocks: offsets of leading markers

int elsize_of(const uint8_t* t) {
    if (!std::memcmp(t, "INTE", 4) || !std::memcmp(t, "REAL", 4) || !std::memcmp(t, "LOGI", 4)) return 4;
    if (!std::memcmp(t, "DOUB", 4) || !std::memcmp(t, "CHAR", 4)) return 8;
    if (t[0] == 'C' && t[1] == '0') { int n = (t[2] - '0') * 10 + (t[3] - '0'); return (n > 0 && n < 100) ? n : -1; }
    return -1;      // MESS and unknown types carry no data
}

std::vector<Arr> walk(const uint8_t* d, size_t n) {
    std::vector<Arr> out;
    size_t p = 1;
    while (p + 24 <= n && out.size() < 4096) {
        if (be32(d + p) != 16 || be32(d + p + 20) != 16) {
            // the summary inputs join two files with one 0x1C byte: step over it once
            if (d[p] == 0x1c && p + 25 <= n && be32(d + p + 1) == 16) { ++p; continue; }
            break;
        }
        Arr a; a.hdr = p; a.count = be32(d + p + 12);
        const int es = elsize_of(d + p + 16);
        p += 24;
        long long remaining = (es > 0 && a.count > 0) ? (long long)a.count * es : 0;
        while (remaining > 0 && p + 8 <= n) {
            const int32_t len = be32(d + p);
            if (len <= 0 || p + 8 + size_t(len) > n) { remaining = -1; break; }
            a.blocks.push_back(p);
            p += 8 + size_t(len);
            remaining -= len;
        }
        a.end = p;
        out.push_back(a);
        if (remaining != 0) break;
    }
    return out;
}
} // namespace

extern "C" size_t LLVMFuzzerCustomMutator(uint8_t* data, size_t size, size_t max_size, unsigned int seed) {
    std::minstd_rand rng(seed);
    auto pick = [&](size_t n) { return n ? size_t(rng()) % n : 0; };
    if (size < 30 || pick(3) == 0) return LLVMFuzzerMutate(data, size, max_size);
    const unsigned kind = data[0] % 11;
    const bool unformatted = kind == 0 || kind == 2 || kind == 4 || kind == 6 || kind == 8 || kind == 9 || kind == 10;
    if (!unformatted) return LLVMFuzzerMutate(data, size, max_size);
    const auto arrs = walk(data, size);
    if (arrs.empty()) return LLVMFuzzerMutate(data, size, max_size);
    const Arr& a = arrs[pick(arrs.size())];
    static const int32_t deltas[] = {-8, -4, -1, 1, 3, 4, 8, 16};
    static const char* types[] = {"INTE", "REAL", "DOUB", "LOGI", "CHAR", "MESS", "C008", "C012", "C000", "C099", "C001", "X231", "C0AB"};
    switch (pick(9)) {
    case 0:     // leading marker of a data block
        if (!a.blocks.empty()) { uint8_t* q = data + a.blocks[pick(a.blocks.size())]; put32(q, int32_t(uint32_t(be32(q)) + uint32_t(deltas[pick(8)]))); return size; }
        break;
    case 1:     // trailing marker of a data block
        if (!a.blocks.empty()) { uint8_t* q = data + a.blocks[pick(a.blocks.size())]; uint8_t* t = q + 4 + be32(q); put32(t, int32_t(uint32_t(be32(t)) + uint32_t(deltas[pick(8)]))); return size; }
        break;
    case 2: {   // element count
        static const int32_t counts[] = {0, 1, -1, 105, 106, 1000, 1001, 2147483647, -2147483647 - 1, 65536};
        const size_t c = pick(14);
        const long long wide = c < 10 ? counts[c] : (c < 12 ? (long long)a.count + deltas[pick(8)] : (long long)a.count * 2);
        put32(data + a.hdr + 12, int32_t(uint32_t(wide & 0xffffffffLL)));
        return size;
    }
    case 3:     // type string
        std::memcpy(data + a.hdr + 16, types[pick(13)], 4);
        return size;
    case 4: {   // header framing
        put32(data + a.hdr + (pick(2) ? 20 : 0), (int32_t[]){0, 15, 17, 24, -16}[pick(5)]);
        return size;
    }
    case 5: {   // cut at / just behind a record boundary
        size_t cut = pick(2) ? a.end : a.hdr + (size_t[]){0, 4, 12, 20, 24, 28}[pick(6)];
        if (cut > 1 && cut <= size) return cut;
        break;
    }
    case 6: {   // duplicate the array
        const size_t len = a.end - a.hdr;
        if (len > 0 && size + len <= max_size) {
            std::memmove(data + a.end + len, data + a.end, size - a.end);
            std::memmove(data + a.end, data + a.hdr, len);
            return size + len;
        }
        break;
    }
    case 7: {   // drop the array
        const size_t len = a.end - a.hdr;
        if (len > 0 && len < size - 1) { std::memmove(data + a.hdr, data + a.end, size - a.end); return size - len; }
        break;
    }
    default:    // an extreme word inside the payload (counts, indices, dates live in INTE arrays)
        if (!a.blocks.empty()) {
            const size_t b = a.blocks[pick(a.blocks.size())];
            const int32_t len = be32(data + b);
            if (len >= 4) {
                static const int32_t vals[] = {0, -1, 1, 2147483647, -2147483647 - 1, 1000000000, 13, 32, 366, 100000, 9999};
                put32(data + b + 4 + 4 * pick(size_t(len) / 4), vals[pick(11)]);
                return size;
            }
        }
        break;
    }
    return LLVMFuzzerMutate(data, size, max_size);
}
