// libFuzzer target for C20, deck side (T1 parseString, T2 root + INCLUDE files, T3 state construction).
//
// Input layout:  byte 0 = options, then text.  Chunks separated by 0x1C: chunk 0 is the root deck, every
// further chunk starts with a line holding its relative path, the rest is the file's content.  With one
// chunk the text goes through Parser::parseString, otherwise the chunks are written below a per-process
// scratch directory and the root is parsed with Parser::parseFile.
//   options bits 0-1: ParseContext (0 all THROW, 1 all WARN, 2 all IGNORE, 3 library default with the
//                     EXIT1 key remapped to THROW);  env FZ_STATE=1: also build EclipseState, Schedule,
//                     SummaryConfig from every Deck the parser returned.
// Oracle: returns normally or throws something derived from std::exception; anything else (sanitizer
// report, signal, assert, foreign exception, exit()) is reported by libFuzzer as a crash artifact.
#include <opm/common/OpmLog/OpmLog.hpp>
#include <opm/input/eclipse/Deck/Deck.hpp>
#include <opm/input/eclipse/EclipseState/EclipseState.hpp>
#include <opm/input/eclipse/EclipseState/SummaryConfig/SummaryConfig.hpp>
#include <opm/input/eclipse/Parser/ErrorGuard.hpp>
#include <opm/input/eclipse/Parser/InputErrorAction.hpp>
#include <opm/input/eclipse/Parser/ParseContext.hpp>
#include <opm/input/eclipse/Parser/Parser.hpp>
#include <opm/input/eclipse/Python/Python.hpp>
#include <opm/input/eclipse/Schedule/Schedule.hpp>

#include <algorithm>
#include <cstdint>
#include <cstdio>
#include <cstdlib>
#include <cstring>
#include <filesystem>
#include <fstream>
#include <memory>
#include <string>
#include <unistd.h>
#include <vector>

namespace fs = std::filesystem;

static const Opm::Parser& parser() {
    static const Opm::Parser p;
    return p;
}

static std::string g_dir;
static bool g_state = false;
static unsigned long long g_n = 0, g_deck = 0, g_es = 0, g_sched = 0, g_smry = 0, g_multi = 0;

static void dump_counters() {
    const char* p = std::getenv("FZ_COUNTERS");
    if (!p) return;
    std::string fn = std::string(p) + "." + std::to_string(getpid());
    if (FILE* f = std::fopen(fn.c_str(), "w")) {
        std::fprintf(f, "{\"execs\":%llu,\"deck\":%llu,\"eclipse_state\":%llu,\"schedule\":%llu,\"summary_config\":%llu,\"multi_file\":%llu}\n",
                     g_n, g_deck, g_es, g_sched, g_smry, g_multi);
        std::fclose(f);
    }
}

extern "C" int LLVMFuzzerInitialize(int*, char***) {
    const char* base = std::getenv("FZ_TMP");
    std::string tmpl = std::string(base ? base : "/tmp") + "/fzdeck.XXXXXX";
    std::vector<char> b(tmpl.begin(), tmpl.end());
    b.push_back(0);
    if (!mkdtemp(b.data())) std::abort();
    g_dir = b.data();
    g_state = std::getenv("FZ_STATE") && std::string(std::getenv("FZ_STATE")) == "1";
    parser();
    std::atexit(dump_counters);
    return 0;
}

static bool safe_rel(const std::string& p) {
    if (p.empty() || p.size() > 60 || p[0] == '/') return false;
    if (p.find("..") != std::string::npos) return false;
    for (unsigned char c : p)
        if (!(std::isalnum(c) || c == '.' || c == '_' || c == '/' || c == '-')) return false;
    return true;
}

extern "C" int LLVMFuzzerTestOneInput(const uint8_t* data, size_t size) {
    if (size < 1) return 0;
    ++g_n;
    if ((g_n & 0x3ff) == 0) dump_counters();
    const unsigned opt = data[0];
    std::string text(reinterpret_cast<const char*>(data + 1), size - 1);

    Opm::ParseContext ctx;
    switch (opt & 3) {
    case 0: ctx = Opm::ParseContext(Opm::InputErrorAction::THROW_EXCEPTION); break;
    case 1: ctx = Opm::ParseContext(Opm::InputErrorAction::WARN); break;
    case 2: ctx = Opm::ParseContext(Opm::InputErrorAction::IGNORE); break;
    default: ctx.update(Opm::ParseContext::PARSE_MISSING_INCLUDE, Opm::InputErrorAction::THROW_EXCEPTION); break;
    }
    Opm::ErrorGuard errors;
    struct Clear { Opm::ErrorGuard& e; ~Clear() { e.clear(); } } clear{errors};

    // split into files
    std::vector<std::string> chunks;
    {
        std::size_t pos = 0;
        while (true) {
            auto q = text.find('\x1c', pos);
            if (q == std::string::npos) { chunks.push_back(text.substr(pos)); break; }
            chunks.push_back(text.substr(pos, q - pos));
            pos = q + 1;
            if (chunks.size() >= 6) { chunks.push_back(text.substr(pos)); break; }
        }
    }
    std::unique_ptr<Opm::Deck> deck;
    try {
        if (chunks.size() == 1) {
            deck = std::make_unique<Opm::Deck>(parser().parseString(chunks[0], ctx, errors));
        } else {
            ++g_multi;
            std::error_code ec;
            fs::remove_all(g_dir + "/d", ec);
            fs::create_directories(g_dir + "/d");
            {
                std::ofstream o(g_dir + "/d/ROOT.DATA", std::ios::binary);
                o.write(chunks[0].data(), (std::streamsize)chunks[0].size());
            }
            for (std::size_t i = 1; i < chunks.size(); ++i) {
                auto nl = chunks[i].find('\n');
                std::string name = chunks[i].substr(0, nl);
                std::string body = nl == std::string::npos ? std::string() : chunks[i].substr(nl + 1);
                if (!safe_rel(name)) name = "inc" + std::to_string(i) + ".inc";
                fs::path p = fs::path(g_dir + "/d") / name;
                fs::create_directories(p.parent_path(), ec);
                std::ofstream o(p, std::ios::binary);
                o.write(body.data(), (std::streamsize)body.size());
            }
            deck = std::make_unique<Opm::Deck>(parser().parseFile(g_dir + "/d/ROOT.DATA", ctx, errors));
        }
    } catch (const std::exception&) {
        Opm::OpmLog::removeAllBackends();
        return 0;
    }
    ++g_deck;
    if (g_state && deck) {
        std::unique_ptr<Opm::EclipseState> es;
        try {
            es = std::make_unique<Opm::EclipseState>(*deck);
            ++g_es;
        } catch (const std::exception&) {}
        if (es) {
            std::unique_ptr<Opm::Schedule> sched;
            try {
                sched = std::make_unique<Opm::Schedule>(*deck, *es, ctx, errors, std::make_shared<Opm::Python>());
                ++g_sched;
            } catch (const std::exception&) {}
            if (sched) {
                try {
                    Opm::SummaryConfig sc(*deck, *sched, es->fieldProps(), es->aquifer(), ctx, errors);
                    ++g_smry;
                } catch (const std::exception&) {}
            }
        }
    }
    Opm::OpmLog::removeAllBackends();
    return 0;
}

// ---------------------------------------------------------------------------------------------
// structure-aware mutator: token / line / keyword level edits with a dictionary, plus byte noise
extern "C" size_t LLVMFuzzerMutate(uint8_t* data, size_t size, size_t max_size);

namespace {
struct Rng {
    std::uint64_t s;
    explicit Rng(unsigned seed) : s(seed * 0x9E3779B97F4A7C15ull + 0x1234567) {}
    std::uint64_t next() { s ^= s << 13; s ^= s >> 7; s ^= s << 17; return s; }
    std::size_t n(std::size_t k) { return k ? (std::size_t)(next() % k) : 0; }
};

const std::vector<std::string>& dict() {
    static std::vector<std::string> d = [] {
        std::vector<std::string> v = parser().getAllDeckNames();
        const char* extra[] = {"1*", "0*", "-1*", "3*", "99999999*", "*5", "*", "'", "/", "//", "--", "1e308", "-1e-320",
                               "2147483647", "-2147483648", "2147483648", "'P1'", "'*'", "'P*'", "OPEN", "SHUT", "ORAT", "1",
                               "0", "-1", "1.0", "ABCDEFGHIJ", "'A B'", "INCLUDE", "ENDINC", "END", "TITLE", "/ /", "\t", "\r",
                               "3*1.5", "2*'X'", "1*1*", "**", "1.5D3", "0x10", "nan", "inf", "'", "''", "1 JAN 2020 /",
                               "\x1c" "inc9.inc\n", "1000000", "'inc1.inc'", "'sub/nested1.inc'", "ACTIONX", "ENDACTIO",
                               "UDQ", "DEFINE", "ASSIGN", "WOPR", "FU_X", "+", "-", "(", ")", "^", ">", "AND", "OR",
                               "PATHS", "'INCDIR' '$INCDIR/x' /", "'$INCDIR/inc7.inc'", "'A' '$B' /", "'B' '$A' /", "'$A/inc7.inc'", "$"};
        for (auto e : extra) v.emplace_back(e);
        return v;
    }();
    return d;
}

std::vector<std::string> split_lines(const std::string& s) {
    std::vector<std::string> l;
    std::size_t p = 0;
    while (p <= s.size()) {
        auto q = s.find('\n', p);
        if (q == std::string::npos) { l.push_back(s.substr(p)); break; }
        l.push_back(s.substr(p, q - p));
        p = q + 1;
    }
    return l;
}

std::vector<std::string> split_tokens(const std::string& s) {
    std::vector<std::string> t;
    std::size_t p = 0;
    while (p < s.size()) {
        while (p < s.size() && (s[p] == ' ' || s[p] == '\t')) ++p;
        if (p >= s.size()) break;
        std::size_t q = p;
        if (s[p] == '\'') {
            q = s.find('\'', p + 1);
            q = (q == std::string::npos) ? s.size() : q + 1;
        } else {
            while (q < s.size() && s[q] != ' ' && s[q] != '\t') ++q;
        }
        t.push_back(s.substr(p, q - p));
        p = q;
    }
    return t;
}
} // namespace

extern "C" size_t LLVMFuzzerCustomMutator(uint8_t* data, size_t size, size_t max_size, unsigned int seed) {
    Rng r(seed);
    if (size < 2 || r.n(5) == 0) return LLVMFuzzerMutate(data, size, max_size);
    std::string opt(1, (char)data[0]);
    if (r.n(8) == 0) opt[0] = (char)r.n(256);
    auto lines = split_lines(std::string(reinterpret_cast<char*>(data + 1), size - 1));
    const auto& d = dict();
    int nops = 1 + (int)r.n(3);
    for (int op = 0; op < nops && !lines.empty(); ++op) {
        std::size_t li = r.n(lines.size());
        switch (r.n(12)) {
        case 0: lines.erase(lines.begin() + li); break;                                   // drop a line
        case 1: lines.insert(lines.begin() + li, lines[li]); break;                       // duplicate a line
        case 2: std::swap(lines[li], lines[r.n(lines.size())]); break;                    // swap lines
        case 3: lines.insert(lines.begin() + li, d[r.n(d.size())]); break;                // new keyword / token line
        case 4: {                                                                          // cut the file here -> include
            if (lines.size() > 3) {
                std::string inc = "\x1c" "inc7.inc";
                std::vector<std::string> tail(lines.begin() + li, lines.end());
                lines.erase(lines.begin() + li, lines.end());
                lines.push_back("INCLUDE");
                lines.push_back(" 'inc7.inc' /");
                // optionally let the record continue in the root after the include
                if (r.n(2) && !tail.empty()) { lines.push_back(tail.back()); tail.pop_back(); }
                lines.push_back(inc);
                for (auto& t : tail) lines.push_back(t);
            }
            break;
        }
        case 5: {                                                                          // splice a block elsewhere
            std::size_t a = r.n(lines.size()), len = 1 + r.n(6);
            std::vector<std::string> blk(lines.begin() + a, lines.begin() + std::min(lines.size(), a + len));
            lines.insert(lines.begin() + li, blk.begin(), blk.end());
            break;
        }
        default: {                                                                         // token level edit
            auto toks = split_tokens(lines[li]);
            if (toks.empty()) { lines[li] = d[r.n(d.size())]; break; }
            std::size_t ti = r.n(toks.size());
            switch (r.n(6)) {
            case 0: toks.erase(toks.begin() + ti); break;
            case 1: toks.insert(toks.begin() + ti, toks[ti]); break;
            case 2: toks[ti] = d[r.n(d.size())]; break;
            case 3: toks.insert(toks.begin() + ti, d[r.n(d.size())]); break;
            case 4: std::swap(toks[ti], toks[r.n(toks.size())]); break;
            default:
                if (!toks[ti].empty()) {
                    std::size_t ci = r.n(toks[ti].size());
                    const char repl[] = "'*/-0123456789.eED+ \t";
                    if (r.n(2)) toks[ti][ci] = repl[r.n(sizeof repl - 1)];
                    else toks[ti].erase(ci, 1);
                }
            }
            std::string nl;
            for (auto& t : toks) { nl += ' '; nl += t; }
            lines[li] = nl;
        }
        }
    }
    std::string out = opt;
    for (std::size_t i = 0; i < lines.size(); ++i) {
        out += lines[i];
        if (i + 1 < lines.size()) out += '\n';
    }
    if (out.size() > max_size) out.resize(max_size);
    std::memcpy(data, out.data(), out.size());
    return out.size();
}
