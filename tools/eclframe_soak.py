#!/usr/bin/env python3-vt
"""soak the frame-mutation part of C20 (result files): repeat runs, treating every crash key found so far as known, to
enumerate crash sites.  usage: tools/eclframe_soak.py [examples-per-shard=400] [rounds=5] [outdir=/tmp/eclframe_sites]
Honours VERIF_REPO / VERIF_BUILD (scratch tree) and VERIF_KNOWN_FILE (base list of known findings; default: the committed one).
For every new key a reproducer <outdir>/<key>.bin (first byte = reader kind: input of build/fz_eclfile) and the sanitizer
report <key>.txt are written."""
import json, os, re, sys, multiprocessing as mp
sys.path.insert(0, os.path.dirname(os.path.dirname(os.path.abspath(__file__))))
os.chdir(os.path.dirname(os.path.dirname(os.path.abspath(__file__))))
from vlib import runner, build
build.ensure_probe("san", "deck")
os.environ["VERIF_NOBUILD"] = "1"
n = int(sys.argv[1]) if len(sys.argv) > 1 else 400
rounds = int(sys.argv[2]) if len(sys.argv) > 2 else 5
outdir = sys.argv[3] if len(sys.argv) > 3 else "/tmp/eclframe_sites"
os.makedirs(outdir, exist_ok=True)
os.environ["VERIF_EXAMPLES"] = str(n)
from checks.c20_ecl import C20Ecl
chk = C20Ecl()
base = open(runner.KNOWN).read() if os.path.exists(runner.KNOWN) else ""
tmp = os.path.join(outdir, "known.jsonl")
extra = {}
for r in range(rounds):
    with open(tmp, "w") as f:
        f.write(base)
        for k in extra:
            f.write(json.dumps({"property": "C20", "status": "known", "key": k, "what": "soak"}) + "\n")
    runner.KNOWN = tmp
    args = [("checks.c20_ecl", "C20Ecl", "thorough", 200 + r, i, 16, None) for i in range(16)]
    with mp.get_context("fork").Pool(16) as pool:
        res = pool.map(runner.run_shard, args)
    m = runner.merge(res)
    new = 0
    for rr in res:
        if rr[3]:
            print(rr[3][-1500:])
        for item in rr[1]:
            k = item["viol"].get("key")
            if k not in extra:
                extra[k] = item
                new += 1
                fn = os.path.join(outdir, re.sub(r"[^A-Za-z0-9.]+", "_", k))
                with open(fn + ".bin", "wb") as f:
                    f.write(bytes([item["case"]["kind"]]) + chk.content(item["case"]))
                with open(fn + ".txt", "w") as f:
                    f.write(item["viol"]["detail"]["stderr"])
    print("round", r, "evaluations", m["evaluations"], "excluded_known", m["excluded_known"], "new keys", new, flush=True)
    if not new:
        break
for k in extra:
    print("SITE", k)
