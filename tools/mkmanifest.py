#!/usr/bin/env python3-vt
"""Regenerate MANIFEST.json from the check classes (keeps it valid at all times)."""
import importlib
import json
import os
import sys

HERE = os.path.dirname(os.path.dirname(os.path.abspath(__file__)))
sys.path.insert(0, HERE)
import importlib.machinery, importlib.util
loader = importlib.machinery.SourceFileLoader("vcheck_main", os.path.join(HERE, "vcheck"))
spec = importlib.util.spec_from_loader("vcheck_main", loader)
vc = importlib.util.module_from_spec(spec)
loader.exec_module(vc)

PENDING = {}
pend_file = os.path.join(HERE, "tools", "not_applicable.json")
if os.path.exists(pend_file):
    PENDING = json.load(open(pend_file))

props = [json.loads(l) for l in open(os.path.join(HERE, "properties.jsonl"))]
checks = []
engines = {}
REGISTERED = open(os.path.join(HERE, "tools", "registered.txt")).read().split()
for pid, (m, c) in sorted(vc.CHECKS.items()):
    if pid not in REGISTERED:
        continue   # work in progress: not claimed
    chk = getattr(importlib.import_module(m), c)()
    eng = getattr(chk, "ENGINE", "hypothesis+opmprobe")
    engines.setdefault(eng, []).append(pid)
    checks.append({
        "property_id": pid,
        "quick_cmd": "./vcheck %s --tier quick" % pid,
        "thorough_cmd": "./vcheck %s --tier thorough" % pid,
        "evidence_file": "/verif/evidence/%s.json" % pid,
        "replay_cmd_template": "./vcheck %s --replay {path}" % pid,
        "engine": eng,
        "level_claimed": {"category": chk.LEVEL, "text": chk.LEVEL_TEXT, "design_ref": "DESIGN.md section 4, " + pid},
        "level_note": chk.LEVEL_NOTE,
        "technique": chk.TECHNIQUE,
    })
ENG_DESC = {
    "hypothesis+opmprobe": ("harness/probe + vlib + checks", "Hypothesis (python3-vt) generators, Python reference models and oracles driving a persistent C++ probe (JSON lines) linked against libopmcommon.a built from /repo's working tree"),
    "rapidcheck": ("harness/rc_c16.cpp", "rapidcheck in-process property test with an independent dual-number evaluator"),
    "libfuzzer": ("harness/fuzz", "libFuzzer + ASan + UBSan targets with structure-aware custom mutator, fork mode"),
}
claimed = {c["property_id"] for c in checks}
na = []
for p in props:
    if p["id"] not in claimed:
        na.append({"property_id": p["id"], "reason": PENDING.get(p["id"], "no check registered yet: its generator/oracle from DESIGN.md section 4 is not built in this revision, so nothing is claimed")})
man = {
    "version": 1,
    "setup_cmd": "./vcheck --setup",
    "hooks": {
        "guard": "OPM_COMMON_VERIF",
        "enable": "checks build /repo out-of-tree in /verif/build/{plain,san} with -DOPM_COMMON_VERIF=1 on the compiler command line; no source hook exists so far",
        "baseline_off_cmd": "cmake --build /repo/_build -j16 -- -k 0 ; ctest --test-dir /repo/_build -j8 --timeout 900",
        "source_commits": [],
        "add_only": True,
    },
    "engines": [{"name": k, "path": ENG_DESC[k][0], "serves_properties": v, "kind_free_text": ENG_DESC[k][1]} for k, v in sorted(engines.items())],
    "checks": checks,
    "not_applicable": na,
    "notes": "Technique family: property-based testing and fuzzing only. Every check regenerates its evidence file; exit 2 means inconclusive/build problem (never reported as held). Known findings: /verif/known_findings.jsonl.",
}
json.dump(man, open(os.path.join(HERE, "MANIFEST.json"), "w"), indent=1)
import jsonschema
jsonschema.validate(man, json.load(open("/root/.vp/MANIFEST.schema.json")))
print("MANIFEST.json: %d checks, %d not_applicable" % (len(checks), len(na)))
