#!/usr/bin/env python3-vt
"""soak the token-mutation part of C20: repeat runs, treating every crash site found so far as known, to enumerate sites"""
import json, os, sys, multiprocessing as mp
sys.path.insert(0, os.path.dirname(os.path.dirname(os.path.abspath(__file__))))
os.chdir(os.path.dirname(os.path.dirname(os.path.abspath(__file__))))
from vlib import runner, build
build.ensure_probe("san", "deck")
build.ensure_probe("plain", "deck")      # answers "hang or only slow under the sanitizer?"
os.environ["VERIF_NOBUILD"] = "1"
n = int(sys.argv[1]) if len(sys.argv) > 1 else 2000
rounds = int(sys.argv[2]) if len(sys.argv) > 2 else 5
os.environ["VERIF_EXAMPLES"] = str(n)
extra = {}
base = open(runner.KNOWN).read()
tmp = "/tmp/token_soak_known.jsonl"
orig = runner.KNOWN
for r in range(rounds):
    with open(tmp, "w") as f:
        f.write(base)
        for k, v in extra.items():
            f.write(json.dumps({"property": "C20", "status": "known", "key": k, "what": "soak"}) + "\n")
    runner.KNOWN = tmp
    args = [("checks.c20_token", "C20Token", "thorough", 100 + r, i, 16, None) for i in range(16)]
    with mp.get_context("fork").Pool(16) as pool:
        res = pool.map(runner.run_shard, args)
    m = runner.merge(res)
    new = 0
    for rr in res:
        for item in rr[1]:
            k = item["viol"].get("key")
            if k not in extra:
                extra[k] = item
                new += 1
    print("round", r, "evaluations", m["evaluations"], "excluded_known", m["excluded_known"], "new sites", new, flush=True)
    if not new:
        break
json.dump({k: {"case": v["case"], "stderr": v["viol"]["detail"]["stderr"][-3000:]} for k, v in extra.items()}, open("/tmp/token_soak_sites.json", "w"), indent=1)
for k in extra:
    print("SITE", k)
