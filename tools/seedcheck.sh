#!/bin/bash
# usage: tools/seedcheck.sh <PID> <N> : verify a seeded change produced by an independent agent and store it under /verif/seeded/
#  - patch applies to /repo HEAD
#  - demo FAILs against the agent's (patched) tree, PASSes against an unpatched library (/tmp/bld_tests, built from /repo HEAD)
set -u
pid=$1; n=$2
out=/tmp/seed_${pid}_${n}_out; wt=/tmp/seed_${pid}_${n}; bld=/tmp/seed_${pid}_${n}_build
[ -f $out/patch.diff ] || { echo "no patch"; exit 3; }
git -C /repo apply --check $out/patch.diff && echo "APPLIES to /repo HEAD" || echo "DOES NOT APPLY to HEAD (will try 3-way in worktree)"
echo "--- demo against patched tree"
( cd $out && bash ./demo_build.sh $wt $bld 2>&1 | tail -4 ); 
echo "--- demo against unpatched library (/repo + /tmp/bld_tests)"
( cd $out && bash ./demo_build.sh /repo /tmp/bld_tests 2>&1 | tail -3 )
dst=/verif/seeded/${pid}_${n}
mkdir -p $dst && cp $out/patch.diff $out/demo.cpp $out/demo_build.sh $out/meta.json $dst/ 2>/dev/null
ls $dst
