#!/bin/bash
# usage: tools/mutant.sh <tag> <check-id> <sed-or-patch command...>
# Creates (or reuses) a private worktree /tmp/wt_<tag> of /repo HEAD + private build dir,
# applies the mutation given as a shell command executed inside the worktree,
# runs the check's quick tier against it, prints the verdict, and resets the worktree.
set -u
tag=$1; chk=$2; shift 2
wt=/tmp/wt_$tag; bld=/tmp/bld_$tag
if [ ! -d $wt ]; then git -C /repo worktree add -q --detach $wt HEAD || exit 3; fi
git -C $wt checkout -q --detach $(git -C /repo rev-parse HEAD) 2>/dev/null
git -C $wt checkout -q -- .
( cd $wt && eval "$@" ) || { echo "MUTATION-CMD-FAILED"; exit 3; }
if git -C $wt diff --quiet; then echo "MUTATION-NOOP (no diff)"; exit 3; fi
git -C $wt diff | head -40
cd /verif
VERIF_REPO=$wt VERIF_BUILD=$bld ${VERIF_PY:-} ./vcheck $chk --tier ${TIER:-quick} 2>&1 | grep -v "^KNOWN-FINDING" | tail -${TAILN:-6}
echo "exit=${PIPESTATUS[0]}"
git -C $wt checkout -q -- .
