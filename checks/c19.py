"""C19 - a Deck written as text parses back to the same Deck."""
import glob
import math
import os

from hypothesis import strategies as st

from vlib import deckgen, layout
from vlib.runner import Check, Discard, sha
from vlib.probe import LibError

SHIPPED = sorted(glob.glob(os.path.join(deckgen.REPO, "tests", "*.DATA")))


def dbl(x):
    return float.fromhex(x) if isinstance(x, str) else float(x)


def close10(a, b):
    """doubles are printed with precision 10 (10 significant digits): |a-b| <= 5e-10 |a|"""
    a, b = dbl(a), dbl(b)
    if a == b:
        return True
    return abs(a - b) <= 5.0e-10 * abs(a) * (1 + 1e-6)


_TEMP_ITEMS = None


def temperature_items():
    """(deck keyword name, item name) of every item with a temperature dimension: their SI value carries an offset
    (273.15 K, 459.67 R), so converting to SI and back keeps ~1e-13 ABSOLUTE, not 10 relative digits"""
    global _TEMP_ITEMS
    if _TEMP_ITEMS is None:
        t = set()
        for k in deckgen.grammar().values():
            for rec in k.records:
                for it in rec:
                    if any("Temperature" in d for d in it.dims):
                        for n in set(k.deck_names) | {k.name}:
                            t.add((n, it.name))
        _TEMP_ITEMS = t
    return _TEMP_ITEMS


def compare_decks(d1, d2, si_first=False):
    n1 = [k["kw"] for k in d1]
    n2 = [k["kw"] for k in d2]
    if n1 != n2:
        i = next((i for i, (a, b) in enumerate(zip(n1, n2)) if a != b), min(len(n1), len(n2)))
        return ("keyword sequence", {"index": i, "printed_from": n1[max(0, i - 1):i + 2], "reparsed": n2[max(0, i - 1):i + 2],
                                     "n": [len(n1), len(n2)]}, n1[i] if i < len(n1) else None)
    for k1, k2 in zip(d1, d2):
        kw = k1["kw"]
        if len(k1["recs"]) != len(k2["recs"]):
            return ("number of records", {"kw": kw, "printed_from": len(k1["recs"]), "reparsed": len(k2["recs"])}, kw)
        for ri, (r1, r2) in enumerate(zip(k1["recs"], k2["recs"])):
            if len(r1) != len(r2):
                return ("number of items", {"kw": kw, "rec": ri, "printed_from": len(r1), "reparsed": len(r2)}, kw)
            for i1, i2 in zip(r1, r2):
                where = {"kw": kw, "rec": ri, "item": i1["n"]}
                if i1["n"] != i2["n"] or i1["t"] != i2["t"]:
                    return ("item name/type", where, kw)
                if i1["sz"] != i2["sz"]:
                    # signature of a recorded finding: the values lost are exactly the trailing defaulted
                    # values of the record's last item (an ALL item)
                    ntrail = 0
                    for s_ in reversed(i1["st"]):
                        if s_ == 0:
                            break
                        ntrail += 1
                    sig = None
                    later = r1[r1.index(i1) + 1:]
                    if ntrail > 0 and i2["sz"] == i1["sz"] - ntrail and all(all(x != 0 for x in it["st"]) for it in later):
                        sig = "all-item-trailing-defaults-dropped"
                    return ("item size", dict(where, printed_from=i1["sz"], reparsed=i2["sz"]), kw, sig)
                for vi in range(i1["sz"]):
                    s1, s2 = i1["st"][vi], i2["st"][vi]
                    w = dict(where, idx=vi, printed_from=[s1, i1["v"][vi]], reparsed=[s2, i2["v"][vi]])
                    if (s1 == 0) != (s2 == 0):
                        return ("defaulted flag", w, kw)
                    if s1 == 2 or s2 == 2:
                        continue
                    a, b = i1["v"][vi], i2["v"][vi]
                    t = i1["t"]
                    if t in (1, 2, 3):
                        ok = a == b
                    elif t == 4:
                        ok = close10(a, b)
                        if not ok and si_first and (kw, i1["n"]) in temperature_items():
                            ok = abs(dbl(a) - dbl(b)) <= 1e-9
                    else:
                        ok = a[0] == b[0] and (a[0] == "undef" or (a[1] == b[1] if a[0] == "s" else close10(a[1], b[1])))
                    if not ok:
                        return ("item value", w, kw)
    return None


def _all_recs(kw):
    recs = list(kw.get("recs", []))
    for t in kw.get("tables", []):
        recs += t
    for s in kw.get("sets", []):
        recs += s
    return recs


def has_near_max(deck):
    for kw in deck["kws"]:
        for r in _all_recs(kw):
            for item in r["model"]:
                for st_, v in item:
                    if isinstance(v, list):
                        v = v[1] if v[0] == "d" else None
                    if isinstance(v, str) and v.startswith(("0x", "-0x")):
                        try:
                            if abs(float.fromhex(v)) >= 1.797693134e308:
                                return True
                        except ValueError:
                            pass        # a string value that merely looks like a hex float
    return False


def has_extreme(deck):
    """a double outside [1e-280, 1e280] (and not 0): converting it to SI and back (factors between 1e-15 and 1e8)
    underflows / overflows, so such decks are written without a previous SI read"""
    for kw in deck["kws"]:
        for r in _all_recs(kw):
            for item in r["model"]:
                for st_, v in item:
                    if isinstance(v, list):
                        v = v[1] if v[0] == "d" else None
                    if isinstance(v, str) and v.startswith(("0x", "-0x")):
                        try:
                            a = abs(float.fromhex(v))
                        except ValueError:
                            continue
                        if a != 0.0 and not (1e-280 <= a <= 1e280):
                            return True
    return False


def all_default_record(deck):
    """shape of a recorded finding: a record made of defaults only in a keyword where a lone slash is a terminator"""
    for kw in deck["kws"]:
        if kw["kind"] in ("slash", "double_slash", "unknown", "tablecoll") or not kw.get("empty_ok", True):
            for r in _all_recs(kw):
                if r["atoms"] and all(a[0] == "d" for a in r["atoms"]):
                    return "all-default-record-lone-slash"
    return None


@st.composite
def raw_tail(draw):
    """raw-string keywords (their records are kept as token lists: '/' inside a line is a division sign, the record ends
    at the LAST slash of the line): UDQ with expressions of 1..16 tokens, ACTIONX with conditions"""
    atoms = ["FOPR", "FWPR", "FGPR", "WOPR", "WOPR 'P1'", "WWCT 'P*'", "GOPR 'G1'", "2", "0.5", "1e3", "100", "FU_A", "WU_B"]
    ops = ["+", "-", "*", "/", "/", "^", "<", ">=", "UMAX"]

    def expr(n):
        toks = []
        depth = 0
        for i in range(n):
            if draw(st.integers(0, 5)) == 0:
                toks.append(draw(st.sampled_from(["SUM(", "MAX(", "ABS(", "("])))
                depth += 1
            toks.append(draw(st.sampled_from(atoms)))
            if depth and draw(st.integers(0, 2)) == 0:
                toks.append(")")
                depth -= 1
            if i + 1 < n:
                toks.append(draw(st.sampled_from(ops)))
        toks += [")"] * depth
        return " ".join(toks)
    out = ""
    if draw(st.booleans()):
        recs = []
        for _ in range(draw(st.integers(1, 4))):
            k = draw(st.integers(0, 5))
            q = draw(st.sampled_from(["FU_A", "WU_B", "GU_C", "FU_LONGNAM"]))
            if k <= 2:
                recs.append(" DEFINE %s %s /" % (q, expr(draw(st.integers(1, 9)))))
            elif k == 3:
                recs.append(" ASSIGN %s %s /" % (q, draw(st.sampled_from(["3.5", "'P*' 7", "0"]))))
            elif k == 4:
                recs.append(" UNITS %s 'SM3/DAY' /" % q)
            else:
                recs.append(" UPDATE %s %s /" % (q, draw(st.sampled_from(["ON", "OFF", "NEXT"]))))
        out += "UDQ\n%s\n/\n" % "\n".join(recs)
    if draw(st.booleans()):
        conds = []
        n = draw(st.integers(1, 3))
        for i in range(n):
            c = "%s %s %s" % (draw(st.sampled_from(["FOPR", "WOPR 'P*'", "GOPR 'G1'", "DAY", "MNTH"])),
                              draw(st.sampled_from([">", "<", ">=", "=", "!="])),
                              draw(st.sampled_from(["50", "FWPR", "( 3 * 4 / 2 )", "JAN", "WWPR 'P1'"])))
            conds.append(" %s%s /" % (c, (" " + draw(st.sampled_from(["AND", "OR"]))) if i + 1 < n else ""))
        out += "ACTIONX\n 'A1' %d %s /\n%s\n/\nWELOPEN\n '?' 'SHUT' /\n/\nENDACTIO\n" % (
            draw(st.integers(1, 10)), draw(st.sampled_from(["", "2.5"])), "\n".join(conds))
    return out


@st.composite
def case_strategy(draw):
    # si_first: the SI view of every item is read before the Deck is written (a Deck that has been used)
    c = {"deck": draw(deckgen.gen_deck(avoid_all_default=True)), "si_first": draw(st.booleans())}
    if draw(st.integers(0, 3)) == 0:
        c["tail"] = draw(raw_tail())
    return c


class C19(Check):
    ID = "C19"
    PROBE_GROUP = "deck"
    RULE = ("Grammar-generated abstract decks (same generator as C01: every size class, INT/DOUBLE/STRING/UDA items, SINGLE and ALL, "
            "embedded and trailing defaults, quoted strings with blanks/slashes/stars, extreme numbers) rendered canonically, plus the "
            "shipped decks under tests/*.DATA (enumerated).  D1 = parse(text); T1 = str(D1); D2 = parse(T1).  Oracle: D2 has the same "
            "keywords, record and item structure, ints/strings/UDA kinds equal, doubles to 10 significant digits, same defaulted flags; "
            "T2 = str(D2) == T1 and T3 == T2 (fixpoint).  Non-trivial: deck with an embedded default followed by an explicit value, or a "
            "quoted string with blank/slash/star, or a keyword that is not single-record; distinct by keyword names + shapes.")
    ASSUMPTIONS = ["valid_default vs empty_default is not distinguished (only defaulted / not defaulted)",
                   "raw-string keywords (UDQ, ACTIONX) and code keywords are only reached through the shipped decks",
                   "doubles compared to the printed precision (operator<< uses precision 10); decks holding a value within 1e-10 of DBL_MAX, "
                   "whose 10-digit rounding overflows, are discarded"]
    EXAMPLES = {"quick": 600, "thorough": 4000}
    MIN_EVALS = {"quick": 2000, "thorough": 30000}
    LEVEL_TEXT = ("Generated-input search with a round-trip oracle: print(parse(x)) must parse back to an item-wise identical Deck and "
                  "printing must be a fixpoint; decks come from the parser's keyword grammar and from all shipped decks.")
    LEVEL_NOTE = "Trusted: the dump through public DeckItem getters as the definition of 'same Deck'."
    TECHNIQUE = "property-based testing: grammar-based generation + round-trip (print/parse) and fixpoint oracle"

    def strategy(self, tier):
        return case_strategy()

    def enumerate(self, tier):
        for p in SHIPPED:
            yield {"shipped": os.path.relpath(p, deckgen.REPO)}
        for p in SHIPPED:
            yield {"shipped": os.path.relpath(p, deckgen.REPO), "si_first": True}

    def classify(self, case):
        if "shipped" in case:
            return True, "shipped:" + case["shipped"] + (":si" if case.get("si_first") else ""), ["shipped-deck"] + (["si-read-before-print"] if case.get("si_first") else [])
        deck = case["deck"]
        labels = set()
        nontriv = False
        for kw in deck["kws"]:
            labels.add("kind:" + kw["kind"])
            if kw["kind"] not in ("fixed", "data", "empty", "title") or len(kw.get("recs", [])) > 1:
                nontriv = True
            recs = list(kw.get("recs", []))
            for t in kw.get("tables", []):
                recs += t
            for s in kw.get("sets", []):
                recs += s
            for r in recs:
                seen_d = False
                for a in r["atoms"]:
                    if a[0] == "d":
                        seen_d = True
                    else:
                        if seen_d:
                            labels.add("embedded-default")
                            nontriv = True
                        txt = a[-1]
                        if txt.startswith("'") and any(c in txt for c in " /*"):
                            labels.add("quoted-special-string")
                            nontriv = True
                if r["atoms"] and all(a[0] == "d" for a in r["atoms"]):
                    labels.add("all-default-record")
        if case.get("si_first"):
            labels.add("si-read-before-print")
        if case.get("tail"):
            for kwn in ("UDQ", "ACTIONX"):
                if kwn + "\n" in case["tail"]:
                    labels.add("raw-string-keyword:" + kwn)
            if any(len(ln.split()) >= 10 and " / " in ln[:-1] for ln in case["tail"].split("\n")):
                labels.add("raw-string-record:long-with-division")
        return nontriv, sha([[k["name"] for k in deck["kws"]], sorted(labels), deck, case.get("tail")], 16), sorted(labels)

    def sample_view(self, case):
        if "shipped" in case:
            return case
        files, root, _ = layout.render(case["deck"], canonical=True)
        return {"text": files[root]}

    def known_key(self, case, viol):
        return viol.get("key")

    def check(self, case, ctx):
        P = ctx.P
        known_shape = None
        if "shipped" in case:
            try:
                r = P.call("print_parse", path=os.path.join(deckgen.REPO, case["shipped"]), ctx="default", si_first=bool(case.get("si_first")))
            except LibError:
                raise Discard()        # a shipped deck that does not parse on its own (needs other context)
            text = None
        else:
            files, root, _ = layout.render(case["deck"], canonical=True)
            text = files[root] + case.get("tail", "")
            if has_near_max(case["deck"]):
                raise Discard()     # see ASSUMPTIONS: 10-digit rounding of |x| within 1e-10 of DBL_MAX overflows
            si = bool(case.get("si_first")) and not has_extreme(case["deck"])
            if si:
                ctx.label("si-read-before-print:applied")
            r = P.call("print_parse", text=text, ctx="strict", si_first=si)
            known_shape = all_default_record(case["deck"])

        def V(rule, detail, kw=None, key=None):
            if key is None and known_shape:
                key = known_shape       # decks holding the recorded shape are excluded (counted as excluded_known)
            return {"rule": rule, "detail": detail, "key": key}

        if "shipped" in case:
            for k in r["d1"]:
                for rec in k["recs"]:
                    if rec and all(all(x != 0 for x in it["st"]) for it in rec) and any(it["sz"] > 0 for it in rec):
                        known_shape = "all-default-record-lone-slash"
        if "reparse_error" in r and "d2" not in r:
            err = r["reparse_error"]
            kw = None
            return V("printed deck does not parse", {"error": err[:600], "printed": r["t1"][:1500], "input": (text or case.get("shipped"))[:1200]},
                     )
        diff = compare_decks(r["d1"], r["d2"], si_first=("shipped" in case and bool(case.get("si_first"))) or ("shipped" not in case and si))
        if diff:
            return V("reparsed deck differs: " + diff[0], {"diff": diff[1], "printed": r["t1"][:1500] if text else None,
                                                          "input": (text or case.get("shipped"))[:1200]}, kw=diff[2],
                     key=diff[3] if len(diff) > 3 else None)
        if r["t2"] != r["t1"]:
            k = next((i for i in range(min(len(r["t1"]), len(r["t2"]))) if r["t1"][i] != r["t2"][i]), 0)
            return V("printing is not a fixpoint (T2 != T1)", {"t1": r["t1"][max(0, k - 200):k + 200], "t2": r["t2"][max(0, k - 200):k + 200]})
        if "t3" not in r:
            return V("second re-parse fails", {"error": r.get("reparse_error", "")[:500]})
        if r["t3"] != r["t2"]:
            return V("printing is not a fixpoint (T3 != T2)", {})
        return None
