"""C11, second family: generated operation histories for the dynamic state objects
(SummaryState, UDQState, Action::State, WellTestState, RestartValue).

A case is decoded by hand from ONE Hypothesis st.binary() draw (a composite with ~100 draws costs
20 ms/case, a decoded byte string 0.3 ms/case); every choice below reads bytes of that string, so
all randomness is Hypothesis' and cases shrink towards short histories of small values.

Histories are VALID call sequences by construction (preconditions read from the class headers and
from tests/test_SummaryState.cpp, tests/parser/UDQTests.cpp, tests/parser/ACTIONX.cpp,
tests/test_WellTestState.cpp / WTEST.cpp, tests/test_Restart.cpp, tests/test_Serialization.cpp):
  SummaryState   keys are non-empty; any well/group/variable strings; region variables arbitrary;
                 update_udq() gets sets of >= 1 element for scalar/field sets
  UDQState       keys have 'U' as second character (UDQState::add throws otherwise); scalar sets have 1 element
  Action::State  add_run() of ActionX objects (name, id) with a satisfied Result and a well list, and of PyActions
  WellTestState  open_well() only for wells that were closed before (it uses .at()); everything else is total
  RestartValue   rate/connection/segment updates only for wells that exist; extra keys unique, <= 8 characters,
                 not reserved and not a solution name; int solution vectors have dimension identity (the only
                 constructor for them); dimensions are enumerators below measure::_count
Doubles are finite or +-inf, never NaN (NaN != NaN makes operator== meaningless for it); values fed to
SummaryState::update*() are finite, because totals (xxPT, xxIT, ...) ACCUMULATE and inf + (-inf) is NaN.
"""
import os
import re
import struct

from hypothesis import strategies as st

REPO = os.environ.get("VERIF_REPO", "/repo")

CLASSES = ["SummaryState", "UDQState", "ActionState", "WellTestState", "RestartValue"]


def _count_measures():
    try:
        with open(os.path.join(REPO, "opm/input/eclipse/Units/UnitSystem.hpp")) as f:
            txt = f.read()
        body = txt[txt.index("enum class measure"):]
        body = body[body.index("{") + 1:body.index("_count")]
        return len([x for x in re.sub(r"//.*", "", body).split(",") if x.strip()])
    except Exception:
        return 46


NUM_MEASURES = _count_measures()

# enumerator values, from opm/input/eclipse/Schedule/Well/WellEnums.hpp, Group/Group.hpp, Well/WellTestConfig.hpp
WELL_STATUS = [1, 2, 3, 4]
WELL_PROD_CMODE = [0, 1, 2, 4, 8, 16, 32, 64, 128, 256, 1024]
WELL_INJ_CMODE = [1, 2, 4, 8, 16, 512]
GROUP_PROD_CMODE = [0, 1, 2, 4, 8, 16, 32, 64, 128]
GROUP_INJ_CMODE = [0, 1, 2, 4, 8, 16, 32]
WTEST_REASON = [0, 1, 2, 4, 8, 16]
RATE_BITS = [b for b in range(23) if b != 19]      # data::Rates::opt without 'tracer' (bit 19, needs a name)

SPECIAL = [0.0, -0.0, 1.0, -1.0, 0.5, 2.0, 100.0, 123.456, -2.71828, 1e-300, 5e-324, 1.7976931348623157e308, -1.7976931348623157e308,
           float("inf"), float("-inf"), 1e20, -1e20, 1e-20, 0.1, 3.0, 86400.0, 1.0e5, 0.3, 1234567.875]

WELLS = ["OP1", "OP_2", "I-3", "W", "PROD-LONG-NAME-0123456789", "Wå", "", "P*"]
GROUPS = ["G1", "FIELD", "PLAT-A", "G", ""]
TRACERS = ["SEA", "T2", ""]
NUMS = [1, 2, 3, 7, 42, 1000000]


class Bytes:
    """reader over the drawn byte string; yields 0 once exhausted"""

    def __init__(self, data):
        self.d = data
        self.i = 0

    def more(self):
        return self.i < len(self.d)

    def u8(self):
        if self.i >= len(self.d):
            return 0
        v = self.d[self.i]
        self.i += 1
        return v

    def below(self, n):
        return self.u8() % n if n > 0 else 0

    def pick(self, seq):
        return seq[self.u8() % len(seq)]

    def flag(self, num=1, den=2):
        return self.u8() % den < num

    def double(self, inf=True):
        """hex-float text of a finite or (inf=True) infinite double"""
        k = self.u8()
        if k < 160:
            v = SPECIAL[k % len(SPECIAL)]
        elif k < 224:
            v = (self.u8() - 100) * (0.25 if k & 1 else 12.5)      # small multiples, exactly representable
        else:
            raw = bytes(self.u8() for _ in range(8))
            v = struct.unpack("<d", raw)[0]
            if v != v:
                v = 1.5
        if not inf and v in (float("inf"), float("-inf")):
            v = 1e308 if v > 0 else -1e308
        return float(v).hex()

    def posdouble(self):
        k = self.u8()
        return float([0.0, 1.0, 10.0, 86400.0, 0.5, 1e6, 365.25, 100.0][k % 8] * (1 + (k >> 3))).hex()

    def doubles(self, nmax):
        return [self.double() for _ in range(self.below(nmax + 1))]


def f32(hx):
    """the nearest float value of a double (as hex text): the std::vector<float> overloads are fed exact floats
    (a double outside float's range has no defined conversion)"""
    v = float.fromhex(hx)
    try:
        return float(struct.unpack("<f", struct.pack("<f", v))[0]).hex()
    except OverflowError:
        return float("inf" if v > 0 else "-inf").hex()


# --------------------------------------------------------------------------- SummaryState
WELL_VARS = ["WOPR", "WOPT", "WWCT", "WGIT", "WUX", "WBHP", "WU", "WWPT"]
GROUP_VARS = ["GOPR", "GOPT", "GGOR", "GUY", "GWIT", "GU"]
CONN_VARS = ["COPR", "COPT", "CPR", "CUW", "CGIT"]
SEG_VARS = ["SOFR", "SOFT", "SPR", "SUZ", "SWFT"]
REG_VARS = ["RPR", "ROIP", "ROPT", "RODEN", "RPR__ABC", "ROPT_ABC", "RWIT"]
REGSETS = ["", "NUM", "FIPNUM", "FIPABC", "FIPXYZW", "ABC"]
GEN_KEYS = ["FOPR", "FOPT", "FU_Q", "FUQ", "TIME", "WOPR:OP1", "WOPT:OP1", "GOPR:G1", "COPR:OP1:3", "RPR:1", "F", "A", ":X", "WUX:OP1",
            "BPR:1,2,3", "FGIT", "FWPT", "some long key with spaces é", "AAQR:1", "SOFR:OP1:2", "NOSUCH", "WWCT:NOSUCH"]


def _udq_set(b, kind=None):
    kind = kind or b.pick(["scalar", "field", "well", "group", "segment"])
    name = {"scalar": ["FUQ", "FU_Q", "AU1", "CU"], "field": ["FUQ", "FU2"], "well": ["WUX", "WU", "WU_LONGER"],
            "group": ["GUY", "GU"], "segment": ["SUZ", "SU9"]}[kind]
    name = b.pick(name)
    items = []
    if kind in ("scalar", "field"):
        items.append(["", 0, None if b.flag(1, 4) else b.double()])
    else:
        pool = GROUPS if kind == "group" else WELLS
        seen = set()
        for _ in range(b.below(5)):
            wg = b.pick(pool)
            num = b.pick(NUMS) if kind == "segment" else 0
            if (wg, num) in seen:
                continue
            seen.add((wg, num))
            items.append([wg, num, None if b.flag(1, 4) else b.double()])
    return {"kind": kind, "name": name, "items": items}


def _smry_ops(b, nmax, allow_append=True):
    ops = []
    while b.more() and len(ops) < nmax:
        k = b.below(40)
        if k < 5:
            ops.append({"op": "update", "key": b.pick(GEN_KEYS), "v": b.double(False)})
        elif k < 7:
            ops.append({"op": "set", "key": b.pick(GEN_KEYS), "v": b.double(False)})
        elif k < 13:
            ops.append({"op": "well", "well": b.pick(WELLS), "var": b.pick(WELL_VARS), "v": b.double(False)})
        elif k < 17:
            ops.append({"op": "group", "group": b.pick(GROUPS), "var": b.pick(GROUP_VARS), "v": b.double(False)})
        elif k < 21:
            ops.append({"op": "conn", "well": b.pick(WELLS), "var": b.pick(CONN_VARS), "num": b.pick(NUMS), "v": b.double(False)})
        elif k < 25:
            ops.append({"op": "segment", "well": b.pick(WELLS), "var": b.pick(SEG_VARS), "num": b.pick(NUMS), "v": b.double(False)})
        elif k < 29:
            ops.append({"op": "region", "regset": b.pick(REGSETS), "var": b.pick(REG_VARS), "num": b.pick(NUMS), "v": b.double(False)})
        elif k < 30:
            ops.append({"op": "elapsed", "v": b.posdouble()})
        elif k < 33:
            ops.append({"op": "udq", "set": _udq_set(b)})
        elif k < 34:
            ops.append({"op": "erase", "key": b.pick(GEN_KEYS)})
        elif k < 35:
            ops.append({"op": "erase_well", "well": b.pick(WELLS), "var": b.pick(WELL_VARS)})
        elif k < 36:
            ops.append({"op": "erase_group", "group": b.pick(GROUPS), "var": b.pick(GROUP_VARS)})
        elif k < 37:
            ops.append({"op": "wells"})
        elif k < 38:
            ops.append({"op": "groups"})
        elif allow_append and k == 39 and not any(o["op"] == "append" for o in ops):
            # (append() REPLACES the general key->value map by the buffer's: at most one per history)
            n = 1 + b.below(6)
            ops.append({"op": "append", "start": b.pick([0, 86400, 1577836800, -1, 2**31]), "undef": b.double(),
                        "ops": _smry_ops(b, n, False)})
    return ops


def gen_smry(b):
    ctor = {"start": b.pick([0, 101, 1577836800, 946684800, 2**31 + 5, -86400, 4102444800]), "undef": b.pick(
        [float(-1.7976931348623157e308).hex(), (0.0).hex(), (-99.0).hex(), (1e20).hex(), b.double()])}
    return ctor, _smry_ops(b, 60)


def q_smry(ops):
    keys, wells, groups, vars_, nums, regsets = set(), set(), set(), set(), set(), set()

    def walk(ops):
        for o in ops:
            if "key" in o:
                keys.add(o["key"])
            if "well" in o:
                wells.add(o["well"])
            if "group" in o:
                groups.add(o["group"])
            if "var" in o:
                vars_.add(o["var"])
            if "num" in o:
                nums.add(o["num"])
            if "regset" in o:
                regsets.add(o["regset"])
            if o["op"] == "udq":
                s = o["set"]
                vars_.add(s["name"])
                keys.add(s["name"])
                for wg, num, _ in s["items"]:
                    (groups if s["kind"] == "group" else wells).add(wg)
                    if s["kind"] == "segment":
                        nums.add(num)
            if o["op"] == "append":
                walk(o["ops"])
            if o["op"] in ("well", "group"):
                keys.add("%s:%s" % (o["var"], o.get("well", o.get("group"))))
            if o["op"] in ("conn", "segment"):
                keys.add("%s:%s:%d" % (o["var"], o["well"], o["num"]))
    walk(ops)
    # plus names that were (probably) never inserted
    keys |= {"NOSUCH", "FU_NEVER", "WOPR:NEVER"}
    wells |= {"NEVER", "OP1"}
    groups |= {"NEVER", "G1"}
    vars_ |= {"WNEVER", "WU_NEVER", "GU_NEVER", "SU_NEVER", "RPR"}
    nums |= {1, 999}
    regsets |= {"NUM", "FIPNEV"}
    return {"keys": sorted(keys), "wells": sorted(wells)[:7], "groups": sorted(groups)[:6], "vars": sorted(vars_)[:14],
            "nums": sorted(nums)[:5], "regsets": sorted(regsets)[:4]}


# --------------------------------------------------------------------------- UDQState
UDQ_KEYS = {"scalar": ["FUQ", "FU_Q", "AU1", "CU", "BU_X"], "field": ["FUQ", "FU2"], "well": ["WUX", "WU", "WU_LONGER", "WUY"],
            "group": ["GUY", "GU", "GUZ"], "segment": ["SUZ", "SU9", "SUVIS"]}


def gen_udq(b):
    ctor = {"undef": b.pick([(0.0).hex(), (-99.0).hex(), (1e20).hex(), b.double()])}
    ops = []
    while b.more() and len(ops) < 40:
        kind = b.pick(["scalar", "field", "well", "group", "segment", "well", "segment"])
        s = _udq_set(b, kind)
        key = b.pick(UDQ_KEYS[kind])     # the key the result is filed under (usually the set's own name)
        if b.flag(2, 3):
            s["name"] = key
        if b.flag():
            ops.append({"op": "define", "step": b.pick([0, 1, 2, 7, 100, 2**40]), "key": key, "set": s})
        else:
            ops.append({"op": "assign", "key": key, "set": s})
    return ctor, ops


def q_udq(ops):
    keys, wells, groups, nums = set(), set(), set(), set()
    for o in ops:
        keys.add(o["key"])
        s = o["set"]
        for wg, num, _ in s["items"]:
            (groups if s["kind"] == "group" else wells).add(wg)
            if s["kind"] == "segment":
                nums.add(num)
    keys |= {"FU_NEVER", "WU_NEVER", "NOTUDQ", "SU_NEVER"}
    wells |= {"NEVER"}
    groups |= {"NEVER"}
    nums = {n for n in nums if n < 1000} | {1, 5}         # the DUDS window is sized by the largest number
    return {"keys": sorted(keys), "wells": sorted(wells)[:6], "groups": sorted(groups)[:5], "nums": sorted(nums)[:5]}


# --------------------------------------------------------------------------- Action::State
ACTION_NAMES = ["ACT1", "ACT2", "A", "ACTION-WITH-A-LONG-NAME", "PYACT", "ACTø"]
ACTION_IDS = [0, 1, 2, 100, 2**33]


def gen_action(b):
    ops = []
    while b.more() and len(ops) < 40:
        if b.flag(1, 5):
            ops.append({"op": "pyrun", "name": b.pick(ACTION_NAMES), "result": b.flag()})
        else:
            wells = []
            for _ in range(b.below(4)):
                w = b.pick(WELLS)
                if w not in wells:
                    wells.append(w)
            ops.append({"op": "run", "name": b.pick(ACTION_NAMES), "id": b.pick(ACTION_IDS),
                        "time": b.pick([0, 100, 1000, 1577836800, -1, 2**40, 86400 * b.u8()]), "wells": wells})
    return None, ops


def q_action(ops):
    names = {o["name"] for o in ops} | {"NEVER"}
    ids = {o["id"] for o in ops if "id" in o} | {0, 77}
    wells = {w for o in ops for w in o.get("wells", [])} | {"NEVER"}
    return {"names": sorted(names), "ids": sorted(ids)[:5], "wells": sorted(wells)}


# --------------------------------------------------------------------------- WellTestState
def gen_wtest(b):
    ops = []
    known = set()
    t = 0.0
    while b.more() and len(ops) < 50:
        k = b.below(32)
        t += [0.0, 1.0, 10.0, 86400.0, 0.5][b.below(5)] * (1 + b.below(4))
        th = float(t).hex()
        if k < 8:
            w = b.pick(WELLS)
            ops.append({"op": "close_well", "well": w, "reason": b.pick(WTEST_REASON), "t": th})
            known.add(w)
        elif k < 11:
            if known:
                ops.append({"op": "open_well", "well": b.pick(sorted(known))})
        elif k < 17:
            ops.append({"op": "close_completion", "well": b.pick(WELLS), "num": b.pick([1, 2, 3, 11, -1, 0]), "t": th})
        elif k < 19:
            ops.append({"op": "open_completion", "well": b.pick(WELLS), "num": b.pick([1, 2, 3, 11, -1, 0])})
        elif k < 20:
            ops.append({"op": "open_completions", "well": b.pick(WELLS)})
        elif k < 21:
            ops.append({"op": "filter_wells", "wells": [w for w in WELLS if b.flag()]})
        elif k < 26:
            ops.append({"op": "config", "well": b.pick(WELLS), "reasons": b.below(32), "interval": b.posdouble(),
                        "num_test": b.pick([0, 1, 2, 5]), "startup": b.posdouble(), "step": b.pick([0, 0, 1, 2, 5, 17])})
        elif k < 27:
            ops.append({"op": "drop_config", "well": b.pick(WELLS)})
        elif k < 31:
            ops.append({"op": "test", "t": th})
        elif b.flag(1, 4):
            ops.append({"op": "clear"})
            known.clear()
    return None, ops, t


def q_wtest(ops, tend):
    wells = {o["well"] for o in ops if "well" in o} | {"NEVER"}
    nums = {o["num"] for o in ops if "num" in o} | {1, 99}
    return {"wells": sorted(wells), "nums": sorted(nums), "times": [float(tend + 1.0).hex(), float(tend + 1e7).hex(), float(tend + 2e7).hex()]}


# --------------------------------------------------------------------------- RestartValue
SOL_NAMES = ["PRESSURE", "SWAT", "SGAS", "RS", "TEMP", "FIPNUM", "SOMAX", "a-lower-case-and-long-name", "X"]
EXTRA_KEYS = ["EXTRA", "OPMEXTRA", "THRESHPR", "FLOGASN+", "E", "SWATINIT", "TUNING", ""]      # <= 8 characters, not reserved
NODE_NAMES = ["N1", "PLAT-A", "FIELD", "B1"]


def _rates(b):
    sets = []
    seen = set()
    for _ in range(b.below(7)):
        bit = b.pick(RATE_BITS)
        if bit in seen:
            continue
        seen.add(bit)
        sets.append([bit, b.double()])
    tracers = []
    for _ in range(b.below(3) if b.flag(1, 3) else 0):
        tracers.append([b.pick(TRACERS), b.double()])
    return {"set": sets, "tracers": tracers}


def _items(b, n):
    out = []
    for _ in range(b.below(n + 1)):
        out.append([b.below(n), b.double()])
    return out


def gen_rv(b):
    ctor = {"si": b.flag()}
    ops = []
    wells = []
    extra = set()
    while b.more() and len(ops) < 40:
        k = b.below(40)
        if k < 7:
            kind = b.pick(["d", "d", "f", "i", "mono"])
            o = {"op": "sol", "name": b.pick(SOL_NAMES), "kind": kind, "dim": b.below(NUM_MEASURES), "target": b.below(6)}
            if kind == "i":
                o["data"] = [[0, 1, -1, 2**31 - 1, -2**31, 7][b.below(6)] for _ in range(b.below(6))]
            elif kind != "mono":
                o["data"] = b.doubles(6)
                if kind == "f":
                    o["data"] = [f32(x) for x in o["data"]]
            ops.append(o)
        elif k < 12:
            w = b.pick(WELLS)
            ops.append({"op": "well", "name": w, "rates": _rates(b), "bhp": b.double(), "thp": b.double(), "temp": b.double(),
                        "control": b.pick([0, 1, 4, -1, 2**31 - 1]), "status": b.pick(WELL_STATUS), "filtrate": [b.double() for _ in range(3)],
                        "cc": [1 if b.flag() else 0, b.pick(WELL_PROD_CMODE), b.pick(WELL_INJ_CMODE)], "guide": _items(b, 4), "limits": _items(b, 6)})
            if w not in wells:
                wells.append(w)
        elif k < 15:
            if wells:
                o = {"op": "rate", "well": b.pick(wells), "v": b.double()}
                if b.flag(1, 4):
                    o["tracer"] = b.pick(TRACERS)
                else:
                    o["bit"] = b.pick(RATE_BITS)
                ops.append(o)
        elif k < 20:
            if wells:
                ops.append({"op": "conn", "well": b.pick(wells), "index": b.pick([0, 1, 5, 47, 2**40]), "rates": _rates(b),
                            "vals": [b.double() for _ in range(9)], "filtrate": [b.double() for _ in range(8)]})
        elif k < 24:
            if wells:
                key = b.pick([0, 1, 2, 10, 2**33])
                ops.append({"op": "seg", "well": b.pick(wells), "key": key, "num": key if b.flag(3, 4) else b.pick([0, 1, 99]), "rates": _rates(b),
                            "pres": [b.double() for _ in range(5)], "vel": _items(b, 3), "holdup": _items(b, 3), "visc": _items(b, 3),
                            "dens": _items(b, 5)})
        elif k < 28:
            ops.append({"op": "group", "name": b.pick(GROUPS), "cmodes": [b.pick(GROUP_PROD_CMODE), b.pick(GROUP_INJ_CMODE), b.pick(GROUP_INJ_CMODE)],
                        "gprod": _items(b, 4), "ginj": _items(b, 4)})
        elif k < 30:
            ops.append({"op": "node", "name": b.pick(NODE_NAMES), "p": b.double(), "cp": b.double()})
        elif k < 34:
            typ = b.pick(["none", "fet", "ct", "num"])
            n = {"none": 0, "fet": 3, "ct": 6}.get(typ)
            ops.append({"op": "aquifer", "id": b.pick([1, 2, 3, 10, -1]), "aid": b.pick([1, 2, 3, 0, 2**31 - 1]), "vals": [b.double() for _ in range(5)],
                        "type": typ, "tvals": [b.double() for _ in range(n)] if n is not None else b.doubles(5)})
        elif k < 38:
            key = b.pick(EXTRA_KEYS)
            if key not in extra:
                extra.add(key)
                o = {"op": "extra", "key": key, "data": b.doubles(6), "float": b.flag(1, 3)}
                if o["float"]:
                    o["data"] = [f32(x) for x in o["data"]]
                if b.flag():
                    o["dim"] = b.below(NUM_MEASURES)
                ops.append(o)
        else:
            ops.append({"op": "from_si" if b.flag() else "to_si", "units": b.below(4)})
    return ctor, ops


def q_rv(ops):
    wells = {o["name"] for o in ops if o["op"] == "well"} | {"NEVER"}
    sols = {o["name"] for o in ops if o["op"] == "sol"} | {"NEVER"}
    extras = {o["key"] for o in ops if o["op"] == "extra"} | {"NEVER"}
    idx = {o["index"] for o in ops if o["op"] == "conn"} | {3}
    groups = {o["name"] for o in ops if o["op"] in ("group", "node")} | {"NEVER"}
    aq = {o["id"] for o in ops if o["op"] == "aquifer"} | {77}
    return {"wells": sorted(wells), "sol": sorted(sols), "extra": sorted(extras), "tracers": TRACERS + ["NEVER"], "idx": sorted(idx)[:4],
            "groups": sorted(groups), "aqids": sorted(aq)}


# --------------------------------------------------------------------------- the case
def decode(data):
    b = Bytes(data)
    cls = b.pick(CLASSES)
    case = {"kind": "dyn", "cls": cls}
    if cls == "SummaryState":
        ctor, ops = gen_smry(b)
        q = q_smry(ops)
    elif cls == "UDQState":
        ctor, ops = gen_udq(b)
        q = q_udq(ops)
    elif cls == "ActionState":
        ctor, ops = gen_action(b)
        q = q_action(ops)
    elif cls == "WellTestState":
        ctor, ops, tend = gen_wtest(b)
        q = q_wtest(ops, tend)
    else:
        ctor, ops = gen_rv(b)
        q = q_rv(ops)
    if ctor is not None:
        case["ctor"] = ctor
    case["ops"] = ops
    case["q"] = q
    return case


def strategy(tier):
    # a few bytes per operation (a well with its rates ~50); three length bands because Hypothesis' binary() averages
    # close to its minimum size
    return st.one_of(st.binary(min_size=4, max_size=80), st.binary(min_size=80, max_size=500),
                     st.binary(min_size=400, max_size=2500)).map(decode)


# the classes' serializationTestObject() instances; the query universe names what they contain plus names they do not
TESTOBJ_Q = {
    "SummaryState": {"keys": ["test1", "NOSUCH", "FU1"], "wells": ["test3", "test4", "test5", "test10", "W1", "W6", "NEVER"],
                     "groups": ["test7", "test8", "NEVER"], "vars": ["test2", "test6", "test9", "SU1", "WNEVER"], "nums": [1, 2, 5, 7, 10],
                     "regsets": ["NUM"]},
    "UDQState": {"keys": ["FU1", "FU2", "DU1", "DU2", "W1", "W2", "G1", "G2", "SU1", "SUVIS", "SUSPECT", "FU_NEVER"],
                 "wells": ["U1", "U2", "32", "W1", "W6", "I2", "NEVER"], "groups": ["U1", "U2", "32", "NEVER"], "nums": [1, 2, 7, 10, 17, 42]},
    "ActionState": {"names": ["ACTION", "PYACTION", "NEVER"], "ids": [100, 0], "wells": ["P1", "P2", "I", "NEVER"]},
    "WellTestState": {"wells": ["W1", "NEVER"], "nums": [3, 1], "times": [(1000.0).hex(), (1.0e7).hex()]},
    "RestartValue": {"wells": ["test_well", "NEVER"], "sol": ["test_data", "NEVER"], "extra": ["test_key", "NEVER"],
                     "tracers": ["test_tracer", "NEVER"], "idx": [1, 0], "groups": ["test_data", "test_node", "NEVER"], "aqids": [1, 2, 3, 4]},
}


def testobj_cases():
    for cls in CLASSES:
        yield {"kind": "dyn", "cls": cls, "testobj": True, "q": TESTOBJ_Q[cls]}


def entries_and_kinds(case):
    """-> (number of distinct entries the history writes, set of entry kinds)"""
    cls = case["cls"]
    ent, kinds = set(), set()

    def walk(ops, pre=""):
        for o in ops:
            op = o["op"]
            if op == "append":
                kinds.add("append")
                walk(o["ops"], "append/")
                continue
            if op in ("udq", "define", "assign"):
                s = o["set"]
                kinds.add(op + ":" + s["kind"])
                if any(v is None for _, _, v in s["items"]):
                    kinds.add("undefined-value")
                for wg, num, _ in s["items"]:
                    ent.add((op, o.get("key", s["name"]), wg, num))
                continue
            if op == "run":
                kinds.add("run+wells" if o["wells"] else "run")
                if ("run", o["name"], o["id"]) in ent:
                    kinds.add("rerun")
                ent.add(("run", o["name"], o["id"]))
                if o["wells"]:
                    ent.add(("result", o["name"]))
                continue
            if op == "sol":
                kinds.add("sol:" + o["kind"])
            else:
                kinds.add(op)
            ent.add((op,) + tuple(str(o.get(k)) for k in ("key", "name", "well", "group", "var", "num", "regset", "index", "id", "bit", "tracer")))
    walk(case.get("ops", []))
    return len(ent), kinds
