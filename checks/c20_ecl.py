"""Frame-mutation part of C20, result-file side: result files built by the reference encoder (every array type, C0nn
widths 1..99, lengths around the block boundaries) or taken from the repository's tests, with 1..3 single-field
mutations of the framing - a block's leading / trailing length marker, an element count, a type string, a header
length, a truncation, an array dropped or doubled, an extreme payload word; for formatted files the same on the text -
opened by every reader in the ASan+UBSan build of the probe (command ecl_open, reader code shared with the libFuzzer
target: harness/ecl_drive.hpp).  No coverage guidance; what it has instead is knowledge of the format, so that a single
mutation lands on a field a reader trusts, and shrinking (Hypothesis) to the one mutation that matters."""
import glob
import os
import struct

from hypothesis import strategies as st

from vlib import eclcodec as EC
from vlib.runner import Check, sha

REPO = os.environ.get("VERIF_REPO", "/repo")
UNF_KINDS = (0, 2, 4, 6, 8, 9, 10)
FMT_KINDS = (1, 3, 5, 7)
DELTAS = [-8, -4, -1, 1, 3, 4, 8, 16]
COUNTS = [0, 1, -1, 105, 106, 1000, 1001, 2147483647, -2147483648, 65536]
TYPES = [b"INTE", b"REAL", b"DOUB", b"LOGI", b"CHAR", b"MESS", b"C008", b"C012", b"C000", b"C099", b"C001", b"X231", b"C0AB"]
WORDS = [0, -1, 1, 2147483647, -2147483648, 1000000000, 13, 32, 366, 100000, 9999]

_SHIPPED = None


def shipped():
    """[(relative path(s), kind)] of small result files under tests/"""
    global _SHIPPED
    if _SHIPPED is None:
        ext_kind = {".EGRID": 4, ".FEGRID": 5, ".UNRST": 2, ".FUNRST": 3, ".RFT": 8, ".INIT": 9, ".FINIT": 1, ".ESMRY": 10}
        out = []
        for p in sorted(glob.glob(os.path.join(REPO, "tests", "*")) + glob.glob(os.path.join(REPO, "tests", "*", "*"))):
            ext = os.path.splitext(p)[1].upper()
            try:
                sz = os.path.getsize(p)
            except OSError:
                continue
            rel = os.path.relpath(p, REPO)
            if ext in ext_kind and sz <= 60000:
                out.append(([rel], ext_kind[ext]))
            if ext in (".SMSPEC", ".FSMSPEC"):
                u = p[:-len(ext)] + (".UNSMRY" if ext == ".SMSPEC" else ".FUNSMRY")
                if os.path.exists(u) and sz + os.path.getsize(u) <= 60000:
                    out.append(([rel, os.path.relpath(u, REPO)], 6 if ext == ".SMSPEC" else 7))
        _SHIPPED = out
    return _SHIPPED


@st.composite
def gen_arrays(draw):
    n = draw(st.integers(1, 5))
    arrs = []
    if draw(st.booleans()):
        arrs.append({"name": "SEQNUM", "type": "INTE", "data": [draw(st.integers(0, 40))]})
    for k in range(n):
        t = draw(st.sampled_from(["INTE", "REAL", "DOUB", "LOGI", "CHAR", "C0NN", "C0NN", "MESS"]))
        name = draw(st.sampled_from(["INTEHEAD", "LOGIHEAD", "DOUBHEAD", "ZWEL", "PRESSURE", "NAMES", "KEYWORDS", "A%d" % k]))
        if t == "MESS":
            arrs.append({"name": name, "type": "MESS"})
            continue
        if t in ("CHAR", "C0NN"):
            cnt = draw(st.sampled_from([0, 1, 2, 104, 105, 106, 211]) | st.integers(0, 120))
        else:
            cnt = draw(st.sampled_from([0, 1, 2, 999, 1000, 1001]) | st.integers(0, 1100))
        a = {"name": name, "type": t}
        if t == "INTE":
            a["data"] = [(i * 7919 + k) % 1000 for i in range(cnt)]
        elif t == "REAL":
            a["data"] = [EC.bits32(1.5 + i) for i in range(cnt)]
        elif t == "DOUB":
            a["data"] = [EC.bits64(-2.25 + i) for i in range(cnt)]
        elif t == "LOGI":
            a["data"] = [i % 2 for i in range(cnt)]
        elif t == "CHAR":
            a["data"] = ["W%d" % i for i in range(cnt)]
        else:
            w = draw(st.sampled_from([9, 10, 12, 16, 40, 99]) | st.integers(1, 99))
            a["elsize"] = w
            a["data"] = [("S%d" % i)[:w] for i in range(cnt)]
        arrs.append(a)
    return arrs


@st.composite
def case_strategy(draw):
    ints = draw(st.lists(st.integers(0, 65535), min_size=18, max_size=18))
    nmut = draw(st.integers(1, 3))
    if shipped() and draw(st.integers(0, 2)) == 0:
        rels, kind = draw(st.sampled_from(shipped()))
        return {"kind": kind, "ship": rels, "ints": ints, "nmut": nmut}
    kind = draw(st.sampled_from([0, 0, 2, 9, 1, 3, 10, 6]))
    return {"kind": kind, "gen": draw(gen_arrays()), "ints": ints, "nmut": nmut}


def walk(d):
    """[(hdr offset, end offset, count, [block offsets])] of an unformatted byte string"""
    out = []
    p, n = 0, len(d)
    while p + 24 <= n and len(out) < 4096:
        if struct.unpack_from(">i", d, p)[0] != 16 or struct.unpack_from(">i", d, p + 20)[0] != 16:
            if d[p] == 0x1c and p + 25 <= n and struct.unpack_from(">i", d, p + 1)[0] == 16:
                p += 1
                continue
            break
        cnt = struct.unpack_from(">i", d, p + 12)[0]
        t = bytes(d[p + 16:p + 20])
        es = 4 if t in (b"INTE", b"REAL", b"LOGI") else 8 if t in (b"DOUB", b"CHAR") else \
            (int(t[2:]) if t[:2] == b"C0" and t[2:].isdigit() and int(t[2:]) > 0 else -1)
        hdr = p
        p += 24
        remaining = cnt * es if es > 0 and cnt > 0 else 0
        blocks = []
        while remaining > 0 and p + 8 <= n:
            ln = struct.unpack_from(">i", d, p)[0]
            if ln <= 0 or p + 8 + ln > n:
                remaining = -1
                break
            blocks.append(p)
            p += 8 + ln
            remaining -= ln
        out.append((hdr, p, cnt, blocks))
        if remaining != 0:
            break
    return out


def mutate_unformatted(d, ints):
    d = bytearray(d)
    k = [0]

    def nxt(n):
        v = ints[k[0] % len(ints)]
        k[0] += 1
        return v % n if n else 0

    arrs = walk(d)
    if not arrs:
        if d:
            d[nxt(len(d))] ^= 1 << nxt(8)
        return bytes(d)
    hdr, end, cnt, blocks = arrs[nxt(len(arrs))]

    def add32(pos, delta):
        v = struct.unpack_from(">i", d, pos)[0] + delta
        struct.pack_into(">i", d, pos, max(-2 ** 31, min(2 ** 31 - 1, v)))
    op = nxt(9)
    if op == 0 and blocks:
        add32(blocks[nxt(len(blocks))], DELTAS[nxt(8)])
    elif op == 1 and blocks:
        b = blocks[nxt(len(blocks))]
        add32(b + 4 + struct.unpack_from(">i", d, b)[0], DELTAS[nxt(8)])
    elif op == 2:
        c = nxt(14)
        v = COUNTS[c] if c < 10 else (cnt + DELTAS[nxt(8)] if c < 12 else cnt * 2)
        struct.pack_into(">i", d, hdr + 12, max(-2 ** 31, min(2 ** 31 - 1, v)))
    elif op == 3:
        d[hdr + 16:hdr + 20] = TYPES[nxt(len(TYPES))]
    elif op == 4:
        struct.pack_into(">i", d, hdr + (20 if nxt(2) else 0), [0, 15, 17, 24, -16][nxt(5)])
    elif op == 5:
        cut = end if nxt(2) else hdr + [0, 4, 12, 20, 24, 28][nxt(6)]
        if 0 < cut <= len(d):
            del d[cut:]
    elif op == 6:
        d[end:end] = d[hdr:end]
    elif op == 7:
        if end - hdr < len(d):
            del d[hdr:end]
    elif blocks:
        b = blocks[nxt(len(blocks))]
        ln = struct.unpack_from(">i", d, b)[0]
        if ln >= 4:
            struct.pack_into(">i", d, b + 4 + 4 * nxt(ln // 4), WORDS[nxt(len(WORDS))])
    return bytes(d)


def mutate_formatted(d, ints):
    k = [0]

    def nxt(n):
        v = ints[k[0] % len(ints)]
        k[0] += 1
        return v % n if n else 0
    lines = d.decode("latin-1").split("\n")
    heads = [i for i, ln in enumerate(lines) if ln.startswith(" '") and ln.count("'") >= 4]
    op = nxt(7)
    if heads and op <= 2:
        i = heads[nxt(len(heads))]
        ln = lines[i]
        if op == 0:      # element count (columns 12..22)
            lines[i] = ln[:11] + ("%11d" % COUNTS[nxt(len(COUNTS))]) + ln[22:]
        elif op == 1:    # type
            lines[i] = ln[:24] + TYPES[nxt(len(TYPES))].decode() + ln[28:]
        else:            # header line cut short / padded
            lines[i] = ln[:nxt(len(ln) + 1)] if nxt(2) else ln + " 7"
    elif op == 3 and lines:
        del lines[nxt(len(lines))]
    elif op == 4 and lines:
        i = nxt(len(lines))
        lines.insert(i, lines[i])
    elif op == 5 and lines:
        del lines[nxt(len(lines)):]
    elif lines:
        i = nxt(len(lines))
        toks = lines[i].split(" ")
        cand = [j for j, t in enumerate(toks) if t]
        if cand:
            toks[cand[nxt(len(cand))]] = ["0", "-1", "2147483648", "1E+400", "NAN", "'", "1.0D+09", "T", "99999999999", ""][nxt(10)]
            lines[i] = " ".join(toks)
    return "\n".join(lines).encode("latin-1")


class C20Ecl(Check):
    ID = "C20"
    REGRESS_PREFIX = "eclframe__"
    PROBE = "san"
    PROBE_GROUP = "deck"
    PROBE_ENV = {"OMP_NUM_THREADS": "1"}
    RULE = "frame-mutation part of C20, result-file side (see checks/c20.py)"
    EXAMPLES = {"quick": 700, "thorough": 9000}
    MIN_EVALS = {"quick": 1, "thorough": 1}
    TIME_CAP = {"quick": 45, "thorough": 420}
    MAX_REJECT = 1.0

    def strategy(self, tier):
        return case_strategy()

    def content(self, case):
        kind = case["kind"]
        if "ship" in case:
            parts = [open(os.path.join(REPO, r), "rb").read() for r in case["ship"]]
        else:
            enc = EC.encode_formatted if kind in FMT_KINDS else EC.encode_unformatted
            parts = [enc(case["gen"])]
            if kind in (6, 7):
                parts.append(enc([{"name": "SEQHDR", "type": "INTE", "data": [1]}, {"name": "MINISTEP", "type": "INTE", "data": [0]},
                                  {"name": "PARAMS", "type": "REAL", "data": [EC.bits32(1.0), EC.bits32(2.0)]}]))
        # mutate one of the parts (summary: spec or data file)
        for m in range(case["nmut"]):
            ints = case["ints"][m * 6:] + case["ints"][:m * 6]
            i = ints[0] % len(parts)
            parts[i] = (mutate_formatted if kind in FMT_KINDS else mutate_unformatted)(parts[i], ints[1:])
        return b"\x1c".join(parts) if kind in (6, 7) else parts[0]

    def classify(self, case):
        labels = ["eclframe:kind:%d" % case["kind"], "eclframe:" + ("shipped" if "ship" in case else "generated"),
                  "eclframe:mutations:%d" % case["nmut"]]
        if "gen" in case and any(a["type"] == "C0NN" for a in case["gen"]):
            labels.append("eclframe:has-C0nn")
        return True, sha([case["kind"], case.get("ship"), case.get("gen"), case["ints"], case["nmut"]], 16), labels

    def sample_view(self, case):
        return {"kind": case["kind"], "base": case.get("ship") or [(a["name"], a["type"], len(a.get("data", []))) for a in case["gen"]],
                "nmut": case["nmut"], "ints": case["ints"][:8]}

    def known_key(self, case, viol):
        return viol.get("key")

    def check(self, case, ctx):
        from checks.c20 import signature, finding_key
        from vlib.probe import ProbeCrash, LibError
        data = self.content(case)
        ctx.P.timeout = 100.0
        try:
            r = ctx.P.call("ecl_open", kind=case["kind"], hex=data.hex())
        except LibError:
            ctx.label("eclframe:rejected-cleanly")
            return None
        except ProbeCrash as e:
            err = e.stderr or ""
            if "out-of-memory" in err or "allocation-size-too-big" in err or "exceeds maximum supported size" in err:
                ctx.label("eclframe:oom-on-declared-size")
                return None         # resource exhaustion on a huge declared size: counted, not a violation
            sig = finding_key("result-files", signature(err))
            if sig.startswith("hang"):
                ctx.label("eclframe:no-reply-in-100s")
                return None         # (readers are linear in the file size; a time-out here is load)
            return {"rule": "crash (sanitizer report / signal / exit) while opening a generated-and-mutated result file",
                    "detail": {"signature": sig, "stderr": err[:3500], "kind": case["kind"], "hex": data[:4096].hex(),
                               "length": len(data)}, "key": sig}
        ctx.label("eclframe:opened" if r["opened"] else "eclframe:rejected-cleanly")
        if r["arrays"]:
            ctx.label("eclframe:arrays-read")
        return None
