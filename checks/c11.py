"""C11 - serialization round trip yields an observably identical object."""
import glob
import json
import os

from hypothesis import strategies as st

from vlib import modelgen as MG
from vlib.runner import Check, Discard, sha
from vlib.probe import LibError
from checks import c04
from checks import c11_dyn as DYN

REPO = os.environ.get("VERIF_REPO", "/repo")
SHIPPED = sorted(glob.glob(os.path.join(REPO, "tests", "*.DATA")))

KINDS = list(MG.GENERATORS)


@st.composite
def mixed_strategy(draw, tier):
    # about 40 % dynamic state objects, 60 % deck objects.  The nominal probability is 0.8: Hypothesis' generate phase
    # follows every example with up to five structural mutations of it (spans with equal labels swapped), which
    # multiplies the many-draw deck cases about sixfold and the single-draw dynamic cases not at all; measured
    # effective share of dynamic cases with 0.8: 0.26 .. 0.48 per shard, ~0.4 over a run (see evidence "kind:dyn").
    if draw(st.integers(0, 9)) < 8:
        return draw(DYN.strategy(tier))
    return draw(case_strategy())


@st.composite
def case_strategy(draw):
    if draw(st.integers(0, 3)) == 0:
        # a schedule after an action history (C04 generator)
        c = draw(c04.case_strategy())
        return {"kind": "after-actions", "text": c04.deck_text(c, False), "apps": c["apps"]}
    blocks = draw(MG.gen_schedule(kinds=list(MG.GENERATORS) + list(getattr(MG, "EXTRA_GENERATORS", {}))))
    unit = draw(st.sampled_from(["METRIC", "FIELD", "LAB", "PVT-M"]))
    static = draw(MG.gen_static())
    return {"kind": "generated", "text": MG.render(blocks, unit, static=static)}


def first_diff(x, y, path=""):
    if type(x) != type(y):
        return path, x, y
    if isinstance(x, dict):
        for k in sorted(set(x) | set(y)):
            if k not in x or k not in y:
                return path + "/" + k, x.get(k), y.get(k)
            r = first_diff(x[k], y[k], path + "/" + k)
            if r:
                return r
        return None
    if isinstance(x, list):
        if len(x) != len(y):
            return path + "/len", len(x), len(y)
        for i, (u, v) in enumerate(zip(x, y)):
            r = first_diff(u, v, "%s/%d" % (path, i))
            if r:
                return r
        return None
    return None if x == y else (path, x, y)


class C11(Check):
    ID = "C11"
    PROBE_GROUP = "pack"
    PROBE_ENV = {"OMP_NUM_THREADS": "1"}
    RULE = ("Schedule, EclipseState and SummaryConfig objects built from generated models (curated schedule generator over ~45 keywords incl. "
            "UDQ, ACTIONX, WLIST, GCONSALE, network; METRIC/FIELD/LAB), from schedules after applyAction histories (C04 generator), and from "
            "every shipped deck under tests/*.DATA that builds (enumerated).  x is packed with Serializer<MemPacker>, unpacked into a fresh "
            "default object y, y packed again and unpacked into z.  Oracle: unpacking consumes exactly the packed bytes; x == y and y == z "
            "(where the class has operator==); the public-getter observation (every Well/Group/Connection/Segment/ScheduleState getter, "
            "sub-configurations in full) and the member-list dump of x, y, z are identical; re-packing y gives the same length as packing x "
            "(and as packing x a second time).  Non-trivial: object with >= 2 wells and >= 2 of {UDQ, ACTIONX, WLIST, GCONSALE, network, "
            "MSW, VFP table, WTEST}; distinct by text hash.  Second family (about 40 % of the generated cases, labels 'dyn:<class>'): "
            "SummaryState, UDQState, Action::State, WellTestState and RestartValue (data::Solution, data::Wells with connections and "
            "segments, data::GroupAndNetworkValues, data::Aquifers, extra vectors) built from a generated VALID history of calls to the "
            "class's public mutators (update*/set/erase*/append/update_udq; add_define/add_assign; add_run; close_*/open_*/filter_wells/"
            "test_wells/clear; insert/addExtra/convertToSI/convertFromSI and the public data members), plus each class's "
            "serializationTestObject() (enumerated); same three-generation oracle, the observation being every public getter over the "
            "names the history used and names it never used.  Non-trivial dynamic case: history writing >= 10 distinct entries of >= 3 "
            "kinds; distinct by hash of (class, constructor arguments, history)."
            " Extended during the build phase: static-section variations (report mnemonics and integer controls, region / fault multipliers, PLYSHLOG with every index-record shape, ROCKTAB), rarely used keywords (kw_rare, kw_wellextra, kw_groupextra), UDQ-valued WSEGVALV area; PLYSHLOG and ROCKTAB tables are observed through their typed getters (the member dump shares serializeOp with the round trip).")
    ASSUMPTIONS = ["an EclipseState's grid and field properties travel separately (documented) and are not observed",
                   "members with no public getter and absent from operator== and serializeOp are invisible",
                   "byte equality of re-packs is not required (unordered containers), only equal length and meaning",
                   "dynamic state objects: the valid input domain is the one stated in checks/c11_dyn.py (whole-second start times - the "
                   "packer transfers a time_point as std::time_t -, no NaN values because NaN != NaN under operator==, UDQ keys with 'U' "
                   "as second character, open_well only for wells closed before, unique extra keys of <= 8 characters)",
                   "answers whose ORDER comes from a hash table (SummaryState::wells(var), iteration, WellTestState::test_wells) are "
                   "compared as sorted lists",
                   "UDQState::defines and WTestWell::wtest_report_step have no direct getter: seen through operator==, the member-list "
                   "dump and (report step) the continuation test_wells() calls on a copy"]
    EXAMPLES = {"quick": 300, "thorough": 5000}
    MIN_EVALS = {"quick": 500, "thorough": 8000}
    TIME_CAP = {"quick": 200, "thorough": 1500}
    LEVEL_TEXT = ("Generated-input search with a round-trip oracle on three generations (x, y = unpack(pack(x)), z = unpack(pack(y))): "
                  "equality, exact byte consumption, equal re-pack length, identical answers to a broad sweep of public queries and "
                  "identical member-list dumps.")
    LEVEL_NOTE = "Trusted: harness/probe/obs_getters.hpp as the list of public queries; serialdump.hpp as the member-list view."
    TECHNIQUE = "property-based testing: generated and shipped objects, serialization round-trip oracle with public-query sweep"

    def strategy(self, tier):
        return mixed_strategy(tier)

    def enumerate(self, tier):
        for c in DYN.testobj_cases():
            yield c
        for p in SHIPPED:
            yield {"kind": "shipped", "path": os.path.relpath(p, REPO)}

    def floors(self, tier):
        # vacuity guard: every dynamic class must actually occur
        return {"dyn:" + c: 0.01 for c in DYN.CLASSES}

    def classify(self, case):
        if case["kind"] == "shipped":
            return True, "shipped:" + case["path"], ["shipped-deck"]
        if case["kind"] == "dyn":
            labels = ["kind:dyn", "dyn:" + case["cls"]]
            if case.get("testobj"):
                return True, "testobj:" + case["cls"], labels + ["dyn:serializationTestObject"]
            n, kinds = DYN.entries_and_kinds(case)
            nontriv = n >= 10 and len(kinds) >= 3
            if nontriv:
                labels.append("dyn-nontrivial:" + case["cls"])
            for k in sorted(kinds):
                labels.append("dyn-op:%s:%s" % (case["cls"], k))
            return nontriv, sha([case["cls"], case.get("ctor"), case["ops"]], 16), labels
        t = case["text"]
        labels = ["kind:" + case["kind"]]
        feats = 0
        for kw, lab in (("RPTSOL\n", "RPTSOL"), ("FIPVE", "RPTSOL-FIPVE"), ("RPTRST\n", "RPTRST"), ("UDQ\n", "UDQ"), ("ACTIONX\n", "ACTIONX"), ("WLIST\n", "WLIST"), ("GCONSALE\n", "GCONSALE"), ("BRANPROP\n", "network"),
                        ("WTEST\n", "WTEST"), ("WELSEGS\n", "MSW"), ("NODEPROP\n", "NODEPROP"), ("GUIDERAT\n", "GUIDERAT"), ("WECON\n", "WECON"), ("GCONSUMP\n", "GCONSUMP"), ("TUNING\n", "TUNING")):
            if kw in t:
                labels.append("has:" + lab)
                feats += 1
        nw = t.count("WELSPECS\n")
        return (nw >= 2 and feats >= 2), sha(t, 16), labels

    def sample_view(self, case):
        if case["kind"] in ("shipped", "dyn"):
            return case
        return {"kind": case["kind"], "schedule": case["text"][len(MG.prelude()):], "apps": case.get("apps")}

    def call(self, P, case, full):
        if case["kind"] == "dyn":
            args = {k: case[k] for k in ("cls", "ctor", "ops", "q", "testobj") if k in case}
            return P.call("pack_dyn", full=full, **args)
        if case["kind"] == "shipped":
            return P.call("pack_deck", path=os.path.join(REPO, case["path"]), full=full)
        if case.get("apps"):
            return P.call("pack_deck", text=case["text"], apps=case["apps"], full=full)
        return P.call("pack_deck", text=case["text"], full=full)

    def check(self, case, ctx):
        P = ctx.P
        try:
            r = self.call(P, case, False)
        except LibError:
            if case["kind"] == "shipped":
                raise Discard()      # a shipped deck that needs other context (restart file, python, ...)
            raise
        if case["kind"] == "dyn":
            if "roundtrip_exc" in r:
                # the object was built by valid calls; pack / unpack / compare / a getter sweep must not throw on it
                return {"rule": "%s: exception during the pack/unpack round trip of a validly built object" % case["cls"],
                        "detail": {"what": r["roundtrip_exc"], "input": {k: case.get(k) for k in ("cls", "testobj", "ctor", "ops")}},
                        "key": None}
            r = r["result"]
        for name in ((case["cls"],) if case["kind"] == "dyn" else ("Schedule", "EclipseState", "SummaryConfig")):
            o = r[name]
            bad = None
            if o["consumed_bytes"] != o["packed_bytes"]:
                bad = ("unpack consumed %d of %d packed bytes" % (o["consumed_bytes"], o["packed_bytes"]), None)
            elif o["equal"] == 0:
                bad = ("unpacked object does not compare equal to the original", None)
            elif o["equal2"] == 0:
                bad = ("second generation does not compare equal", None)
            elif o["reconsumed_bytes"] != o["repacked_bytes"]:
                bad = ("second unpack consumed %d of %d bytes" % (o["reconsumed_bytes"], o["repacked_bytes"]), None)
            elif o["repacked_bytes"] != o["packed_bytes"] or o["packed_again_bytes"] != o["packed_bytes"]:
                bad = ("re-packing gives another length: %d (x) / %d (x again) / %d (y)" % (
                    o["packed_bytes"], o["packed_again_bytes"], o["repacked_bytes"]), None)
            elif not (o["obs_x"] == o["obs_y"] == o["obs_z"]):
                bad = ("public queries answer differently after the round trip", "obs")
            elif not (o["ser_x"] == o["ser_y"] == o["ser_z"]):
                bad = ("member-list dump differs after the round trip", "ser")
            if bad:
                detail = {"object": name, "sizes": {k: v for k, v in o.items() if k.endswith("bytes")}}
                if bad[1]:
                    f = self.call(P, case, True)
                    f = (f["result"] if case["kind"] == "dyn" else f)[name]
                    for other in ("y", "z"):
                        d = first_diff(json.loads(f[bad[1] + "_x"]), json.loads(f[bad[1] + "_" + other]))
                        if d:
                            detail["first_difference"] = {"where": d[0], "x": d[1], other: d[2]}
                            break
                if case["kind"] == "dyn":
                    detail["input"] = {k: case.get(k) for k in ("cls", "testobj", "ctor", "ops")}
                else:
                    detail["input"] = case.get("path") or case["text"][len(MG.prelude()):][:3000]
                return {"rule": "%s: %s" % (name, bad[0]), "detail": detail, "key": None}
        return None
