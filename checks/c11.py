"""C11 - serialization round trip yields an observably identical object."""
import glob
import json
import os

from hypothesis import strategies as st

from vlib import modelgen as MG
from vlib.runner import Check, Discard, sha
from vlib.probe import LibError
from checks import c04

REPO = os.environ.get("VERIF_REPO", "/repo")
SHIPPED = sorted(glob.glob(os.path.join(REPO, "tests", "*.DATA")))

KINDS = list(MG.GENERATORS)


@st.composite
def case_strategy(draw):
    if draw(st.integers(0, 3)) == 0:
        # a schedule after an action history (C04 generator)
        c = draw(c04.case_strategy())
        return {"kind": "after-actions", "text": c04.deck_text(c, False), "apps": c["apps"]}
    blocks = draw(MG.gen_schedule())
    unit = draw(st.sampled_from(["METRIC", "FIELD", "LAB"]))
    return {"kind": "generated", "text": MG.render(blocks, unit)}


def first_diff(x, y, path=""):
    if type(x) != type(y):
        return path, x, y
    if isinstance(x, dict):
        for k in sorted(set(x) | set(y)):
            if k not in x or k not in y:
                return path + "/" + k, x.get(k), y.get(k)
            r = first_diff(x[k], y[k], path + "/" + k)
            if r:
                return r
        return None
    if isinstance(x, list):
        if len(x) != len(y):
            return path + "/len", len(x), len(y)
        for i, (u, v) in enumerate(zip(x, y)):
            r = first_diff(u, v, "%s/%d" % (path, i))
            if r:
                return r
        return None
    return None if x == y else (path, x, y)


class C11(Check):
    ID = "C11"
    PROBE_GROUP = "pack"
    PROBE_ENV = {"OMP_NUM_THREADS": "1"}
    RULE = ("Schedule, EclipseState and SummaryConfig objects built from generated models (curated schedule generator over ~45 keywords incl. "
            "UDQ, ACTIONX, WLIST, GCONSALE, network; METRIC/FIELD/LAB), from schedules after applyAction histories (C04 generator), and from "
            "every shipped deck under tests/*.DATA that builds (enumerated).  x is packed with Serializer<MemPacker>, unpacked into a fresh "
            "default object y, y packed again and unpacked into z.  Oracle: unpacking consumes exactly the packed bytes; x == y and y == z "
            "(where the class has operator==); the public-getter observation (every Well/Group/Connection/Segment/ScheduleState getter, "
            "sub-configurations in full) and the member-list dump of x, y, z are identical; re-packing y gives the same length as packing x "
            "(and as packing x a second time).  Non-trivial: object with >= 2 wells and >= 2 of {UDQ, ACTIONX, WLIST, GCONSALE, network, "
            "MSW, VFP table, WTEST}; distinct by text hash.")
    ASSUMPTIONS = ["an EclipseState's grid and field properties travel separately (documented) and are not observed",
                   "members with no public getter and absent from operator== and serializeOp are invisible",
                   "byte equality of re-packs is not required (unordered containers), only equal length and meaning",
                   "dynamic state objects (SummaryState, UDQState, Action::State, WellTestState, RestartValue) are covered by the second "
                   "part of this check when present (see evidence classes 'dyn:*')"]
    EXAMPLES = {"quick": 50, "thorough": 1000}
    MIN_EVALS = {"quick": 500, "thorough": 8000}
    TIME_CAP = {"quick": 200, "thorough": 1500}
    LEVEL_TEXT = ("Generated-input search with a round-trip oracle on three generations (x, y = unpack(pack(x)), z = unpack(pack(y))): "
                  "equality, exact byte consumption, equal re-pack length, identical answers to a broad sweep of public queries and "
                  "identical member-list dumps.")
    LEVEL_NOTE = "Trusted: harness/probe/obs_getters.hpp as the list of public queries; serialdump.hpp as the member-list view."
    TECHNIQUE = "property-based testing: generated and shipped objects, serialization round-trip oracle with public-query sweep"

    def strategy(self, tier):
        return case_strategy()

    def enumerate(self, tier):
        for p in SHIPPED:
            yield {"kind": "shipped", "path": os.path.relpath(p, REPO)}

    def classify(self, case):
        if case["kind"] == "shipped":
            return True, "shipped:" + case["path"], ["shipped-deck"]
        t = case["text"]
        labels = ["kind:" + case["kind"]]
        feats = 0
        for kw, lab in (("UDQ\n", "UDQ"), ("ACTIONX\n", "ACTIONX"), ("WLIST\n", "WLIST"), ("GCONSALE\n", "GCONSALE"), ("BRANPROP\n", "network"),
                        ("WTEST\n", "WTEST"), ("GUIDERAT\n", "GUIDERAT"), ("WECON\n", "WECON"), ("GCONSUMP\n", "GCONSUMP"), ("TUNING\n", "TUNING")):
            if kw in t:
                labels.append("has:" + lab)
                feats += 1
        nw = t.count("WELSPECS\n")
        return (nw >= 2 and feats >= 2), sha(t, 16), labels

    def sample_view(self, case):
        if case["kind"] == "shipped":
            return case
        return {"kind": case["kind"], "schedule": case["text"][len(MG.prelude()):], "apps": case.get("apps")}

    def call(self, P, case, full):
        if case["kind"] == "shipped":
            return P.call("pack_deck", path=os.path.join(REPO, case["path"]), full=full)
        if case.get("apps"):
            return P.call("pack_deck", text=case["text"], apps=case["apps"], full=full)
        return P.call("pack_deck", text=case["text"], full=full)

    def check(self, case, ctx):
        P = ctx.P
        try:
            r = self.call(P, case, False)
        except LibError:
            if case["kind"] == "shipped":
                raise Discard()      # a shipped deck that needs other context (restart file, python, ...)
            raise
        for name in ("Schedule", "EclipseState", "SummaryConfig"):
            o = r[name]
            bad = None
            if o["consumed_bytes"] != o["packed_bytes"]:
                bad = ("unpack consumed %d of %d packed bytes" % (o["consumed_bytes"], o["packed_bytes"]), None)
            elif o["equal"] == 0:
                bad = ("unpacked object does not compare equal to the original", None)
            elif o["equal2"] == 0:
                bad = ("second generation does not compare equal", None)
            elif o["reconsumed_bytes"] != o["repacked_bytes"]:
                bad = ("second unpack consumed %d of %d bytes" % (o["reconsumed_bytes"], o["repacked_bytes"]), None)
            elif o["repacked_bytes"] != o["packed_bytes"] or o["packed_again_bytes"] != o["packed_bytes"]:
                bad = ("re-packing gives another length: %d (x) / %d (x again) / %d (y)" % (
                    o["packed_bytes"], o["packed_again_bytes"], o["repacked_bytes"]), None)
            elif not (o["obs_x"] == o["obs_y"] == o["obs_z"]):
                bad = ("public queries answer differently after the round trip", "obs")
            elif not (o["ser_x"] == o["ser_y"] == o["ser_z"]):
                bad = ("member-list dump differs after the round trip", "ser")
            if bad:
                detail = {"object": name, "sizes": {k: v for k, v in o.items() if k.endswith("bytes")}}
                if bad[1]:
                    f = self.call(P, case, True)[name]
                    for other in ("y", "z"):
                        d = first_diff(json.loads(f[bad[1] + "_x"]), json.loads(f[bad[1] + "_" + other]))
                        if d:
                            detail["first_difference"] = {"where": d[0], "x": d[1], other: d[2]}
                            break
                detail["input"] = case.get("path") or case["text"][len(MG.prelude()):][:3000]
                return {"rule": "%s: %s" % (name, bad[0]), "detail": detail, "key": None}
        return None
