"""C17 - UDQ expressions evaluate according to the documented expression semantics.

Part A: generated UDQ expressions (token sequences of the UDQ grammar) are evaluated by
        UDQDefine(...).eval(context) on a generated summary state and compared with a reference
        evaluator written from the property statement (precedence, element-wise evaluation with
        scalar broadcasting, propagation of undefined, definitions of the functions).
Part B: generated ASSIGN / DEFINE / UPDATE histories over report steps are pushed through
        deck text -> Parser -> Schedule -> UDQConfig(step).eval(...) and compared with a
        reference state machine.
"""
import math

from hypothesis import strategies as st

from vlib.runner import Check, Discard, sha
from vlib.probe import LibError, hexf

# ------------------------------------------------------------------ vocabulary
WELL_POOL = ["P1", "P2", "P3", "PA1", "PB2", "I1", "I2", "OP1"]
WELL_PATTERNS = ["P*", "I*", "PA*", "O*", "P1*", "X*", "*"]
GROUP_POOL = ["G1", "G2", "GA"]
WVARS = ["WOPR", "WWPR", "WGPR", "WBHP"]
GVARS = ["GOPR", "GWPR"]
FVARS = ["FOPR", "FWPR", "FGPR"]
WUDQ = ["WU_A", "WU_B"]
GUDQ = ["GU_A"]
FUDQ = ["FU_A", "FU_B"]
NUMBERS = ["2", "3", "0.5", "10", "1.5", "0.25", "7", "4", "2.5E-1", "1E+1", "100", "0.1", "1", "12.75"]
POW_EXPONENTS = ["2", "3", "0.5", "2.0", "1.5", "1"]

REDUCE = ["SUM", "AVEA", "AVEG", "AVEH", "MAX", "MIN", "NORM1", "NORM2", "NORMI", "PROD"]
ELEM_ANY = ["ABS", "EXP", "LN", "LOG", "NINT"]           # meaningful on scalars and on sets
ELEM_SET = ["DEF", "IDV", "SORTA", "SORTD", "UNDEF"]     # only generated on set-valued arguments
ARITH = ["+", "-", "*", "/", "^"]
CMP = ["==", "!=", "<", ">", "<=", ">="]
UOPS = ["UADD", "UMUL", "UMIN", "UMAX"]

# rank of an operator in the documented order (higher binds tighter):
#   ( ) and functions first, then ^, then * /, then + -, then comparisons, then the union operators
RANK = {"^": 4, "*": 3, "/": 3, "+": 2, "-": 2}
for _o in CMP:
    RANK[_o] = 1
for _o in UOPS:
    RANK[_o] = 0

CMP_EPS = 1.0e-4        # UDQPARAM item 4 default (documented)
# Values are "equal" for the eps-comparisons when they agree to 1e-9 relative (far inside the documented
# epsilon) and "different" when they differ by more than 1e-2 relative (far outside); anything in between
# would hinge on how exactly the epsilon is applied, which the statement does not define -> Discard.
NEAR = 1.0e-9
FAR = 1.0e-2
MAXABS = 1.0e15         # "no intermediate overflows": larger intermediates -> Discard


# ------------------------------------------------------------------ reference evaluator
class Val:
    """kind 'S' (scalar, one element) or 'W'/'G' (one element per well/group); elements float|None"""
    __slots__ = ("kind", "v", "taint")

    def __init__(self, kind, v, taint=False):
        self.kind = kind
        self.v = v
        self.taint = taint      # value went through libm / a reduction: last-ulp differences possible


class GenBug(Exception):
    pass


class Ref:
    def __init__(self, case):
        self.wells = list(case["wells"])
        self.field = {k: v for k, v in case["field"]}
        self.wv = {var: dict(lst) for var, lst in case["wvars"]}
        self.gv = {var: dict(lst) for var, lst in case["gvars"]}
        gs = set()
        for var in self.gv:
            gs.update(self.gv[var].keys())
        self.groups = sorted(gs)          # the groups known to the summary state
        self.udq = {}
        for name, kind, data in case.get("udqs", []):
            self.udq[name] = data if kind == "F" else dict(data)
        self.tk = case["target"][0]       # F / W / G
        self.hazards = set()              # shapes of known findings present in this evaluation (for keys only)
        self.notes = set()
        self.maxabs = 0.0

    # -------------------------------------------------------------- helpers
    def universe(self, kind):
        return self.wells if kind == "W" else self.groups

    def fin(self, x):
        if x is None:
            return None
        if isinstance(x, bool):
            x = 1.0 if x else 0.0
        if math.isnan(x) or math.isinf(x) or abs(x) > MAXABS:
            raise Discard("non-finite or huge intermediate")
        self.maxabs = max(self.maxabs, abs(x))
        return float(x)

    def bcast(self, a, b):
        """-> (kind, list_a, list_b) after scalar broadcasting"""
        if a.kind == b.kind:
            return a.kind, a.v, b.v
        if a.kind == "S":
            return b.kind, [a.v[0]] * len(b.v), b.v
        if b.kind == "S":
            return a.kind, a.v, [b.v[0]] * len(a.v)
        raise GenBug("well set combined with group set")

    # what the library's type system sees as a set (numbers are full sets when the target is W/G);
    # used ONLY to attribute a mismatch to a known finding or to an un-asserted shape, never for values
    def libset(self, n):
        t = n[0]
        if t == "num":
            return self.tk in "WG"
        if t == "var":
            return n[2] is None or "*" in n[2]
        if t in ("neg", "par"):
            return self.libset(n[1])
        if t == "fn":
            return False if n[1] in REDUCE else self.libset(n[2])
        if t == "bin":
            if n[1] == "^" or n[1] in UOPS:
                return self.libset(n[2])
            return self.libset(n[2]) or self.libset(n[3])
        raise GenBug(t)

    # -------------------------------------------------------------- evaluation
    def ev(self, n):
        t = n[0]
        if t == "num":
            return Val("S", [self.fin(float(n[1]))])
        if t == "var":
            return self.ev_var(n[1], n[2])
        if t == "par":
            return self.ev(n[1])
        if t == "neg":
            a = self.ev(n[1])
            return Val(a.kind, [None if x is None else -x for x in a.v], a.taint)
        if t == "fn":
            return self.ev_fn(n[1], n[2])
        if t == "bin":
            return self.ev_bin(n)
        raise GenBug(t)

    def ev_var(self, name, sel):
        k = name[0]
        if k == "F":
            if name in self.udq:
                return Val("S", [self.udq[name]])
            return Val("S", [self.field[name]])
        table = self.udq[name] if name in self.udq else (self.wv if k == "W" else self.gv)[name]
        uni = self.universe(k)
        if sel is None:
            return Val(k, [table.get(x) for x in uni])
        if "*" in sel:
            if k != "W":
                raise GenBug("group pattern")
            pre = sel[:-1]
            return Val(k, [table.get(x) if x.startswith(pre) else None for x in uni])
        return Val("S", [table.get(sel)])

    def ev_fn(self, f, arg):
        a = self.ev(arg)
        if f in REDUCE:
            if a.kind == "S":
                raise GenBug("reduction of a scalar is not generated")
            d = [x for x in a.v if x is not None]
            if not d:
                self.hazards.add("empty-reduction-throws")
                return Val("S", [None])
            if f == "SUM":
                r = math.fsum(d)
            elif f == "AVEA":
                r = math.fsum(d) / len(d)
            elif f == "AVEG":
                if min(d) <= 0:
                    raise Discard("AVEG of non-positive")
                r = math.exp(math.fsum(math.log(x) for x in d) / len(d))
            elif f == "AVEH":
                if min(d) <= 0:
                    raise Discard("AVEH of non-positive")
                r = len(d) / math.fsum(1.0 / x for x in d)
            elif f == "MAX":
                r = max(d)
            elif f == "MIN":
                r = min(d)
            elif f == "NORM1":
                r = math.fsum(abs(x) for x in d)
            elif f == "NORM2":
                r = math.sqrt(math.fsum(x * x for x in d))
            elif f == "NORMI":
                r = max(abs(x) for x in d)
            elif f == "PROD":
                r = 1.0
                for x in d:
                    r = self.fin(r * x)
            taint = a.taint or f not in ("MAX", "MIN", "NORMI")
            return Val("S", [self.fin(r)], taint)
        # elemental functions
        out = []
        taint = a.taint
        if f in ("SORTA", "SORTD"):
            d = sorted(x for x in a.v if x is not None)
            for i in range(1, len(d)):
                if abs(d[i] - d[i - 1]) <= NEAR * max(abs(d[i]), abs(d[i - 1])):
                    raise Discard("ties in SORTA/SORTD: ranking among equal values is not defined")
            if f == "SORTD":
                d.reverse()
            rank = {x: float(i + 1) for i, x in enumerate(d)}
            return Val(a.kind, [None if x is None else rank[x] for x in a.v])
        if f == "UNDEF":
            self.hazards.add("undef-function-throws")
        for x in a.v:
            if f == "IDV":
                out.append(0.0 if x is None else 1.0)
            elif f == "UNDEF":
                out.append(1.0 if x is None else None)
            elif x is None:
                out.append(None)
            elif f == "DEF":
                out.append(1.0)
            elif f == "ABS":
                out.append(abs(x))
            elif f == "EXP":
                try:
                    out.append(self.fin(math.exp(x)))
                except OverflowError:
                    raise Discard("overflow")
                taint = True
            elif f in ("LN", "LOG"):
                if x <= 0:
                    raise Discard("LN/LOG of non-positive")
                out.append(self.fin(math.log(x) if f == "LN" else math.log10(x)))
                taint = True
            elif f == "NINT":
                fl = math.floor(x)
                fr = x - fl
                if abs(fr - 0.5) <= 1e-9:
                    raise Discard("NINT of a half-integer: rounding direction not stated")
                out.append(fl + (1.0 if fr > 0.5 else 0.0))
            else:
                raise GenBug(f)
        return Val(a.kind, out, taint)

    def ev_bin(self, n):
        op, l, r = n[1], n[2], n[3]
        a = self.ev(l)
        b = self.ev(r)
        kind, av, bv = self.bcast(a, b)
        taint = a.taint or b.taint
        ls, rs = self.libset(l), self.libset(r)
        if op in UOPS:
            if ls != rs:
                self.notes.add("uop-mixed")
            out = []
            for x, y in zip(av, bv):
                if x is None or y is None:
                    out.append(x if y is None else y)
                elif op == "UADD":
                    out.append(self.fin(x + y))
                elif op == "UMUL":
                    out.append(self.fin(x * y))
                elif op == "UMIN":
                    out.append(min(x, y))
                else:
                    out.append(max(x, y))
            return Val(kind, out, taint)
        # arithmetic and comparisons: undefined in either operand -> undefined
        if ls != rs:
            # a scalar is promoted to the other operand's set
            sc = a if not ls else b
            if sc.kind == "S" and sc.v[0] is None and op != "^":
                self.hazards.add("undefined-scalar-broadcast-throws")
        if op == "^":
            if ls != rs:
                self.hazards.add("pow-scalar-set")
            if any(x is not None and y is None for x, y in zip(av, bv)):
                self.hazards.add("pow-undefined-rhs")
        out = []
        for x, y in zip(av, bv):
            if x is None or y is None:
                out.append(None)
                continue
            if op == "+":
                v = x + y
            elif op == "-":
                v = x - y
            elif op == "*":
                v = x * y
            elif op == "/":
                if y == 0:
                    raise Discard("division by zero")
                v = x / y
            elif op == "^":
                try:
                    v = math.pow(x, y)
                except (ValueError, OverflowError, ZeroDivisionError):
                    raise Discard("pow domain")
                if not (float(y).is_integer() and float(x).is_integer() and abs(v) < 2 ** 50):
                    taint = True
            else:
                v = self.cmp(op, x, y, taint)
            out.append(self.fin(v))
        return Val(kind, out, taint and op not in CMP)

    def cmp(self, op, x, y, taint):
        scale = max(abs(x), abs(y))
        d = abs(x - y)
        near = d <= NEAR * scale
        if op in ("<", ">"):
            # strict comparisons: a tie that is decided by rounding noise is not a statement about the library
            if near and (d != 0 or taint):
                raise Discard("strict comparison of values equal up to rounding")
            return 1.0 if ((x < y) if op == "<" else (x > y)) else 0.0
        if not near and d < FAR * scale:
            raise Discard("comparison inside the epsilon band")
        if not near:
            if x == 0:
                self.hazards.add("cmp-eps-zero-lhs-throws")
            elif x < 0 and op in ("<=", ">="):
                self.hazards.add("cmp-eps-negative-lhs")
        if op == "==":
            return 1.0 if near else 0.0
        if op == "!=":
            return 0.0 if near else 1.0
        if op == "<=":
            return 1.0 if (near or x < y) else 0.0
        if op == ">=":
            return 1.0 if (near or x > y) else 0.0
        raise GenBug(op)

    def result(self, ast):
        """expected value of DEFINE <target> <ast>: {'kind', 'names', 'vals'}"""
        v = self.ev(ast)
        if self.tk == "F":
            if v.kind != "S":
                raise GenBug("set-valued expression for a field quantity")
            return {"kind": "F", "names": [""], "vals": [v.v[0]]}
        uni = self.universe(self.tk)
        if v.kind == "S":
            return {"kind": self.tk, "names": list(uni), "vals": [v.v[0]] * len(uni)}
        if v.kind != self.tk:
            raise GenBug("wrong set kind")
        return {"kind": self.tk, "names": list(uni), "vals": list(v.v)}


# ------------------------------------------------------------------ rendering (AST -> UDQ tokens)
def node_rank(n):
    return RANK[n[1]] if n[0] == "bin" else 9


def render(n, out):
    t = n[0]
    if t == "num":
        out.append(n[1])
    elif t == "var":
        out.append(n[1])
        if n[2] is not None:
            q = n[3] if len(n) > 3 else True
            out.append("'%s'" % n[2] if (q or "*" in n[2]) else n[2])
    elif t == "par":
        out.append("(")
        render(n[1], out)
        out.append(")")
    elif t == "neg":
        out.append("-")
        c = n[1]
        if c[0] in ("bin", "neg"):
            out.append("(")
            render(c, out)
            out.append(")")
        else:
            render(c, out)
    elif t == "fn":
        out.append(n[1])
        out.append("(")
        render(n[2], out)
        out.append(")")
    elif t == "bin":
        op, l, r = n[1], n[2], n[3]
        rk = RANK[op]
        left_assoc = op in ("+", "-", "*", "/")
        # left operand: parentheses when it binds weaker; for the operators whose associativity the
        # statement does not give (^, comparisons, union operators) also when it has the same rank
        lp = node_rank(l) < rk or (node_rank(l) == rk and not left_assoc)
        rp = node_rank(r) <= rk
        if op == "^" and l[0] == "neg":
            lp = True           # rank of unary minus against ^ is not stated: always parenthesised
        for c, p in ((l, lp), (None, None), (r, rp)):
            if c is None:
                out.append(op)
                continue
            if p:
                out.append("(")
            render(c, out)
            if p:
                out.append(")")
    else:
        raise GenBug(t)
    return out


def pow_then_mul(tokens):
    """shape of known finding 'pow-mul-precedence': the right operand of ^ is directly followed by * or /"""
    i = 0
    n = len(tokens)
    while i < n:
        if tokens[i] == "^":
            j = i + 1
            if j < n and tokens[j] == "-":
                j += 1
            # skip one factor
            if j < n and tokens[j] in REDUCE + ELEM_ANY + ELEM_SET:
                j += 1
            if j < n and tokens[j] == "(":
                depth = 0
                while j < n:
                    if tokens[j] == "(":
                        depth += 1
                    elif tokens[j] == ")":
                        depth -= 1
                        if depth == 0:
                            break
                    j += 1
                j += 1
            else:
                j += 1
                while j < n and tokens[j].startswith("'") or (j < n and tokens[j] in WELL_POOL + GROUP_POOL):
                    j += 1
            if j < n and tokens[j] in ("*", "/"):
                return True
        i += 1
    return False


def is_alnum_tok(t):
    return t[0].isalnum() or t[0] == "'"


def to_deck_data(tokens, style):
    """how the token sequence is cut into DATA items (the library re-tokenises them)"""
    if style == 0:
        return list(tokens)
    if style == 1:
        return [" ".join(tokens)]
    # style 2: glue operators and parentheses to their neighbours, blank only where two words meet
    s = ""
    prev = None
    for t in tokens:
        if prev is not None and (is_alnum_tok(prev) and is_alnum_tok(t)):
            s += " "
        elif prev is not None and (t in UOPS or prev in UOPS):
            s += " "
        s += t
        prev = t
    items = []
    cur = ""
    inq = False
    for ch in s:
        if ch == "'":
            inq = not inq
        if ch == " " and not inq:
            if cur:
                items.append(cur)
            cur = ""
        else:
            cur += ch
    if cur:
        items.append(cur)
    return items


# ------------------------------------------------------------------ generator, part A
def vals():
    return st.one_of(st.integers(1, 240).map(lambda k: k / 4.0),
                     st.integers(1, 240).map(lambda k: k / 4.0),
                     st.integers(1, 240).map(lambda k: k / 4.0),
                     st.integers(1, 240).map(lambda k: k / 4.0),
                     st.sampled_from([0.0, -0.5, -2.0, -7.25, 1.0, 2.0]))


class G:
    """recursive generator of typed expressions; `shape` 'S' scalar, 'W'/'G' set"""

    def __init__(self, draw, env):
        self.draw = draw
        self.env = env
        self.budget = 14

    def pick(self, options):
        """options: list of (weight, name); first = simplest (Hypothesis shrinks towards it)"""
        names = []
        for w, nme in options:
            names += [nme] * w
        return self.draw(st.sampled_from(names))

    def num(self):
        return ["num", self.draw(st.sampled_from(NUMBERS))]

    def setvar(self, kind):
        e = self.env
        names = (WVARS + e["wudq"]) if kind == "W" else (GVARS + e["gudq"])
        name = self.draw(st.sampled_from(names))
        if kind == "W" and self.draw(st.integers(0, 3)) == 0:
            return ["var", name, self.draw(st.sampled_from(WELL_PATTERNS))]
        return ["var", name, None]

    def scalar_atom(self):
        e = self.env
        c = self.pick([(3, "num"), (3, "f"), (2, "one")])
        if c == "num":
            return self.num()
        if c == "f":
            return ["var", self.draw(st.sampled_from(FVARS + e["fudq"])), None]
        if e["groups"] and self.draw(st.integers(0, 2)) == 0:
            name = self.draw(st.sampled_from(GVARS + e["gudq"]))
            who = self.draw(st.sampled_from(e["groups"]))
        else:
            name = self.draw(st.sampled_from(WVARS + e["wudq"]))
            who = self.draw(st.sampled_from(e["wells"]))
        return ["var", name, who, self.draw(st.booleans())]

    def gen(self, shape, depth, pos=False):
        self.budget -= 1
        if depth <= 0 or self.budget <= 0:
            return self.scalar_atom() if shape == "S" else self.setvar(shape)
        if shape == "S":
            opts = [(3, "atom"), (3, "reduce"), (5, "arith"), (1, "elem")]
            if not pos:
                opts += [(2, "cmp"), (1, "neg"), (1, "par")]
        else:
            opts = [(3, "atom"), (6, "arith"), (3, "elem")]
            if not pos:
                opts += [(3, "cmp"), (2, "uop"), (1, "neg"), (1, "par")]
        c = self.pick(opts)
        if c == "atom":
            return self.scalar_atom() if shape == "S" else self.setvar(shape)
        if c == "par":
            return ["par", self.gen(shape, depth - 1, pos)]
        if c == "neg":
            return ["neg", self.gen(shape, depth - 1, pos)]
        if c == "reduce":
            f = self.draw(st.sampled_from(REDUCE))
            tk = self.env["tk"]
            kind = tk if tk in "WG" else self.draw(st.sampled_from(["W", "W", "G"] if self.env["groups"] else ["W"]))
            return ["fn", f, self.gen(kind, depth - 1, pos or f in ("AVEG", "AVEH"))]
        if c == "elem":
            if shape == "S" or self.draw(st.booleans()):
                f = self.draw(st.sampled_from(ELEM_ANY))
            else:
                f = self.draw(st.sampled_from(ELEM_SET + ["SORTA", "SORTD", "DEF", "IDV"]))
            if f == "EXP":
                return ["fn", f, ["bin", "/", self.gen(shape, depth - 1, pos), ["num", "20"]]]
            return ["fn", f, self.gen(shape, depth - 1, pos or f in ("LN", "LOG"))]
        if c == "uop":
            op = self.draw(st.sampled_from(UOPS))
            k = self.draw(st.integers(0, 9))
            l = self.gen(shape, depth - 1)
            if k <= 6:
                r = self.gen(shape, depth - 1)
            elif k <= 8:
                r = self.num()
            else:
                r = self.gen("S", depth - 1)
            return ["bin", op, l, r]
        # arith / cmp
        if c == "cmp":
            op = self.draw(st.sampled_from(CMP))
        elif pos:
            op = self.draw(st.sampled_from(["+", "*", "/", "+", "*"]))
        else:
            op = self.draw(st.sampled_from(["+", "-", "*", "/", "^", "+", "-", "*", "/"]))
        if shape == "S":
            ls, rs = "S", "S"
        else:
            ls, rs = self.draw(st.sampled_from([(shape, shape), (shape, "S"), ("S", shape), (shape, "S")]))
        l = self.gen(ls, depth - 1, pos)
        if op == "^" and self.draw(st.integers(0, 9)) < 7:
            r = ["num", self.draw(st.sampled_from(POW_EXPONENTS))]
            if self.draw(st.integers(0, 5)) == 0:
                r = ["neg", r]
            if rs != "S" and ls == "S":
                l = self.gen(shape, depth - 1, pos)
        else:
            r = self.gen(rs, depth - 1, pos)
        return ["bin", op, l, r]


@st.composite
def expr_case(draw):
    nw = draw(st.integers(1, 6))
    wells = draw(st.permutations(WELL_POOL))[:nw]
    ng = draw(st.integers(1, 3))
    groups = sorted(draw(st.permutations(GROUP_POOL))[:ng])
    tk = draw(st.sampled_from(["W", "W", "W", "G", "F", "F"]))

    def table(names, force_all):
        """values for a subset of names (at least one, so that the vector exists)"""
        keep = [n for n in names if force_all or draw(st.integers(0, 3)) != 0]
        if not keep:
            keep = [names[draw(st.integers(0, len(names) - 1))]]
        return [[n, draw(vals())] for n in keep]

    all_def = draw(st.integers(0, 4)) == 0
    field = [[k, draw(vals())] for k in FVARS]
    wvars = [[v, table(wells, all_def)] for v in WVARS]
    # every group exists in the summary state through GOPR
    gvars = [["GOPR", table(groups, True)], ["GWPR", table(groups, all_def)]]
    udqs = []
    for nme in WUDQ:
        udqs.append([nme, "W", [[w, draw(vals())] for w in wells if draw(st.integers(0, 2)) != 0]])
    for nme in GUDQ:
        udqs.append([nme, "G", [[g, draw(vals())] for g in groups if draw(st.integers(0, 2)) != 0]])
    for nme in FUDQ:
        udqs.append([nme, "F", draw(vals()) if draw(st.integers(0, 5)) != 0 else None])
    env = {"tk": tk, "wells": wells, "groups": groups, "wudq": WUDQ, "gudq": GUDQ, "fudq": FUDQ}
    g = G(draw, env)
    depth = draw(st.integers(1, 5))
    if tk == "F":
        shape = "S"
    else:
        shape = draw(st.sampled_from([tk, tk, tk, "S"]))
    ast = g.gen(shape, depth)
    return {"part": "A", "wells": wells, "target": tk + "U_X", "field": field, "wvars": wvars, "gvars": gvars,
            "udqs": udqs, "ast": ast, "style": draw(st.integers(0, 2))}


# ------------------------------------------------------------------ the check
KNOWN_ORDER = ["pow-mul-precedence", "pow-scalar-set", "pow-undefined-rhs", "cmp-eps-zero-lhs-throws",
               "cmp-eps-negative-lhs", "undef-function-throws", "undefined-scalar-broadcast-throws",
               "empty-reduction-throws"]


def close(exp, got, scale):
    # rel 1e-12: both sides perform the same IEEE operations; only libm calls and the summation order inside
    # reductions may differ by a few ulp (2^-52 ~ 2.2e-16 each) and can be amplified by cancellation against
    # the largest intermediate value `scale` of the evaluation
    return abs(exp - got) <= 1e-12 * max(abs(exp), scale) + 1e-300


class C17(Check):
    ID = "C17"
    PROBE_GROUP = "udq"
    RULE = ("Part A: random typed expression trees (depth <= 5, <= 14 nodes) over numbers, field / well / group "
            "summary vectors (no selector, single name, wildcard pattern), earlier UDQs, + - * / ^, the six "
            "comparisons, UADD/UMUL/UMIN/UMAX, unary minus, parentheses, 10 reductions and 10 elemental functions; "
            "rendered with the minimal parentheses the documented precedence requires (plus random redundant ones) "
            "and cut into DATA items in three ways; evaluated on a random summary state over 1..6 wells and 1..3 "
            "groups with random undefined entries, for field, well and group targets. Non-trivial: >= 3 binary "
            "operators of >= 2 different ranks, or a set operand with an undefined element combined with a scalar. "
            "Distinct by operator/function skeleton + target type + operand kinds.")
    ASSUMPTIONS = []
    EXAMPLES = {"quick": 1500, "thorough": 40000}
    MIN_EVALS = {"quick": 12000, "thorough": 300000}
    TIME_CAP = {"quick": 150, "thorough": 1000}
    LEVEL_TEXT = ""
    LEVEL_NOTE = ""
    TECHNIQUE = "property-based testing (Hypothesis) against a reference evaluator"

    def strategy(self, tier):
        return expr_case()

    # ------------------------------------------------------------ classification
    def tokens(self, case):
        return render(case["ast"], [])

    def classify(self, case):
        toks = self.tokens(case)
        ops = [t for t in toks if t in RANK]
        # unary minus is rendered as "-" too: count binary operators from the tree instead
        nbin, ranks, fns = [0], set(), set()

        def walk(n):
            if n[0] == "bin":
                nbin[0] += 1
                ranks.add(RANK[n[1]])
                walk(n[2])
                walk(n[3])
            elif n[0] in ("neg", "par"):
                walk(n[1])
            elif n[0] == "fn":
                fns.add(n[1])
                walk(n[2])
        walk(case["ast"])
        labels = ["A", "target:" + case["target"][0], "style:%d" % case["style"]]
        for o in set(ops):
            labels.append("op:" + o)
        for f in fns:
            labels.append("fn:" + f)
        ref = Ref(case)
        undef_scalar_mix = False
        try:
            res = ref.result(case["ast"])
            if any(v is None for v in res["vals"]):
                labels.append("result-has-undefined")
            if any(v is not None for v in res["vals"]):
                labels.append("result-has-defined")
            undef_scalar_mix = self.undef_with_scalar(ref, case["ast"])
        except Discard:
            pass
        except Exception:
            labels.append("classify-ref-error")
        if undef_scalar_mix:
            labels.append("undefined-element-with-scalar")
        for h in ref.hazards:
            labels.append("known-shape:" + h)
        if pow_then_mul(toks):
            labels.append("known-shape:pow-mul-precedence")
        nontriv = (nbin[0] >= 3 and len(ranks) >= 2) or undef_scalar_mix
        if nontriv:
            labels.append("nontrivial")
        skel = []
        for t in toks:
            if t in RANK or t in "()" or t in REDUCE or t in ELEM_ANY or t in ELEM_SET:
                skel.append(t)
            elif t[0].isdigit():
                skel.append("n")
            elif t.startswith("'") or t in WELL_POOL or t in GROUP_POOL:
                skel.append("*" if "*" in t else "1")
            else:
                skel.append(t[0] + ("U" if t[1] == "U" else ""))
        return nontriv, sha([case["target"][0], skel], 16), labels

    def undef_with_scalar(self, ref, ast):
        """some arithmetic/comparison node combines a set that has an undefined element with a scalar"""
        found = [False]

        def walk(n):
            if n[0] == "bin":
                if n[1] not in UOPS:
                    try:
                        a, b = Ref.ev(ref, n[2]), Ref.ev(ref, n[3])
                        for s, o in ((a, b), (b, a)):
                            if s.kind != "S" and o.kind == "S" and any(x is None for x in s.v):
                                found[0] = True
                    except Discard:
                        pass
                walk(n[2])
                walk(n[3])
            elif n[0] in ("neg", "par"):
                walk(n[1])
            elif n[0] == "fn":
                walk(n[2])
        walk(ast)
        return found[0]

    def sample_view(self, case):
        return {"target": case["target"], "expr": " ".join(self.tokens(case)), "wells": case["wells"],
                "style": case["style"]}

    # ------------------------------------------------------------ oracle
    def check(self, case, ctx):
        if case.get("part") == "A":
            return self.check_expr(case, ctx)
        raise Discard("unknown part")

    def check_expr(self, case, ctx):
        toks = self.tokens(case)
        ref = Ref(case)
        exp = ref.result(case["ast"])          # may raise Discard (outside the domain)
        hazards = set(ref.hazards)
        if pow_then_mul(toks):
            hazards.add("pow-mul-precedence")
        key = next((k for k in KNOWN_ORDER if k in hazards), None)
        data = to_deck_data(toks, case["style"])
        expr = " ".join(toks)
        try:
            r = ctx.P.call("udq_eval", wells=case["wells"], field=case["field"], wvars=case["wvars"],
                           gvars=case["gvars"], udqs=case["udqs"], name=case["target"], tokens=data)
        except LibError as e:
            if key is None and "uop-mixed" in ref.notes:
                # union operator between a scalar and a set: the statement does not say that it broadcasts
                ctx.label("accepted-exception:uop-scalar-set")
                return None
            return {"rule": "library throws on an expression that the documented grammar and semantics cover",
                    "detail": {"expr": expr, "data": data, "exception": str(e)[:300], "expected": exp,
                               "known_shapes": sorted(hazards)},
                    "key": key}
        got_names = [e[0] for e in r["elems"]]
        got = {e[0]: (hexf(e[2]) if e[1] else None) for e in r["elems"]}
        if sorted(got_names) != sorted(exp["names"]):
            return {"rule": "result set has the wrong elements",
                    "detail": {"expr": expr, "got": got_names, "expected": exp["names"]}, "key": key}
        for nme, ev in zip(exp["names"], exp["vals"]):
            gv = got[nme]
            ok = (ev is None and gv is None) or (ev is not None and gv is not None and close(ev, gv, ref.maxabs))
            if not ok:
                return {"rule": "value differs from the documented semantics (precedence / element-wise evaluation "
                                "/ broadcasting / undefined propagation / function definition)",
                        "detail": {"expr": expr, "data": data, "element": nme, "expected": ev, "got": gv,
                                   "all_expected": dict(zip(exp["names"], exp["vals"])), "all_got": got,
                                   "known_shapes": sorted(hazards)},
                        "key": key}
        return None
