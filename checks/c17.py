"""C17 - UDQ expressions evaluate according to the documented expression semantics.

Part A: generated UDQ expressions (token sequences of the UDQ grammar) are evaluated by
        UDQDefine(...).eval(context) on a generated summary state and compared with a reference
        evaluator written from the property statement (precedence, element-wise evaluation with
        scalar broadcasting, propagation of undefined, definitions of the functions).
Part B: generated ASSIGN / DEFINE / UPDATE histories over report steps are pushed through
        deck text -> Parser -> Schedule -> UDQConfig(step).eval(...) and compared with a
        reference state machine.
"""
import json
import math

from hypothesis import strategies as st

from vlib.runner import Check, Discard, sha
from vlib.probe import LibError, hexf

# ------------------------------------------------------------------ vocabulary
WELL_POOL = ["P1", "P2", "P3", "PA1", "PB2", "I1", "I2", "OP1"]
WELL_PATTERNS = ["P*", "I*", "PA*", "O*", "P1*", "*", "P*", "I*", "X*"]
GROUP_POOL = ["G1", "G2", "GA"]
WVARS = ["WOPR", "WWPR", "WGPR", "WBHP"]
GVARS = ["GOPR", "GWPR"]
FVARS = ["FOPR", "FWPR", "FGPR"]
WUDQ = ["WU_A", "WU_B"]
GUDQ = ["GU_A"]
FUDQ = ["FU_A", "FU_B"]
NUMBERS = ["2", "3", "0.5", "10", "1.5", "0.25", "7", "4", "2.5E-1", "1E+1", "100", "0.1", "1", "12.75"]
POW_EXPONENTS = ["2", "3", "0.5", "2.0", "1.5", "1"]

REDUCE = ["SUM", "AVEA", "AVEG", "AVEH", "MAX", "MIN", "NORM1", "NORM2", "NORMI", "PROD"]
ELEM_ANY = ["ABS", "EXP", "LN", "LOG", "NINT"]           # meaningful on scalars and on sets
ELEM_SET = ["DEF", "IDV", "SORTA", "SORTD", "UNDEF"]     # only generated on set-valued arguments
ARITH = ["+", "-", "*", "/", "^"]
CMP = ["==", "!=", "<", ">", "<=", ">="]
UOPS = ["UADD", "UMUL", "UMIN", "UMAX"]

# rank of an operator in the documented order (higher binds tighter):
#   ( ) and functions first, then ^, then * /, then + -, then comparisons, then the union operators
RANK = {"^": 4, "*": 3, "/": 3, "+": 2, "-": 2}
for _o in CMP:
    RANK[_o] = 1
for _o in UOPS:
    RANK[_o] = 0

CMP_EPS = 1.0e-4        # UDQPARAM item 4 default (documented)
# Values are "equal" for the eps-comparisons when they agree to 1e-9 relative (far inside the documented
# epsilon) and "different" when they differ by more than 1e-2 relative (far outside); anything in between
# would hinge on how exactly the epsilon is applied, which the statement does not define -> Discard.
NEAR = 1.0e-9
FAR = 1.0e-2
MAXABS = 1.0e15         # "no intermediate overflows": larger intermediates -> Discard


# ------------------------------------------------------------------ reference evaluator
class Val:
    """kind 'S' (scalar, one element) or 'W'/'G' (one element per well/group); elements float|None"""
    __slots__ = ("kind", "v", "taint")

    def __init__(self, kind, v, taint=False):
        self.kind = kind
        self.v = v
        self.taint = taint      # value went through libm / a reduction: last-ulp differences possible


class GenBug(Exception):
    pass


class Ref:
    def __init__(self, case):
        self.wells = list(case["wells"])
        self.field = {k: v for k, v in case["field"]}
        self.wv = {var: dict(lst) for var, lst in case["wvars"]}
        self.gv = {var: dict(lst) for var, lst in case["gvars"]}
        gs = set()
        for var in self.gv:
            gs.update(self.gv[var].keys())
        self.groups = sorted(gs)          # the groups known to the summary state
        self.udq = {}
        for name, kind, data in case.get("udqs", []):
            self.udq[name] = data if kind == "F" else dict(data)
        self.tk = case["target"][0]       # F / W / G
        # shapes of findings this check has reported (all but the listed KNOWN_KEYS are fixed in /repo by now):
        # used for the evidence histogram and, for keys still listed as known, to attribute a mismatch
        self.hazards = set()
        self.notes = set()
        self.maxabs = 0.0

    # -------------------------------------------------------------- helpers
    def universe(self, kind):
        return self.wells if kind == "W" else self.groups

    def fin(self, x):
        if x is None:
            return None
        if isinstance(x, bool):
            x = 1.0 if x else 0.0
        if math.isnan(x) or math.isinf(x) or abs(x) > MAXABS:
            raise Discard("non-finite or huge intermediate")
        self.maxabs = max(self.maxabs, abs(x))
        return float(x)

    def bcast(self, a, b):
        """-> (kind, list_a, list_b) after scalar broadcasting"""
        if a.kind == b.kind:
            return a.kind, a.v, b.v
        if a.kind == "S":
            return b.kind, [a.v[0]] * len(b.v), b.v
        if b.kind == "S":
            return a.kind, a.v, [b.v[0]] * len(a.v)
        raise GenBug("well set combined with group set")

    # what the library's type system sees as a set (numbers are full sets when the target is W/G);
    # used ONLY to attribute a mismatch to a known finding or to an un-asserted shape, never for values
    def libset(self, n):
        t = n[0]
        if t == "num":
            return self.tk in "WG"
        if t == "var":
            return n[1][0] != "F" and (n[2] is None or "*" in n[2])
        if t in ("neg", "par"):
            return self.libset(n[1])
        if t == "fn":
            return False if n[1] in REDUCE else self.libset(n[2])
        if t == "bin":
            if n[1] in UOPS:
                return self.libset(n[2])
            return self.libset(n[2]) or self.libset(n[3])      # the scalar side is promoted (also for ^)
        raise GenBug(t)

    # -------------------------------------------------------------- evaluation
    def ev(self, n):
        t = n[0]
        if t == "num":
            return Val("S", [self.fin(float(n[1]))])
        if t == "var":
            return self.ev_var(n[1], n[2])
        if t == "par":
            return self.ev(n[1])
        if t == "neg":
            a = self.ev(n[1])
            return Val(a.kind, [None if x is None else -x for x in a.v], a.taint)
        if t == "fn":
            return self.ev_fn(n[1], n[2])
        if t == "bin":
            return self.ev_bin(n)
        raise GenBug(t)

    def ev_var(self, name, sel):
        k = name[0]
        if k == "F":
            if name in self.udq:
                return Val("S", [self.udq[name]])
            return Val("S", [self.field[name]])
        table = self.udq[name] if name in self.udq else (self.wv if k == "W" else self.gv)[name]
        uni = self.universe(k)
        if sel is None:
            return Val(k, [table.get(x) for x in uni])
        if "*" in sel:
            if k != "W":
                raise GenBug("group pattern")
            pre = sel[:-1]
            return Val(k, [table.get(x) if x.startswith(pre) else None for x in uni])
        return Val("S", [table.get(sel)])

    def ev_fn(self, f, arg):
        a = self.ev(arg)
        if f in REDUCE:
            if a.kind == "S":
                raise GenBug("reduction of a scalar is not generated")
            d = [x for x in a.v if x is not None]
            if not d:
                # The statement does not define the value of a reduction over no defined element: the
                # reference continues with "undefined", the oracle accepts a refusal (exception) and does not
                # assert values that were computed from it.
                self.notes.add("empty-reduction")
                return Val("S", [None])
            if f == "SUM":
                r = math.fsum(d)
            elif f == "AVEA":
                r = math.fsum(d) / len(d)
            elif f == "AVEG":
                if min(d) <= 0:
                    raise Discard("AVEG of non-positive")
                r = math.exp(math.fsum(math.log(x) for x in d) / len(d))
            elif f == "AVEH":
                if min(d) <= 0:
                    raise Discard("AVEH of non-positive")
                r = len(d) / math.fsum(1.0 / x for x in d)
            elif f == "MAX":
                r = max(d)
            elif f == "MIN":
                r = min(d)
            elif f == "NORM1":
                r = math.fsum(abs(x) for x in d)
            elif f == "NORM2":
                r = math.sqrt(math.fsum(x * x for x in d))
            elif f == "NORMI":
                r = max(abs(x) for x in d)
            elif f == "PROD":
                r = 1.0
                for x in d:
                    r = self.fin(r * x)
            taint = a.taint or f not in ("MAX", "MIN", "NORMI")
            return Val("S", [self.fin(r)], taint)
        # elemental functions
        out = []
        taint = a.taint
        if f in ("SORTA", "SORTD"):
            d = sorted(x for x in a.v if x is not None)
            for i in range(1, len(d)):
                if abs(d[i] - d[i - 1]) <= NEAR * max(abs(d[i]), abs(d[i - 1])):
                    raise Discard("ties in SORTA/SORTD: ranking among equal values is not defined")
            if f == "SORTD":
                d.reverse()
            rank = {x: float(i + 1) for i, x in enumerate(d)}
            return Val(a.kind, [None if x is None else rank[x] for x in a.v])
        if f == "UNDEF":
            self.hazards.add("undef-function-throws")
        for x in a.v:
            if f == "IDV":
                out.append(0.0 if x is None else 1.0)
            elif f == "UNDEF":
                out.append(1.0 if x is None else None)
            elif x is None:
                out.append(None)
            elif f == "DEF":
                out.append(1.0)
            elif f == "ABS":
                out.append(abs(x))
            elif f == "EXP":
                try:
                    out.append(self.fin(math.exp(x)))
                except OverflowError:
                    raise Discard("overflow")
                taint = True
            elif f in ("LN", "LOG"):
                if x <= 0:
                    raise Discard("LN/LOG of non-positive")
                out.append(self.fin(math.log(x) if f == "LN" else math.log10(x)))
                taint = True
            elif f == "NINT":
                fl = math.floor(x)
                fr = x - fl
                if abs(fr - 0.5) <= 1e-9:
                    raise Discard("NINT of a half-integer: rounding direction not stated")
                out.append(fl + (1.0 if fr > 0.5 else 0.0))
            else:
                raise GenBug(f)
        return Val(a.kind, out, taint)

    def ev_bin(self, n):
        op, l, r = n[1], n[2], n[3]
        a = self.ev(l)
        b = self.ev(r)
        kind, av, bv = self.bcast(a, b)
        taint = a.taint or b.taint
        ls, rs = self.libset(l), self.libset(r)
        if op in UOPS:
            if ls != rs:
                self.notes.add("uop-mixed")
            out = []
            for x, y in zip(av, bv):
                if x is None or y is None:
                    out.append(x if y is None else y)
                elif op == "UADD":
                    out.append(self.fin(x + y))
                elif op == "UMUL":
                    out.append(self.fin(x * y))
                elif op == "UMIN":
                    out.append(min(x, y))
                else:
                    out.append(max(x, y))
            return Val(kind, out, taint)
        # arithmetic and comparisons: undefined in either operand -> undefined
        if ls != rs:
            # a scalar is promoted to the other operand's set
            sc = a if not ls else b
            if sc.kind == "S" and sc.v[0] is None and op != "^":
                self.hazards.add("undefined-scalar-broadcast-throws")
        if op == "^":
            if ls != rs:
                self.hazards.add("pow-scalar-set")
            if any(x is not None and y is None for x, y in zip(av, bv)):
                self.hazards.add("pow-undefined-rhs")
        out = []
        for x, y in zip(av, bv):
            if x is None or y is None:
                out.append(None)
                continue
            if op == "+":
                v = x + y
            elif op == "-":
                v = x - y
            elif op == "*":
                v = x * y
            elif op == "/":
                if y == 0:
                    raise Discard("division by zero")
                v = x / y
            elif op == "^":
                try:
                    v = math.pow(x, y)
                except (ValueError, OverflowError, ZeroDivisionError):
                    raise Discard("pow domain")
                if not (float(y).is_integer() and float(x).is_integer() and abs(v) < 2 ** 50):
                    taint = True
            else:
                v = self.cmp(op, x, y, taint)
            out.append(self.fin(v))
        return Val(kind, out, taint and op not in CMP)

    def cmp(self, op, x, y, taint):
        scale = max(abs(x), abs(y))
        d = abs(x - y)
        near = d <= NEAR * scale
        if op in ("<", ">"):
            # strict comparisons: a tie that is decided by rounding noise is not a statement about the library
            if near and (d != 0 or taint):
                raise Discard("strict comparison of values equal up to rounding")
            return 1.0 if ((x < y) if op == "<" else (x > y)) else 0.0
        if not near and d < FAR * scale:
            raise Discard("comparison inside the epsilon band")
        if not near:
            if x == 0:
                self.hazards.add("cmp-eps-zero-lhs-throws")
            elif x < 0 and op in ("<=", ">="):
                self.hazards.add("cmp-eps-negative-lhs")
        if op == "==":
            return 1.0 if near else 0.0
        if op == "!=":
            return 0.0 if near else 1.0
        if op == "<=":
            return 1.0 if (near or x < y) else 0.0
        if op == ">=":
            return 1.0 if (near or x > y) else 0.0
        raise GenBug(op)

    def result(self, ast):
        """expected value of DEFINE <target> <ast>: {'kind', 'names', 'vals'}"""
        v = self.ev(ast)
        if self.tk == "F":
            if v.kind != "S":
                raise GenBug("set-valued expression for a field quantity")
            return {"kind": "F", "names": [""], "vals": [v.v[0]]}
        uni = self.universe(self.tk)
        if v.kind == "S":
            return {"kind": self.tk, "names": list(uni), "vals": [v.v[0]] * len(uni)}
        if v.kind != self.tk:
            raise GenBug("wrong set kind")
        return {"kind": self.tk, "names": list(uni), "vals": list(v.v)}


# ------------------------------------------------------------------ rendering (AST -> UDQ tokens)
def node_rank(n):
    return RANK[n[1]] if n[0] == "bin" else 9


def render(n, out):
    t = n[0]
    if t == "num":
        out.append(n[1])
    elif t == "var":
        out.append(n[1])
        if n[2] is not None:
            q = n[3] if len(n) > 3 else True
            out.append("'%s'" % n[2] if (q or "*" in n[2]) else n[2])
    elif t == "par":
        out.append("(")
        render(n[1], out)
        out.append(")")
    elif t == "neg":
        out.append("-")
        c = n[1]
        if c[0] in ("bin", "neg"):
            out.append("(")
            render(c, out)
            out.append(")")
        else:
            render(c, out)
    elif t == "fn":
        out.append(n[1])
        out.append("(")
        render(n[2], out)
        out.append(")")
    elif t == "bin":
        op, l, r = n[1], n[2], n[3]
        rk = RANK[op]
        left_assoc = op in ("+", "-", "*", "/")
        # left operand: parentheses when it binds weaker; for the operators whose associativity the
        # statement does not give (^, comparisons, union operators) also when it has the same rank
        lp = node_rank(l) < rk or (node_rank(l) == rk and not left_assoc)
        rp = node_rank(r) <= rk
        if op == "^" and l[0] == "neg":
            lp = True           # rank of unary minus against ^ is not stated: always parenthesised
        for c, p in ((l, lp), (None, None), (r, rp)):
            if c is None:
                out.append(op)
                continue
            if p:
                out.append("(")
            render(c, out)
            if p:
                out.append(")")
    else:
        raise GenBug(t)
    return out


def pow_then_mul(tokens):
    """shape of known finding 'pow-mul-precedence': the right operand of ^ is directly followed by * or /"""
    i = 0
    n = len(tokens)
    while i < n:
        if tokens[i] == "^":
            j = i + 1
            if j < n and tokens[j] == "-":
                j += 1
            # skip one factor
            if j < n and tokens[j] in REDUCE + ELEM_ANY + ELEM_SET:
                j += 1
            if j < n and tokens[j] == "(":
                depth = 0
                while j < n:
                    if tokens[j] == "(":
                        depth += 1
                    elif tokens[j] == ")":
                        depth -= 1
                        if depth == 0:
                            break
                    j += 1
                j += 1
            else:
                j += 1
                while j < n and (tokens[j].startswith("'") or tokens[j] in WELL_POOL + GROUP_POOL):
                    j += 1              # selector of the variable
            if j < n and tokens[j] in ("*", "/"):
                return True
        i += 1
    return False


def is_alnum_tok(t):
    return t[0].isalnum() or t[0] == "'"


def to_deck_data(tokens, style):
    """how the token sequence is cut into DATA items (the library re-tokenises them)"""
    if style == 0:
        return list(tokens)
    if style == 1:
        return [" ".join(tokens)]
    # style 2: glue operators and parentheses to their neighbours, blank only where two words meet
    s = ""
    prev = None
    for t in tokens:
        if prev is not None and (is_alnum_tok(prev) and is_alnum_tok(t)):
            s += " "
        elif prev is not None and (t in UOPS or prev in UOPS):
            s += " "
        s += t
        prev = t
    items = []
    cur = ""
    inq = False
    for ch in s:
        if ch == "'":
            inq = not inq
        if ch == " " and not inq:
            if cur:
                items.append(cur)
            cur = ""
        else:
            cur += ch
    if cur:
        items.append(cur)
    return items


# ------------------------------------------------------------------ generator, part A
class Src:
    """Entropy source: all randomness is one Hypothesis-drawn byte string (st.binary), decoded
    deterministically.  (A composite strategy with ~100 separate draws per case costs 20 ms per case; one
    binary draw costs 0.3 ms.)  Zero bytes select the first = simplest alternative, so Hypothesis' byte
    shrinking still simplifies cases."""

    def __init__(self, data):
        self.d = data
        self.i = 0

    def byte(self):
        if self.i < len(self.d):
            b = self.d[self.i]
            self.i += 1
            return b
        return 0

    def int(self, lo, hi):
        n = hi - lo + 1
        if n <= 256:
            return lo + self.byte() % n
        return lo + (self.byte() * 256 + self.byte()) % n

    def bool(self):
        return self.byte() & 1 == 1

    def choice(self, seq):
        return seq[self.int(0, len(seq) - 1)]

    def perm(self, seq):
        seq = list(seq)
        for i in range(len(seq) - 1):
            j = self.int(i, len(seq) - 1)
            seq[i], seq[j] = seq[j], seq[i]
        return seq

    def val(self):
        """a summary value: mostly positive multiples of 1/4 (exact in binary, comparisons either exactly
        equal or far apart), sometimes 0 / negative / small integers"""
        if self.int(0, 9) == 0:
            return self.choice([0.0, -0.5, -2.0, -7.25, 1.0, 2.0])
        return self.int(1, 240) / 4.0


class G:
    """recursive generator of typed expressions; `shape` 'S' scalar, 'W'/'G' set"""

    def __init__(self, src, env):
        self.src = src
        self.env = env
        self.budget = 14

    def pick(self, options):
        """options: list of (weight, name); first = simplest (shrinking goes towards it)"""
        names = []
        for w, nme in options:
            names += [nme] * w
        return self.src.choice(names)

    def num(self):
        return ["num", self.src.choice(NUMBERS)]

    def setvar(self, kind):
        e = self.env
        names = (WVARS + e["wudq"]) if kind == "W" else (GVARS + e["gudq"])
        name = self.src.choice(names)
        if kind == "W" and self.src.int(0, 3) == 3:
            pat = self.src.choice(WELL_PATTERNS)
            if not any(w.startswith(pat[:-1]) for w in e["wells"]):
                pat = self.src.choice(WELL_PATTERNS)      # patterns matching no well stay, but rarer
            return ["var", name, pat]
        return ["var", name, None]

    def scalar_atom(self):
        e = self.env
        c = self.pick([(3, "num"), (3, "f"), (2, "one")])
        if c == "num":
            return self.num()
        if c == "f":
            return ["var", self.src.choice(FVARS + e["fudq"]), None]
        if e["groups"] and self.src.int(0, 2) == 2:
            name = self.src.choice(GVARS + e["gudq"])
            who = self.src.choice(e["groups"])
        else:
            name = self.src.choice(WVARS + e["wudq"])
            who = self.src.choice(e["wells"])
        if who not in e["defined"].get(name, ()):
            who2 = self.src.choice(e["groups"] if name[0] == "G" else e["wells"])
            if self.src.int(0, 3) != 0:
                who = who2                                # undefined scalars stay, but rarer
        return ["var", name, who, self.src.bool()]

    def gen(self, shape, depth, pos=False):
        src = self.src
        self.budget -= 1
        if depth <= 0 or self.budget <= 0:
            return self.scalar_atom() if shape == "S" else self.setvar(shape)
        if shape == "S":
            opts = [(3, "atom"), (3, "reduce"), (5, "arith"), (1, "elem")]
            if not pos:
                opts += [(2, "cmp"), (1, "neg"), (1, "par")]
        else:
            opts = [(3, "atom"), (6, "arith"), (3, "elem")]
            if not pos:
                opts += [(3, "cmp"), (2, "uop"), (1, "neg"), (1, "par")]
        c = self.pick(opts)
        if c == "atom":
            return self.scalar_atom() if shape == "S" else self.setvar(shape)
        if c == "par":
            return ["par", self.gen(shape, depth - 1, pos)]
        if c == "neg":
            return ["neg", self.gen(shape, depth - 1, pos)]
        if c == "reduce":
            f = src.choice(REDUCE)
            tk = self.env["tk"]
            kind = tk if tk in "WG" else src.choice(["W", "W", "G"] if self.env["groups"] else ["W"])
            return ["fn", f, self.gen(kind, depth - 1, pos or f in ("AVEG", "AVEH"))]
        if c == "elem":
            if shape == "S" or src.bool():
                f = src.choice(ELEM_ANY)
            else:
                f = src.choice(["DEF", "IDV", "SORTA", "SORTD", "SORTA", "SORTD", "DEF", "IDV", "UNDEF"])
            if f == "EXP":
                return ["fn", f, ["bin", "/", self.gen(shape, depth - 1, pos), ["num", "20"]]]
            return ["fn", f, self.gen(shape, depth - 1, pos or f in ("LN", "LOG"))]
        if c == "uop":
            op = src.choice(UOPS)
            k = src.int(0, 9)
            l = self.gen(shape, depth - 1)
            if k <= 6:
                r = self.gen(shape, depth - 1)
            elif k <= 8:
                r = self.num()
            else:
                r = self.gen("S", depth - 1)
            return ["bin", op, l, r]
        # arith / cmp
        if c == "cmp":
            op = src.choice(CMP)
        elif pos:
            op = src.choice(["+", "*", "/", "+", "*"])
        else:
            op = src.choice(["+", "-", "*", "/", "^", "+", "-", "*", "/"])
        if shape == "S":
            ls, rs = "S", "S"
        else:
            ls, rs = src.choice([(shape, shape), (shape, "S"), ("S", shape), (shape, "S")])
        if op == "^" and src.int(0, 9) < 7:
            # mostly a literal exponent (keeps magnitudes and the pow domain under control)
            l = self.gen(shape if (ls, rs) == ("S", shape) else ls, depth - 1, pos)
            r = ["num", src.choice(POW_EXPONENTS)]
            if src.int(0, 5) == 5:
                r = ["neg", r]
        else:
            l = self.gen(ls, depth - 1, pos)
            r = self.gen(rs, depth - 1, pos)
        return ["bin", op, l, r]


def build_expr_case(data):
    src = Src(data)
    nw = src.int(1, 6)
    wells = src.perm(WELL_POOL)[:nw]
    ng = src.int(1, 3)
    groups = sorted(src.perm(GROUP_POOL)[:ng])
    tk = src.choice(["W", "W", "W", "G", "F", "F"])
    style = src.int(0, 3)       # 0..2: UDQDefine(tokens) with three ways of cutting DATA items; 3: deck text
    all_def = src.int(0, 4) == 4

    def table(names, force_all, p_undef=3):
        """values for a subset of names (at least one, so that the vector exists)"""
        keep = [n for n in names if force_all or src.int(0, p_undef) != p_undef]
        if not keep:
            keep = [src.choice(names)]
        return [[n, src.val()] for n in keep]

    field = [[k, src.val()] for k in FVARS]
    wvars = [[v, table(wells, all_def)] for v in WVARS]
    # every group exists in the summary state through GOPR
    gvars = [["GOPR", table(groups, True)], ["GWPR", table(groups, all_def)]]
    udqs = []
    for nme in WUDQ:
        udqs.append([nme, "W", table(wells, all_def, 2)])
    gudq = GUDQ if style != 3 else []      # deck path: a group UDQ cannot be ASSIGNed (known finding)
    for nme in gudq:
        udqs.append([nme, "G", table(groups, all_def, 2)])
    for nme in FUDQ:
        udqs.append([nme, "F", src.val() if src.int(0, 7) != 7 else None])
    defined = {var: {n for n, _ in lst} for var, lst in wvars + gvars}
    defined.update({nme: {n for n, _ in data} for nme, kind, data in udqs if kind != "F"})
    env = {"tk": tk, "wells": wells, "groups": groups, "wudq": WUDQ, "gudq": gudq, "fudq": FUDQ,
           "defined": defined}
    g = G(src, env)
    depth = src.int(1, 5)
    if tk == "F":
        shape = "S"
    else:
        shape = src.choice([tk, tk, tk, "S"])
    ast = g.gen(shape, depth)
    return {"part": "A", "wells": wells, "target": tk + "U_X", "field": field, "wvars": wvars, "gvars": gvars,
            "udqs": udqs, "ast": ast, "style": style}


def expr_case():
    return st.binary(min_size=256, max_size=256).map(build_expr_case)


# ------------------------------------------------------------------ generator, part B (histories)
B_QUANTITIES = ["WU_A", "FU_A", "WU_B", "GU_A", "FU_B"]
B_WELLS = [("P1", "G1"), ("P2", "G1"), ("I1", "G2"), ("PA1", "G2"), ("I2", "G1")]
B_PATTERNS = ["P*", "I*", "*", "PA*"]
B_NUMBERS = ["2", "3", "0.5", "10", "1.5", "4", "7"]


class GB:
    """small expressions over summary vectors only (they change every step, so that evaluated / frozen /
    evaluated-once are distinguishable); shapes of the known part-A findings are avoided by construction
    as far as possible (no ^, no eps-comparisons, no UNDEF)"""

    def __init__(self, src, tk, refs=()):
        self.src = src
        self.tk = tk
        self.refs = list(refs)          # other quantities of the history an expression may read (their current values)

    def atom(self, shape):
        src = self.src
        if self.refs and shape in ("S", "W") and src.int(0, 3) == 0:
            fq = [q for q in self.refs if q[0] == "F"]
            wq = [q for q in self.refs if q[0] == "W"]
            if shape == "W" and wq:
                return ["var", src.choice(wq), src.choice([None, None, "P*"])]
            if shape == "S" and (fq or wq):
                q = src.choice(fq + wq)
                if q[0] == "F":
                    return ["var", q, None]
                return ["var", q, src.choice([w for w, _ in B_WELLS[:2]]), src.bool()]
        if shape == "S":
            c = src.int(0, 3)
            if c == 0:
                return ["num", src.choice(B_NUMBERS)]
            if c == 1:
                return ["var", src.choice(FVARS), None]
            if c == 2:
                return ["var", src.choice(WVARS), src.choice([w for w, _ in B_WELLS[:2]]), src.bool()]
            return ["var", src.choice(FVARS), None]
        if shape == "W":
            name = src.choice(WVARS)
            if src.int(0, 3) == 3:
                return ["var", name, src.choice(B_PATTERNS)]
            return ["var", name, None]
        return ["var", src.choice(GVARS), None]

    def gen(self, shape, depth):
        src = self.src
        if depth <= 0:
            return self.atom(shape)
        c = src.int(0, 9)
        if c <= 1:
            return self.atom(shape)
        if shape == "S" and c <= 4:
            kind = self.tk if self.tk in "WG" else src.choice(["W", "G"])
            return ["fn", src.choice(["SUM", "MAX", "MIN", "AVEA", "NORM1"]), self.gen(kind, depth - 1)]
        if c == 5:
            return ["fn", src.choice(["ABS", "ABS", "IDV", "DEF"] if shape != "S" else ["ABS"]), self.gen(shape, depth - 1)]
        if c == 6 and shape != "S":
            return ["bin", src.choice(["UMAX", "UMIN", "UADD"]), self.gen(shape, depth - 1), self.gen(shape, depth - 1)]
        op = src.choice(["+", "-", "*", "/", "+", "*", "<", ">"])
        if shape == "S":
            ls, rs = "S", "S"
        else:
            ls, rs = src.choice([(shape, shape), (shape, "S"), ("S", shape)])
        return ["bin", op, self.gen(ls, depth - 1), self.gen(rs, depth - 1)]


def build_hist_case(data):
    src = Src(data)
    nw = src.int(2, 5)
    wells = B_WELLS[:nw]
    nq = src.int(1, 4)
    qs = src.perm(B_QUANTITIES)[:nq]
    if src.int(0, 2) != 0 and "GU_A" in qs and len(qs) > 1:
        qs.remove("GU_A")               # group quantities in a minority of histories
    nsteps = src.int(3, 8)
    groups = sorted({g for _, g in wells})
    mode, status, defstep, clean, seen = {}, {}, {}, {}, []
    locked = set()
    last_def = {}
    steps = []

    # a group may enter the summary state later than the first evaluation (a group that starts reporting at a later
    # report step): from then on it belongs to every group set
    gstart = {g: (0 if (gi == 0 or src.int(0, 2)) else src.int(1, nsteps - 1)) for gi, g in enumerate(groups)}

    def summary(step=0):
        # all vectors get new values every step, expanded deterministically from two drawn bytes
        base = src.int(0, 65535)
        cnt = [0]

        def nxt():
            cnt[0] += 1
            h = ((base * 131 + cnt[0] * 7919 + 12345) * 2654435761) % (2 ** 32)
            return ((h >> 9) % 200 + 1) / 4.0
        return {"field": [[k, nxt()] for k in FVARS],
                "wvars": [[v, [[w, nxt()] for w, _ in wells]] for v in WVARS],
                "gvars": [[v, [[g, nxt()] for g in groups if step >= gstart[g]]] for v in GVARS]}

    def define(q):
        tk = q[0]
        shape = "S" if tk == "F" else src.choice([tk, tk, tk, "S"])
        # may read quantities introduced BEFORE this one (not itself, and no group quantities: ASSIGN of those is a
        # recorded finding).  A quantity that is read by another one is not DEFINEd again afterwards: the statement does
        # not say whether a re-DEFINE keeps a quantity's place in the evaluation order, and with these two rules the
        # reader is evaluated after what it reads under either interpretation.
        if q in locked:
            return ["UPDATE", q, "ON"] if mode.get(q) == "D" else assign(q, True)
        if q in last_def and src.int(0, 2) == 0:
            return ["DEFINE", q, last_def[q]]          # the same definition entered again, token for token
        refs = [x for x in seen if x != q and x[0] in "FW" and (q not in seen or seen.index(x) < seen.index(q))]
        ast = GB(src, tk, refs).gen(shape, src.int(0, 2))
        txt = json.dumps(ast)
        for x in refs:
            if '"%s"' % x in txt:
                locked.add(x)
        last_def[q] = ast
        return ["DEFINE", q, ast]

    def assign(q, full):
        v = src.choice(["1", "2.5", "-3", "7", "0.25", "12", "0"])
        sel = None
        if not full and q[0] == "W" and src.int(0, 2) == 0:
            sel = src.choice([w for w, _ in wells] + ["P*", "I*"])
        return ["ASSIGN", q, v, sel]

    for s in range(nsteps):
        recs = []
        if s == 0 or src.int(0, 9) < 7:
            for _ in range(src.int(1, 3)):
                q = src.choice(qs)
                m = mode.get(q)
                if m is None:
                    # lifecycle usually starts with an ASSIGN
                    r = assign(q, False) if src.int(0, 2) != 0 else define(q)
                elif m == "A":
                    c = src.int(0, 5)
                    r = define(q) if c <= 2 else (["UNITS", q, "SM3"] if c == 3 else assign(q, not clean[q]))
                else:
                    st_ = status[q]
                    earlier = defstep[q] < s
                    c = src.int(0, 9)
                    if st_ == "ON":
                        if earlier and c <= 3:
                            r = ["UPDATE", q, "OFF"]
                        elif earlier and c == 4:
                            r = ["UPDATE", q, "NEXT"]
                        elif c == 5:
                            r = define(q)
                        elif c == 6:
                            r = assign(q, True)
                        elif c == 7:
                            r = ["UNITS", q, "SM3"]
                        else:
                            r = ["UPDATE", q, "ON"]
                    else:
                        if c <= 5:
                            r = ["UPDATE", q, "ON"]
                        elif c == 6 and earlier:
                            r = ["UPDATE", q, "NEXT"]
                        elif c == 7:
                            r = define(q)
                        elif c == 8:
                            r = assign(q, True)
                        else:
                            r = ["UPDATE", q, "OFF"] if earlier else ["UPDATE", q, "ON"]
                recs.append(r)
                if q not in seen:
                    seen.append(q)
                if r[0] == "ASSIGN":
                    mode[q] = "A"
                    if r[3] is None:
                        clean[q] = True
                    clean.setdefault(q, True)
                elif r[0] == "DEFINE":
                    was_off = status.get(q) in ("OFF", "NEXT")
                    mode[q] = "D"
                    status[q] = "ON"
                    defstep[q] = s
                    clean[q] = False
                    if was_off and src.int(0, 1) == 0:
                        # half of the time the deck says explicitly that the quantity is live again; otherwise the DEFINE
                        # itself does (UDQ keyword documentation: a DEFINEd quantity is evaluated every step unless an
                        # UPDATE given AFTER the definition says otherwise) - the later keyword decides
                        recs.append(["UPDATE", q, "ON"])
                elif r[0] == "UPDATE":
                    status[q] = r[2]
        steps.append({"udq": recs, "summary": summary(s)})
    return {"part": "B", "wells": [list(w) for w in wells], "quantities": seen, "steps": steps}


def any_case():
    def build(data):
        if data[0] % 10 == 0:
            return build_hist_case(data[1:])
        return build_expr_case(data[1:])
    return st.binary(min_size=300, max_size=300).map(build)


# ------------------------------------------------------------------ the check
# Only findings that are still open may absorb a mismatch.  The shapes of the fixed findings (pow-mul-precedence,
# pow-scalar-set, pow-undefined-rhs, cmp-eps-zero-lhs-throws, cmp-eps-negative-lhs, undef-function-throws,
# undefined-scalar-broadcast-throws, assign-group-throws) are still counted in the evidence ("shape:...") but are
# checked strictly.
KNOWN_ORDER = ["update-next-repeats"]


def close(exp, got, scale):
    # rel 1e-12: both sides perform the same IEEE operations; only libm calls and the summation order inside
    # reductions may differ by a few ulp (2^-52 ~ 2.2e-16 each) and can be amplified by cancellation against
    # the largest intermediate value `scale` of the evaluation
    return abs(exp - got) <= 1e-12 * max(abs(exp), scale) + 1e-300


class C17(Check):
    ID = "C17"
    PROBE_GROUP = "udq"
    # 16 probes share 16 cores: OpenMP teams inside FieldPropsManager only spin against each other (25-80 ms
    # instead of 3 ms per Schedule construction)
    PROBE_ENV = {"OMP_NUM_THREADS": "1"}
    RULE = ("Part A (9 of 10 cases): random typed expression trees (depth <= 5, <= 14 nodes) over numbers, field / "
            "well / group summary vectors (no selector, single name, wildcard pattern), earlier UDQs, + - * / ^, the "
            "six comparisons, UADD/UMUL/UMIN/UMAX, unary minus, parentheses, 10 reductions and 10 elemental "
            "functions; rendered with exactly the parentheses the documented precedence requires (plus random "
            "redundant ones), cut into DATA items in three ways for UDQDefine(...).eval(context) or written as deck "
            "text and run through Parser -> Schedule -> UDQConfig::eval; summary state over 1..6 wells and 1..3 "
            "groups with random undefined entries; field, well and group targets.  Non-trivial: >= 3 binary "
            "operators of >= 2 different ranks, or a set operand with an undefined element combined with a scalar; "
            "distinct by operator/function skeleton + target type + operand kinds.  "
            "Part B (1 of 10): histories over 3..8 report steps of ASSIGN (all / one well / pattern), DEFINE (small "
            "expressions over summary vectors that change every step), UPDATE ON|OFF|NEXT and UNITS records for 1..4 "
            "field/well/group quantities, legal with respect to the quantity's state, run as deck text through "
            "Schedule and UDQConfig(step).eval step by step.  Non-trivial: some quantity is ASSIGNed, then DEFINEd, "
            "then switched OFF and ON again; distinct by the sequence of (step, quantity type, action).")
    ASSUMPTIONS = [
        "comparison epsilon is the documented UDQPARAM default 1e-4; operands are exactly equal (<= 1e-9 relative) or "
        "differ by > 1e-2 relative, anything in between is discarded",
        "cases whose reference evaluation divides by zero, leaves the domain of ^ / LN / LOG / AVEG / AVEH, exceeds "
        "1e15 in an intermediate, ranks equal values (SORTA/SORTD), rounds a half-integer (NINT) or strictly compares "
        "values that are equal up to rounding are outside the domain (discarded, counted)",
        "not asserted because the statement does not fix it: associativity of ^, of chained comparisons and of chained "
        "union operators (always parenthesised), rank of unary minus against ^ (parenthesised), union operators "
        "between a scalar and a set (an exception is accepted, a returned value is compared), reductions / SORTA / "
        "SORTD / DEF / IDV / UNDEF of set-free arguments (not generated), group wildcards (not generated), "
        "well sets and group sets in one expression (not generated), segment/region/table-lookup operands, "
        "RANDN/RANDU/RRNDN/RRNDU",
        "part B: a DEFINE may read summary vectors and the quantities introduced before its own (which are then not "
        "DEFINEd again: whether a re-DEFINE keeps its place in the evaluation order is not stated; with both rules the "
        "reader is evaluated after what it reads under either reading); UPDATE OFF/NEXT only for quantities DEFINEd at an earlier step; a "
        "re-DEFINE of a switched-off quantity makes it live again (in half of the cases the deck says UPDATE ON explicitly); a partial ASSIGN is generated "
        "only while 'replace the selected elements' and 'replay all ASSIGN records' mean the same",
        "a reduction whose argument has no defined element at evaluation time has no value defined by the "
        "statement: an exception is accepted, a returned value is not asserted (part A, counted by label); such "
        "histories are discarded (part B)",
        "a mismatch on a history in which known finding 'update-next-repeats' can show (a used-up UPDATE NEXT and a "
        "later report step owning a fresh UDQConfig) is attributed to it while it is listed as known (~4 % of the "
        "histories); the shapes of the eight findings fixed in /repo are checked strictly",
    ]
    EXAMPLES = {"quick": 3000, "thorough": 40000}
    MIN_EVALS = {"quick": 30000, "thorough": 400000}
    TIME_CAP = {"quick": 150, "thorough": 1000}
    LEVEL_TEXT = ("Generated-input search with an independent reference: expression trees are drawn from the UDQ "
                  "grammar, written out with the documented precedence (parentheses first, functions, ^, * /, + -, "
                  "comparisons, union operators; * / + - left to right) and evaluated both by the library (token "
                  "vector -> UDQDefine::eval, and deck text -> Schedule -> UDQConfig::eval) and by a Python evaluator "
                  "written from the statement (element-wise, scalar broadcasting, undefined propagation, definitions "
                  "of the 20 functions); names, definedness and values (1e-12 relative) must agree.  Histories of "
                  "ASSIGN/DEFINE/UPDATE records are compared step by step with a reference state machine.")
    LEVEL_NOTE = ("Sampled, not exhaustive: ~48 000 (quick) / ~640 000 (thorough) cases per run.  Trusted: the Python "
                  "reference evaluator / state machine as a reading of the statement; the probe's observation of "
                  "UDQSet / UDQState / SummaryState through public getters.  Of the nine genuine deviations found "
                  "by this check eight are fixed in /repo and checked strictly; 'update-next-repeats' is listed as "
                  "known and histories in which it can show are not decided further.")
    TECHNIQUE = ("property-based testing: Hypothesis-driven grammar generator (single byte-string entropy source), "
                 "differential comparison with a reference evaluator and a reference state machine")

    def floors(self, tier):
        return {"A": 0.8, "B": 0.05, "nontrivial": 0.2, "undefined-element-with-scalar": 0.08,
                "result-has-undefined": 0.15, "A:via-deck": 0.1, "B:nontrivial": 0.005,
                "target:F": 0.1, "target:G": 0.05, "target:W": 0.2}

    def strategy(self, tier):
        return any_case()

    # ------------------------------------------------------------ classification
    def tokens(self, case):
        return render(case["ast"], [])

    def classify(self, case):
        if case.get("part") == "B":
            return self.classify_hist(case)
        toks = self.tokens(case)
        ops = [t for t in toks if t in RANK]
        # unary minus is rendered as "-" too: count binary operators from the tree instead
        nbin, ranks, fns = [0], set(), set()

        def walk(n):
            if n[0] == "bin":
                nbin[0] += 1
                ranks.add(RANK[n[1]])
                walk(n[2])
                walk(n[3])
            elif n[0] in ("neg", "par"):
                walk(n[1])
            elif n[0] == "fn":
                fns.add(n[1])
                walk(n[2])
        walk(case["ast"])
        labels = ["A", "target:" + case["target"][0], "style:%d" % case["style"]]
        if case["style"] == 3:
            labels.append("A:via-deck")
        for o in set(ops):
            labels.append("op:" + o)
        for f in fns:
            labels.append("fn:" + f)
        ref = Ref(case)
        undef_scalar_mix = False
        try:
            res = ref.result(case["ast"])
            if any(v is None for v in res["vals"]):
                labels.append("result-has-undefined")
            if any(v is not None for v in res["vals"]):
                labels.append("result-has-defined")
            undef_scalar_mix = self.undef_with_scalar(ref, case["ast"])
        except Discard:
            pass
        except Exception:
            labels.append("classify-ref-error")
        if undef_scalar_mix:
            labels.append("undefined-element-with-scalar")
        for h in ref.hazards:
            labels.append("shape:" + h)
        if pow_then_mul(toks):
            labels.append("shape:pow-mul-precedence")
        if "empty-reduction" in ref.notes:
            labels.append("empty-reduction")
        nontriv = (nbin[0] >= 3 and len(ranks) >= 2) or undef_scalar_mix
        if nontriv:
            labels.append("nontrivial")
        skel = []
        for t in toks:
            if t in RANK or t in "()" or t in REDUCE or t in ELEM_ANY or t in ELEM_SET:
                skel.append(t)
            elif t[0].isdigit():
                skel.append("n")
            elif t.startswith("'") or t in WELL_POOL or t in GROUP_POOL:
                skel.append("*" if "*" in t else "1")
            else:
                skel.append(t[0] + ("U" if t[1] == "U" else ""))
        return nontriv, sha([case["target"][0], skel], 16), labels

    def undef_with_scalar(self, ref, ast):
        """some arithmetic/comparison node combines a set that has an undefined element with a scalar"""
        found = [False]

        def walk(n):
            if n[0] == "bin":
                if n[1] not in UOPS:
                    try:
                        a, b = Ref.ev(ref, n[2]), Ref.ev(ref, n[3])
                        for s, o in ((a, b), (b, a)):
                            if s.kind != "S" and o.kind == "S" and any(x is None for x in s.v):
                                found[0] = True
                    except Discard:
                        pass
                walk(n[2])
                walk(n[3])
            elif n[0] in ("neg", "par"):
                walk(n[1])
            elif n[0] == "fn":
                walk(n[2])
        walk(ast)
        return found[0]

    def classify_hist(self, case):
        labels = ["B", "B:steps:%d" % len(case["steps"])]
        per_q = {}
        skel = []
        for si, stp in enumerate(case["steps"]):
            for r in stp["udq"]:
                a = r[0] if r[0] != "UPDATE" else r[2]
                per_q.setdefault(r[1], []).append(a)
                skel.append("%d%s%s" % (si, r[1][0], a))
                if r[0] == "ASSIGN" and r[3] is not None:
                    labels.append("B:partial-assign")
                if r[0] == "ASSIGN" and r[1][0] == "G":
                    labels.append("B:group-assign")
                if r[0] == "DEFINE":
                    labels.append("B:define-target:" + r[1][0])
                    if any(q in json.dumps(r[2]) for q in B_QUANTITIES):
                        labels.append("B:define-reads-other-udq")

        def subseq(seq, pat):
            i = 0
            for x in seq:
                if x == pat[i]:
                    i += 1
                    if i == len(pat):
                        return True
            return False
        nontriv = False
        for q, seq in per_q.items():
            if subseq(seq, ["ASSIGN", "DEFINE"]):
                labels.append("B:assign-then-define")
            if subseq(seq, ["DEFINE", "ASSIGN"]):
                labels.append("B:define-then-assign")
            if subseq(seq, ["OFF", "ON"]):
                labels.append("B:off-then-on")
            if "NEXT" in seq:
                labels.append("B:update-next")
            if subseq(seq, ["DEFINE", "DEFINE"]):
                labels.append("B:redefine")
            if subseq(seq, ["ASSIGN", "DEFINE", "OFF", "ON"]):
                nontriv = True
        try:
            for h in self.hist_reference(case)[1]:
                labels.append(("B:known-shape:" if h in KNOWN_ORDER else "B:shape:") + h)
        except Discard:
            pass
        except Exception:
            labels.append("classify-ref-error")
        labels = sorted(set(labels))
        if nontriv:
            labels.append("B:nontrivial")
        return nontriv, sha(["B", skel], 16), labels

    def sample_view(self, case):
        if case.get("part") == "B":
            return {"deck": self.hist_deck(case)}
        return {"target": case["target"], "expr": " ".join(self.tokens(case)), "wells": case["wells"],
                "style": case["style"]}

    # ------------------------------------------------------------ oracle
    def check(self, case, ctx):
        if case.get("part") == "A":
            return self.check_expr(case, ctx)
        if case.get("part") == "B":
            return self.check_hist(case, ctx)
        raise Discard("unknown part")

    @staticmethod
    def expr_deck(case, expr):
        """part A through the full path: wells, the earlier UDQs as ASSIGNs, the DEFINE under test"""
        L = ["SCHEDULE", "WELSPECS"]
        for i, w in enumerate(case["wells"]):
            L.append(" '%s' 'G%d' %d %d 1* OIL /" % (w, i % 2 + 1, i + 1, i + 1))
        L += ["/", "UDQ"]
        for name, kind, data in case["udqs"]:
            if kind == "F":
                if data is not None:
                    L.append(" ASSIGN %s %r /" % (name, data))
            else:
                for who, v in data:
                    L.append(" ASSIGN %s '%s' %r /" % (name, who, v))
        L.append(" DEFINE %s %s /" % (case["target"], expr))
        L += ["/", "TSTEP", " 1 /"]
        return "\n".join(L) + "\n"

    # ------------------------------------------------------------ part B
    @staticmethod
    def hist_deck(case):
        L = ["SCHEDULE", "WELSPECS"]
        for i, (w, g) in enumerate(case["wells"]):
            L.append(" '%s' '%s' %d %d 1* OIL /" % (w, g, i + 1, i + 1))
        L.append("/")
        for stp in case["steps"]:
            if stp["udq"]:
                L.append("UDQ")
                for r in stp["udq"]:
                    if r[0] == "ASSIGN":
                        sel = "" if r[3] is None else ("'%s' " % r[3])
                        L.append(" ASSIGN %s %s%s /" % (r[1], sel, r[2]))
                    elif r[0] == "DEFINE":
                        L.append(" DEFINE %s %s /" % (r[1], " ".join(render(r[2], []))))
                    elif r[0] == "UPDATE":
                        L.append(" UPDATE %s %s /" % (r[1], r[2]))
                    else:
                        L.append(" UNITS %s '%s' /" % (r[1], r[2]))
                L.append("/")
            L.append("TSTEP")
            L.append(" 1 /")
        return "\n".join(L) + "\n"

    @staticmethod
    def hist_reference(case):
        """reference state machine -> (expected per step {q: {elem: value|None}}, hazards)
        Rules (statement + UDQ keyword documentation): records are processed in input order; the last
        ASSIGN/DEFINE of a quantity decides whether it is a constant or an expression; an ASSIGN is applied once,
        at the step it is entered (all elements, or the selected ones); a DEFINEd quantity is evaluated at
        every step while its update status is ON, exactly once after UPDATE NEXT, never while OFF (its value
        stays); a new DEFINE starts ON; quantities are evaluated in the order of their first appearance."""
        wells = [w for w, _ in case["wells"]]

        class _Uni(dict):
            """element names of a quantity kind; G = the groups the summary state knows AT THIS MOMENT"""
            def __getitem__(self_, k):
                if k == "G":
                    gs = set()
                    for d in cur["gvars"].values():
                        gs.update(d.keys())
                    return sorted(gs)
                return dict.__getitem__(self_, k)
        uni = _Uni({"W": wells, "F": [""]})
        mode, status, defs, order = {}, {}, {}, []
        vals = {}
        cur = {"field": {}, "wvars": {}, "gvars": {}}
        hazards = set()
        out = []
        spent = set()           # quantities whose UPDATE NEXT has been used up
        prev_assign = False
        for stp in case["steps"]:
            pending = []
            for r in stp["udq"]:
                q = r[1]
                if r[0] in ("ASSIGN", "DEFINE") and q not in order:
                    order.append(q)
                if r[0] == "ASSIGN":
                    mode[q] = "A"
                    pending.append(r)
                    if q[0] == "G":
                        hazards.add("assign-group-throws")
                elif r[0] == "DEFINE":
                    mode[q] = "D"
                    defs[q] = r[2]
                    status[q] = "ON"
                elif r[0] == "UPDATE":
                    status[q] = r[2]
                if r[0] in ("DEFINE", "UPDATE"):
                    spent.discard(q)
            # known finding 'update-next-repeats' can only show at a step that owns a fresh UDQConfig copy (a step
            # with a UDQ keyword, or the step after one with an ASSIGN) while a NEXT has been used up
            if (stp["udq"] or prev_assign) and any(mode[q] == "D" for q in spent):
                hazards.add("update-next-repeats")
            prev_assign = bool(pending)
            sm = stp["summary"]
            for k, v in sm["field"]:
                cur["field"][k] = v
            for key in ("wvars", "gvars"):
                for var, lst in sm[key]:
                    cur[key].setdefault(var, {}).update(dict(lst))
            for r in pending:
                q, v, sel = r[1], float(r[2]), r[3]
                tab = vals.setdefault(q, {e: None for e in uni[q[0]]})
                for e in uni[q[0]]:
                    if sel is None or e == sel or (sel.endswith("*") and e.startswith(sel[:-1])):
                        tab[e] = v
            for q in order:
                if mode[q] == "D" and status[q] in ("ON", "NEXT"):
                    pc = {"wells": wells, "target": q,
                          "field": [[k, v] for k, v in cur["field"].items()],
                          "wvars": [[var, list(d.items())] for var, d in cur["wvars"].items()],
                          "gvars": [[var, list(d.items())] for var, d in cur["gvars"].items()],
                          # a DEFINE reads other UDQs from the UDQ state: this step's value if already evaluated
                          # (evaluation follows the order of first appearance), else the previous one; no value = undefined
                          "udqs": [[o, o[0], (vals.get(o, {}).get("") if o[0] == "F" else
                                              [[e, v] for e, v in vals.get(o, {}).items() if v is not None])]
                                   for o in case["quantities"] if o != q]}
                    ref = Ref(pc)
                    res = ref.result(defs[q])
                    hazards |= ref.hazards
                    if "empty-reduction" in ref.notes:
                        raise Discard("reduction over no defined element: value not defined by the statement")
                    vals[q] = dict(zip(res["names"], res["vals"]))
                    if status[q] == "NEXT":
                        status[q] = "OFF"
                        spent.add(q)
            # a group that entered the summary state at this step has no value in quantities that were not evaluated now
            for q, t in vals.items():
                for e in uni[q[0]]:
                    t.setdefault(e, None)
            out.append({q: dict(t) for q, t in vals.items()})
        return out, hazards

    def check_hist(self, case, ctx):
        exp, hazards = self.hist_reference(case)       # may raise Discard
        key = next((k for k in KNOWN_ORDER if k in hazards), None)
        deck = self.hist_deck(case)
        qs = case["quantities"]
        try:
            r = ctx.P.call("udq_sched", deck=deck, steps=[s["summary"] for s in case["steps"]],
                           observe=[[q, q[0]] for q in qs])
        except LibError as e:
            return {"rule": "library throws while building the schedule / evaluating a valid UDQ history",
                    "detail": {"deck": deck, "exception": str(e)[:300], "shapes": sorted(hazards)}, "key": key}
        if len(r["steps"]) != len(case["steps"]):
            return {"rule": "number of report steps", "detail": [len(r["steps"]), len(case["steps"])], "key": None}
        for si, (got, want) in enumerate(zip(r["steps"], exp)):
            for item in got["q"]:
                q = item[0]
                if q[0] == "F":
                    elems = [["", item[1], item[2]]]
                else:
                    elems = item[1]
                w = want.get(q)
                names = [e[0] for e in elems]
                if w is not None and sorted(names) != sorted(w.keys()):
                    return {"rule": "history: element names", "detail": {"deck": deck, "step": si, "q": q,
                                                                         "got": names, "want": sorted(w.keys())},
                            "key": key}
                for nme, us, sv in elems:
                    ev = None if w is None else w[nme]
                    gv = None if us is None else hexf(us)
                    ok = (ev is None and gv is None) or (ev is not None and gv is not None and close(ev, gv, abs(ev)))
                    # the SummaryState copy: equal to the UDQ value when defined, the undefined value
                    # (UDQPARAM item 3, default 0) or absent otherwise
                    if ok and sv is not None:
                        s_ = hexf(sv)
                        ok = close(ev, s_, abs(ev)) if ev is not None else s_ == 0.0
                    elif ok and ev is not None:
                        ok = False
                    if not ok:
                        return {"rule": "history: value of a quantity at a report step differs from the "
                                        "ASSIGN/DEFINE/UPDATE state machine",
                                "detail": {"deck": deck, "step": si, "quantity": q, "element": nme, "expected": ev,
                                           "udq_state": gv, "summary_state": None if sv is None else hexf(sv),
                                           "shapes": sorted(hazards)},
                                "key": key}
        return None

    def check_expr(self, case, ctx):
        toks = self.tokens(case)
        ref = Ref(case)
        exp = ref.result(case["ast"])          # may raise Discard (outside the domain)
        hazards = set(ref.hazards)
        if pow_then_mul(toks):
            hazards.add("pow-mul-precedence")
        key = next((k for k in KNOWN_ORDER if k in hazards), None)
        expr = " ".join(toks)
        try:
            if case["style"] == 3:
                data = self.expr_deck(case, expr)
                rr = ctx.P.call("udq_sched", deck=data, observe=[[case["target"], case["target"][0]]],
                                steps=[{"field": case["field"], "wvars": case["wvars"], "gvars": case["gvars"]}])
                item = rr["steps"][0]["q"][0]
                if case["target"][0] == "F":
                    r = {"elems": [["", item[1] is not None, item[1]]]}
                else:
                    r = {"elems": [[e[0], e[1] is not None, e[1]] for e in item[1]]}
            else:
                data = to_deck_data(toks, case["style"])
                r = ctx.P.call("udq_eval", wells=case["wells"], field=case["field"], wvars=case["wvars"],
                               gvars=case["gvars"], udqs=case["udqs"], name=case["target"], tokens=data)
        except LibError as e:
            if "uop-mixed" in ref.notes:
                # union operator between a scalar and a set: the statement does not say that it broadcasts
                ctx.label("accepted-exception:uop-scalar-set")
                return None
            if "empty-reduction" in ref.notes:
                # reduction over a set without defined elements: a refusal is as good as "undefined"
                ctx.label("accepted-exception:empty-reduction")
                return None
            return {"rule": "library throws on an expression that the documented grammar and semantics cover",
                    "detail": {"expr": expr, "data": data, "exception": str(e)[:300], "expected": exp,
                               "shapes": sorted(hazards)},
                    "key": key}
        got_names = [e[0] for e in r["elems"]]
        got = {e[0]: (hexf(e[2]) if e[1] else None) for e in r["elems"]}
        if "empty-reduction" in ref.notes:
            # the library produced a value although a reduction had nothing to reduce: compared with the
            # reference's "undefined propagates" reading, but a difference is not asserted
            same = sorted(got_names) == sorted(exp["names"]) and all(
                (ev is None and got[n] is None) or (ev is not None and got[n] is not None and close(ev, got[n], ref.maxabs))
                for n, ev in zip(exp["names"], exp["vals"]))
            ctx.label("empty-reduction:value-returned:" + ("same-as-undefined-reading" if same else "differs-unasserted"))
            return None
        if sorted(got_names) != sorted(exp["names"]):
            return {"rule": "result set has the wrong elements",
                    "detail": {"expr": expr, "got": got_names, "expected": exp["names"]}, "key": key}
        for nme, ev in zip(exp["names"], exp["vals"]):
            gv = got[nme]
            ok = (ev is None and gv is None) or (ev is not None and gv is not None and close(ev, gv, ref.maxabs))
            if not ok:
                return {"rule": "value differs from the documented semantics (precedence / element-wise evaluation "
                                "/ broadcasting / undefined propagation / function definition)",
                        "detail": {"expr": expr, "data": data, "element": nme, "expected": ev, "got": gv,
                                   "all_expected": dict(zip(exp["names"], exp["vals"])), "all_got": got,
                                   "shapes": sorted(hazards)},
                        "key": key}
        return None
