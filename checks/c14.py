"""C14 - Black-oil PVT functions honour the input tables and are self-consistent.

Generated decks (PVTO|PVDO|PVCDO, PVTG|PVDG, PVTW, DENSITY; 1..3 PVT regions; METRIC/FIELD/LAB/PVT-M)
-> EclipseState + Schedule -> Oil/Gas/WaterPvtMultiplexer::initFromState -> public evaluation methods
with double and Evaluation<double,3> arguments.  The oracle is a table model written from the
property statement and the Eclipse keyword definitions: it knows the numbers that were typed into
the deck, an independent unit table, and nothing about how the library interpolates.
"""
import math
import os

from hypothesis import strategies as st

from vlib.runner import Check, sha
from vlib.probe import hexf

# --------------------------------------------------------------------------- independent unit table
# typed in from primary definitions (not from Units.hpp)
INCH = 0.0254
FOOT = 12 * INCH
LB = 0.45359237
G_N = 9.80665
PSI = LB * G_N / INCH ** 2                 # lbf / in^2
BAR = 1.0e5
ATM = 101325.0
GALLON = 231 * INCH ** 3
STB = 42 * GALLON
MSCF = 1000 * FOOT ** 3
CP = 1.0e-3

# per unit system: pressure, Rs (gas/oil), Rv and Bg (oil/gas: FIELD rb/Mscf resp. stb/Mscf), density
UNITS = {
    "METRIC": dict(kw="METRIC", p=BAR, rs=1.0, rv=1.0, rho=1.0),
    "FIELD": dict(kw="FIELD", p=PSI, rs=MSCF / STB, rv=STB / MSCF, rho=LB / FOOT ** 3),
    "LAB": dict(kw="LAB", p=ATM, rs=1.0, rv=1.0, rho=1000.0),
    "PVT-M": dict(kw="PVT-M", p=ATM, rs=1.0, rv=1.0, rho=1.0),
}

# decimal quanta (number of decimals) used when writing the deck: value = integer * 10^-d, so that
# strict monotonicity of the integers is strict monotonicity of the numbers in the deck
DEC = {
    "METRIC": dict(p=2, rs=2, rv=7, bg=6, rho=2),
    "FIELD": dict(p=1, rs=4, rv=5, bg=4, rho=3),
    "LAB": dict(p=2, rs=2, rv=7, bg=6, rho=5),
    "PVT-M": dict(p=2, rs=2, rv=7, bg=6, rho=2),
}
# pressure integers are drawn for a nominal quantum of 0.01 bar; FIELD writes 0.1 psi quanta
P_SCALE = {"METRIC": 1, "FIELD": 1, "LAB": 1, "PVT-M": 1}

INVB, MU, SAT_INVB, SAT_MU, SAT_R, PSAT, C_INVB, C_MU, C_PSAT = range(9)
FN_NAME = ["invB", "mu", "satInvB", "satMu", "satR", "psat", "invB(p,satR(p))", "mu(p,satR(p))", "psat(satR(p))"]

EPS = 2.0 ** -52

# VERIF_C14_IGNORE_KNOWN=key1,key2 (read here only): treat the listed known_findings signatures as absent, i.e. report
# such violations like any other.  Used to verify a candidate fix in a private worktree without editing the shared
# known_findings.jsonl.
IGNORE_KNOWN = set(k for k in os.environ.get("VERIF_C14_IGNORE_KNOWN", "").split(",") if k)
# relative step of the difference quotients.  1e-7: the one-sided quotients of the smooth but non-linear pieces
# (viscosity = ratio of two interpolants, PVTW polynomials) then differ by h f''/f' ~ 1e-7..1e-6 relative, below the
# 1e-6 tolerance, while rounding noise eps/h = 2e-9 (times the conditioning f/(f' x)) stays small
HREL = 1.0e-7
# every quotient is also formed with the step BIG*h: rounding noise of the function values (large where a point is
# extrapolated in both table directions: the bilinear terms cancel) is 100 times smaller there, curvature and the
# chance of a kink inside the step larger.  A derivative is rejected only if it fails with both steps.
BIG = 100.0


def dec(k, d):
    """integer k -> decimal string of k * 10^-d (exact)"""
    s = "%0*d" % (d + 1, abs(k))
    out = s if d == 0 else s[:-d] + "." + s[-d:]
    return ("-" if k < 0 else "") + out


# --------------------------------------------------------------------------- generator
def ints(lo, hi):
    return st.integers(lo, hi)


def shaped_increments(draw, n, dx_strategy, dy_strategy):
    """increments of the saturated curve y(x) (both strictly positive).  'convex'/'concave' sort the segments by
    slope, 'any' leaves them as drawn (S-shaped curves included)."""
    dx = [draw(dx_strategy) for _ in range(n - 1)]
    dy = [draw(dy_strategy) for _ in range(n - 1)]
    shape = draw(st.sampled_from(["any", "convex", "concave"]))
    if shape != "any":
        pairs = sorted(zip(dx, dy), key=lambda t: (t[1] * 1.0 / t[0], t), reverse=(shape == "concave"))
        dx = [a for a, _ in pairs]
        dy = [b for _, b in pairs]
    return dx, dy


@st.composite
def pvto_table(draw, u):
    d = DEC[u]
    n = draw(st.one_of(ints(2, 8), ints(4, 8)))
    p = draw(ints(100, 10000))
    rs = draw(st.one_of(st.just(0), ints(0, 5000)))
    bo = draw(ints(10000, 13000))
    mu = draw(ints(200, 5000))
    dps, drs = shaped_increments(draw, n, ints(50, 10000), ints(1, 5000) if u != "FIELD" else ints(1, 3000))
    nodes = []
    for i in range(n):
        if i:
            p += dps[i - 1]
            rs += drs[i - 1]
            bo += draw(ints(1, 2000))
            mu -= draw(ints(0, max(0, (mu - 50) // 2)))
        last = i == n - 1
        nrows = draw(st.sampled_from([1, 1, 2, 3, 5])) if not last else draw(st.sampled_from([2, 2, 3, 4, 5]))
        rows = []
        pj, bj, mj = p, bo, mu
        for j in range(nrows):
            if j:
                pj += draw(ints(50, 20000))
                bj -= draw(ints(1, 300))
                mj += draw(ints(0, 500))
            rows.append([dec(pj, d["p"]), dec(bj, 4), dec(mj, 3)])
        nodes.append({"x": dec(rs, d["rs"]), "rows": rows})
    return nodes


@st.composite
def pvtg_table(draw, u):
    d = DEC[u]
    n = draw(st.one_of(ints(2, 8), ints(4, 8)))
    p = draw(ints(100, 10000))
    rv = draw(st.one_of(st.just(0), ints(0, 2000)))
    bg = draw(ints(2000, 200000))
    mu = draw(ints(1000, 3000))
    dps, drv = shaped_increments(draw, n, ints(50, 10000), ints(1, 3000))
    nodes = []
    for i in range(n):
        if i:
            p += dps[i - 1]
            rv += drv[i - 1]
            bg = max(100, int(bg * draw(ints(300, 980)) / 1000))
            mu += draw(ints(0, 500))
        last = i == n - 1
        want = draw(st.sampled_from([1, 1, 2, 3, 5])) if not last else draw(st.sampled_from([2, 2, 3, 4, 5]))
        nrows = min(want, rv + 1)          # Rv strictly decreasing down to >= 0
        below = sorted(draw(st.sets(ints(0, rv - 1), min_size=nrows - 1, max_size=nrows - 1)), reverse=True) \
            if nrows > 1 else []
        if below and draw(st.booleans()):
            below[-1] = 0 if 0 not in below[:-1] else below[-1]
        rows = [[dec(rv, d["rv"]), dec(bg, d["bg"]), dec(mu, 5)]]
        for r in below:
            bj = max(1, bg + draw(ints(-(bg // 20), bg // 20)))
            mj = max(1, mu + draw(ints(-200, 200)))
            rows.append([dec(r, d["rv"]), dec(bj, d["bg"]), dec(mj, 5)])
        nodes.append({"x": dec(p, d["p"]), "rows": rows})
    return nodes


@st.composite
def pvd_table(draw, u, gas):
    """PVDO / PVDG: P strictly increasing, B strictly decreasing, viscosity non-decreasing"""
    d = DEC[u]
    n = draw(ints(2, 9))
    p = draw(ints(100, 10000))
    if gas:
        b = draw(ints(2000, 200000))
        mu = draw(ints(1000, 3000))
    else:
        b = draw(ints(10000, 16000))
        mu = draw(ints(200, 5000))
    rows = []
    for i in range(n):
        if i:
            p += draw(ints(50, 20000))
            if gas:
                b = max(n - i, min(b - 1, int(b * draw(ints(300, 990)) / 1000)))
                mu += draw(ints(0, 500))
            else:
                b -= draw(ints(1, 300))
                mu += draw(ints(0, 500))
        rows.append([dec(p, d["p"]), dec(b, d["bg"] if gas else 4), dec(mu, 5 if gas else 3)])
    return rows


@st.composite
def cc_record(draw, u):
    """PVTW / PVCDO record: pref, B, C, mu, Cv.  C and Cv are written in scientific notation."""
    d = DEC[u]
    pref = draw(ints(100, 60000))
    b = draw(ints(9500, 13000))
    cexp = 7 if u != "FIELD" else 8         # 1/bar resp. 1/psi
    c = draw(ints(1, 2000))
    mu = draw(ints(200, 3000))
    cv = draw(st.one_of(st.just(0), ints(0, 3000)))
    return [dec(pref, d["p"]), dec(b, 4), "%de-%d" % (c, cexp), dec(mu, 3), "%de-%d" % (cv, cexp)]


@st.composite
def case_strategy(draw, tier):
    u = draw(st.sampled_from(["METRIC", "FIELD", "LAB", "FIELD", "LAB", "PVT-M"]))
    nreg = draw(st.sampled_from([1, 2, 3]))
    okind = draw(st.sampled_from(["PVTO", "PVTO", "PVTO", "PVDO", "PVCDO"]))
    gkind = draw(st.sampled_from(["PVTG", "PVTG", "PVDG"]))

    def tables(make):
        res = []
        for r in range(nreg):
            if r and draw(ints(0, 5)) == 0:
                res.append(None)            # lone slash: copy of the previous region
            else:
                res.append(draw(make))
        return res

    if okind == "PVTO":
        oil = tables(pvto_table(u))
    elif okind == "PVDO":
        oil = tables(pvd_table(u, False))
    else:
        # (a defaulted PVCDO record is rejected by the parser layer: "PVCDO reference pressure cannot be defaulted")
        oil = [draw(cc_record(u)) for _ in range(nreg)]
    gas = tables(pvtg_table(u)) if gkind == "PVTG" else tables(pvd_table(u, True))
    water = tables(cc_record(u))
    d = DEC[u]
    dens = []
    for r in range(nreg):
        o, w, g = draw(ints(600, 950)), draw(ints(990, 1100)), draw(ints(600, 1500))
        f = UNITS[u]["rho"]
        dens.append([dec(int(round(o / f * 10 ** d["rho"])), d["rho"]),
                     dec(int(round(w / f * 10 ** d["rho"])), d["rho"]),
                     dec(max(1, int(round(g / 1000.0 / f * 10 ** d["rho"]))), d["rho"])])
    ts = draw(st.lists(ints(1, 999), min_size=6, max_size=6))
    return {"units": u, "nreg": nreg, "oil": {"kind": okind, "tables": oil},
            "gas": {"kind": gkind, "tables": gas}, "water": water, "density": dens, "t": ts,
            "disgas": draw(st.booleans()), "vapoil": draw(st.booleans())}


# --------------------------------------------------------------------------- deck text
def deck_text(case):
    u = case["units"]
    n = case["nreg"]
    L = ["RUNSPEC", "DIMENS", " 1 1 1 /", "TABDIMS", " 1 %d /" % n, "OIL", "GAS", "WATER"]
    if case.get("disgas"):
        L.append("DISGAS")
    if case.get("vapoil"):
        L.append("VAPOIL")
    L += [UNITS[u]["kw"], "START", " 1 JAN 2020 /", "GRID", "DX", " 100 /", "DY", " 100 /", "DZ", " 10 /",
          "TOPS", " 1000 /", "PORO", " 0.2 /", "PERMX", " 100 /", "PROPS", "DENSITY"]
    for o, w, g in case["density"]:
        L.append(" %s %s %s /" % (o, w, g))

    def cc(name, tabs):
        L.append(name)
        for t in tabs:
            L.append(" /" if t is None else " " + " ".join(t) + " /")

    def pvd(name, tabs):
        L.append(name)
        for t in tabs:
            if t is None:
                L.append("/")
            else:
                for i, r in enumerate(t):
                    L.append(" " + " ".join(r) + (" /" if i == len(t) - 1 else ""))

    def pvtx(name, tabs):
        L.append(name)
        for t in tabs:
            if t is not None:
                for node in t:
                    rows = node["rows"]
                    for j, r in enumerate(rows):
                        L.append((" %s " % node["x"] if j == 0 else "      ") + " ".join(r) +
                                 (" /" if j == len(rows) - 1 else ""))
            L.append("/")

    cc("PVTW", case["water"])
    ok, gk = case["oil"]["kind"], case["gas"]["kind"]
    {"PVTO": pvtx, "PVDO": pvd, "PVCDO": cc}[ok](ok, case["oil"]["tables"])
    {"PVTG": pvtx, "PVDG": pvd}[gk](gk, case["gas"]["tables"])
    L += ["SCHEDULE", ""]
    return "\n".join(L)


def ratio_curv(Y, C, j):
    """bound of |c'/c| on the segments of the line (Y, C) adjacent to node j (c linear between nodes, > 0)"""
    k = 0.0
    for a in (j - 1, j):
        if 0 <= a and a + 1 < len(Y):
            k = max(k, abs(C[a + 1] - C[a]) / (abs(Y[a + 1] - Y[a]) * min(C[a], C[a + 1])))
    return k


def resolve(tabs):
    """lone-slash regions are copies of the previous region (Eclipse manual, PVT keywords)"""
    out = []
    for t in tabs:
        out.append(out[-1] if t is None else t)
    return out


# --------------------------------------------------------------------------- the check
class Q:
    """one query + what the oracle expects of it"""
    __slots__ = ("ph", "fn", "reg", "p", "r", "hp", "hr", "exp", "lo", "hi", "where", "tol", "key", "ad_p", "ad_r", "scale", "nd", "curv", "pmax", "rmax")

    def __init__(self, ph, fn, reg, p, r, where, exp=None, lo=None, hi=None, tol=1e-10, key=None,
                 ad_p=True, ad_r=True, scale=0.0, nd=None, curv=0.0):
        self.scale = scale
        # curv: bound of |c'/c| next to a node for functions that are a ratio a/c of two linear interpolants
        # (f'' = -2 (c'/c) f'): the one-sided difference quotient is then off by h |c'/c| relative
        self.curv = curv
        self.pmax = self.rmax = 0.0       # largest pressure / ratio of the table the point belongs to
        # nd: direction ("p"/"r") along which this point is a table node whose neighbouring segments are much wider
        # than the difference step (the only kink inside the step is the node itself)
        self.nd = nd
        self.ph, self.fn, self.reg, self.p, self.r = ph, fn, reg, p, r
        self.where, self.exp, self.lo, self.hi, self.tol, self.key = where, exp, lo, hi, tol, key
        self.ad_p, self.ad_r = ad_p, ad_r
        self.hp = self.hr = 0.0


class C14(Check):
    ID = "C14"
    PROBE_GROUP = "pvt"
    RULE = ("Decks with 1..3 PVT regions (later regions sometimes defaulted = copy of the previous one), unit system "
            "METRIC/FIELD/LAB/PVT-M, oil as PVTO (2..8 Rs nodes, 1..5 rows per node, last >= 2) | PVDO | PVCDO, gas as "
            "PVTG (2..8 pressure nodes, 1..5 Rv rows) | PVDG, water PVTW; tables are physically ordered (pressures, Rs, "
            "saturated Bo and Rv increasing, undersaturated Bo and Bg(p) decreasing, viscosities positive) and written "
            "as exact decimals.  Every table node, one point inside every table segment (undersaturated lines and "
            "saturated line), the saturated line itself (p, Rs_sat(p)), interior 2-D points and points beyond every "
            "table end are evaluated with double and Evaluation<double,3> arguments (plus neighbours at +-h and "
            "+-100h in p and Rs/Rv for the difference quotients).  Half of the saturated Rs(p)/Rv(p) curves are made "
            "convex or concave, the others keep the drawn (possibly S-shaped) increments.  Non-trivial: a live-oil or wet-gas table with >= 4 outer nodes of which at "
            "least one non-final node has a single row (forces the extension from the master table), in a "
            "non-METRIC unit system; distinct by (units, keyword kinds, rows-per-node shape of every table).")
    ASSUMPTIONS = [
        "thermal, brine, CO2/H2 and PVTGW/PVTSOL variants are outside the property",
        "tables are physically ordered; saturated Rs(p) and Rv(p) strictly increasing (so that the saturation pressure "
        "is the inverse function); unordered tables are not generated",
        "2-D bracketing between different Rs (resp. pressure) lines and values beyond the table ends are not asserted "
        "(only AD consistency and finiteness there)",
        "double and Evaluation results are compared to 1e-11 relative (Evaluation divides by multiplying with the "
        "reciprocal, so bit equality is not a property of the code)",
        "derivatives are compared with difference quotients of the double-valued function for two step sizes (1e-7 and "
        "1e-5 relative); a derivative is rejected only if it disagrees with both; a point whose left and right "
        "quotients differ (table kink inside the step) is undecided, except along a table line at a node of that line, "
        "where the derivative must lie between the one-sided slopes",
        "at table nodes derivatives are checked along the table line only (across the lines several pieces of the guided "
        "2-D interpolation meet and AD returns the gradient of one of them)",
        "no derivative check for the compositions f(p, Rsat(p)); the rounding-noise allowance of the quotients is an "
        "a-priori estimate (2^7 ulps of the first-order term sizes) times a safety factor 100",
        "points beyond the last Rs (PVTO) / pressure (PVTG) node go at most one node spacing beyond it",
        "violations of the saturation-pressure inversion on tables whose saturated curve is neither convex nor concave "
        "carry the key psat-newton-fails-on-s-shaped-table; on convex/concave curves (where Newton's method converges "
        "from any start) they carry no key",
        "no Rv-derivative is asserted on the first PVTG pressure line when its saturated Rv is 0 (corner of the guided "
        "interpolation where Rv/Rv_sat is 0/0)",
        "link-time placeholders for the CO2/H2 property tables (empty .inc files in this sandbox) are never read",
    ]
    # measured: 0.15 s per deck and shard on an idle machine (EclipseState construction dominates), up to 1 s when the
    # 16 cores are shared; the soft time cap keeps the tiers inside 3 / 20 minutes either way
    EXAMPLES = {"quick": 120, "thorough": 3000}
    MIN_EVALS = {"quick": 500, "thorough": 8000}
    TIME_CAP = {"quick": 140, "thorough": 1000}
    LEVEL_TEXT = ("Generated-input search with an independent table oracle: node exactness of B, mu, Rs/Rv against the "
                  "numbers written into the deck (own unit table), bracketing inside every 1-D table segment, "
                  "continuity of undersaturated functions on the saturated line (at and between nodes), inversion "
                  "of the saturated Rs/Rv relation by saturationPressure, closed forms for PVTW/PVCDO, and AD "
                  "derivatives against difference quotients of the double-valued function at every evaluated point.")
    LEVEL_NOTE = ("Trusted: the Eclipse keyword semantics as typed into the generator (column order, units, lone-slash "
                  "copy rule) and the Python unit table.  Sampling only: no exhaustive part.  Derivative checks are "
                  "undecided at points with a table kink inside the difference step (counted in the class histogram as "
                  "ad:undecided-kink-or-noise).  Two genuine defects are listed in known_findings.jsonl and suppressed by "
                  "signature only; every other point of the same deck is still judged.")
    TECHNIQUE = "property-based testing: Hypothesis deck generator, independent table/closed-form oracle, metamorphic AD-vs-difference-quotient relation"

    def strategy(self, tier):
        return case_strategy(tier)

    # ------------------------------------------------------------ classification
    @staticmethod
    def _shape(tabs, pvtx):
        out = []
        for t in tabs:
            if t is None:
                out.append("copy")
            elif pvtx:
                out.append([len(n["rows"]) for n in t])
            else:
                out.append(len(t))
        return out

    def classify(self, case):
        u = case["units"]
        ok, gk = case["oil"]["kind"], case["gas"]["kind"]
        labels = ["units:" + u, "oil:" + ok, "gas:" + gk, "nreg:%d" % case["nreg"]]
        nontriv = False
        copied = False
        for kind, tabs in ((ok, case["oil"]["tables"]), (gk, case["gas"]["tables"])):
            if any(t is None for t in tabs):
                copied = True
            if kind not in ("PVTO", "PVTG"):
                continue
            for t in tabs:
                if t is None:
                    continue
                single = any(len(n["rows"]) == 1 for n in t[:-1])
                if single:
                    labels.append(kind.lower() + ":single-row-branch")
                if len(t) >= 4:
                    labels.append(kind.lower() + ":>=4nodes")
                if single and len(t) >= 4 and u != "METRIC":
                    nontriv = True
        if copied or any(t is None for t in case["water"]):
            labels.append("region-copied")
        if nontriv:
            labels.append("nontrivial")
        fp = sha([u, ok, gk, self._shape(case["oil"]["tables"], ok == "PVTO"),
                  self._shape(case["gas"]["tables"], gk == "PVTG"),
                  ["copy" if t is None else 1 for t in case["water"]]], 16)
        return nontriv, fp, sorted(set(labels))

    def known_key(self, case, viol):
        k = viol.get("key")
        return None if k in IGNORE_KNOWN else k

    def sample_view(self, case):
        return {"units": case["units"], "nreg": case["nreg"], "oil": case["oil"]["kind"], "gas": case["gas"]["kind"],
                "oil_shape": self._shape(case["oil"]["tables"], case["oil"]["kind"] == "PVTO"),
                "gas_shape": self._shape(case["gas"]["tables"], case["gas"]["kind"] == "PVTG"),
                "first_oil_table": case["oil"]["tables"][0]}

    def floors(self, tier):
        return {"nontrivial": 0.08, "oil:PVTO": 0.3, "gas:PVTG": 0.3, "units:FIELD": 0.15, "units:LAB": 0.15,
                "region-copied": 0.05}

    # ------------------------------------------------------------ query construction
    def queries(self, case):
        u = UNITS[case["units"]]
        ts = [t / 1000.0 for t in case["t"]]
        tk = [0]

        def nt():
            tk[0] += 1
            return ts[tk[0] % len(ts)]

        qs = []
        ok, gk = case["oil"]["kind"], case["gas"]["kind"]
        oil = resolve(case["oil"]["tables"])
        gas = resolve(case["gas"]["tables"])
        wat = resolve(case["water"])
        for reg in range(case["nreg"]):
            if ok == "PVTO":
                self.q_pvtx(qs, "o", reg, oil[reg], u, nt)
            elif ok == "PVDO":
                self.q_pvd(qs, "o", reg, oil[reg], u["p"], 1.0, nt)
            else:
                self.q_cc(qs, "o", reg, oil[reg], u, nt)
            if gk == "PVTG":
                self.q_pvtx(qs, "g", reg, gas[reg], u, nt)
            else:
                self.q_pvd(qs, "g", reg, gas[reg], u["p"], u["rv"], nt)
            self.q_cc(qs, "w", reg, wat[reg], u, nt)
        return qs

    def q_pvd(self, qs, ph, reg, rows, fp, fb, nt):
        P = [float(r[0]) * fp for r in rows]
        IB = [1.0 / (float(r[1]) * fb) for r in rows]
        M = [float(r[2]) * CP for r in rows]
        C = [a / b for a, b in zip(IB, M)]
        n0 = len(qs)
        for j in range(len(rows)):
            w = "%s-node%d" % ("pvdo" if ph == "o" else "pvdg", j)
            for fn, e in ((INVB, IB[j]), (SAT_INVB, IB[j]), (MU, M[j]), (SAT_MU, M[j])):
                qs.append(Q(ph, fn, reg, P[j], 0.0, w, exp=e, ad_r=False, nd="p",
                            curv=ratio_curv(P, C, j) if fn in (MU, SAT_MU) else 0.0))
            if j + 1 < len(rows):
                p = P[j] + nt() * (P[j + 1] - P[j])
                w = "%s-seg%d" % ("pvdo" if ph == "o" else "pvdg", j)
                for fn, a, b in ((INVB, IB[j], IB[j + 1]), (SAT_INVB, IB[j], IB[j + 1]),
                                 (MU, M[j], M[j + 1]), (SAT_MU, M[j], M[j + 1])):
                    qs.append(Q(ph, fn, reg, p, 0.0, w, lo=min(a, b), hi=max(a, b), ad_r=False))
        for p in (P[0] * (0.2 + 0.7 * nt()), P[-1] * (1.05 + nt())):
            for fn in (INVB, MU, SAT_INVB, SAT_MU):
                qs.append(Q(ph, fn, reg, p, 0.0, "beyond", ad_r=False))
        for q in qs[n0:]:
            q.pmax = P[-1]

    def q_cc(self, qs, ph, reg, rec, u, nt):
        pref = float(rec[0]) * u["p"]
        bref = float(rec[1])
        c = float(rec[2]) / u["p"]
        mref = float(rec[3]) * CP
        cv = float(rec[4]) / u["p"]
        pts = [pref, pref * (0.1 + 0.8 * nt()), pref * (1.1 + 3 * nt()), 1.0e5 + 9.0e7 * nt()]
        for k, p in enumerate(pts):
            # Eclipse manual, PVTW/PVCDO: B(p) = Bref / (1 + X + X^2/2), X = C (p - pref);
            #   mu(p) B(p) = muref Bref / (1 + Y + Y^2/2), Y = (C - Cv)(p - pref)
            x = c * (p - pref)
            y = (c - cv) * (p - pref)
            invb = (1.0 + x + x * x / 2.0) / bref
            mu = mref * bref * invb / (1.0 + y + y * y / 2.0)
            w = ("pvtw" if ph == "w" else "pvcdo") + ("-pref" if k == 0 else "-off")
            # tolerance 1e-12: a handful of roundings in either evaluation order; X, Y are O(1e-2) at most so
            # the polynomial is far from cancellation
            for fn, e in ((INVB, invb), (SAT_INVB, invb), (MU, mu), (SAT_MU, mu)):
                qs.append(Q(ph, fn, reg, p, 0.0, w, exp=e, tol=1e-12, ad_r=False))
                qs[-1].pmax = max(pts)

    def q_pvtx(self, qs, ph, reg, nodes, u, nt):
        """PVTO (ph 'o': outer = Rs, inner = p) and PVTG (ph 'g': outer = p, inner = Rv)"""
        oil = ph == "o"
        nm = "pvto" if oil else "pvtg"
        if oil:
            X = [float(n["x"]) * u["rs"] for n in nodes]                       # Rs
            Y = [[float(r[0]) * u["p"] for r in n["rows"]] for n in nodes]      # p
            IB = [[1.0 / float(r[1]) for r in n["rows"]] for n in nodes]
        else:
            X = [float(n["x"]) * u["p"] for n in nodes]                        # p
            Y = [[float(r[0]) * u["rv"] for r in n["rows"]] for n in nodes]     # Rv
            IB = [[1.0 / (float(r[1]) * u["rv"]) for r in n["rows"]] for n in nodes]
        M = [[float(r[2]) * CP for r in n["rows"]] for n in nodes]
        C = [[a / b for a, b in zip(IB[i], M[i])] for i in range(len(nodes))]
        n = len(nodes)
        n0 = len(qs)

        def pr(x, y):
            """(pressure, ratio) from (outer, inner)"""
            return (y, x) if oil else (x, y)

        PS = [Y[i][0] for i in range(n)] if oil else X          # saturated pressures
        RS = X if oil else [Y[i][0] for i in range(n)]          # saturated Rs / Rv
        rscale = max(RS)
        incr = all(RS[i] < RS[i + 1] for i in range(n - 1))
        # Newton's method on an increasing piecewise linear function converges from every starting point when the
        # function is convex or concave (monotone iterates after the first step).  For other shapes (flat-steep-flat)
        # it need not; violations of (iv) on such tables carry their own key (classification of the INPUT only).
        sl = [(RS[i + 1] - RS[i]) / (PS[i + 1] - PS[i]) for i in range(n - 1)]
        cc = all(a <= b for a, b in zip(sl, sl[1:])) or all(a >= b for a, b in zip(sl, sl[1:]))
        pkey = None if cc else "psat-newton-fails-on-s-shaped-table"
        for i in range(n):
            rows = len(Y[i])
            for j in range(rows):
                p, r = pr(X[i], Y[i][j])
                w = "%s-node" % nm
                # Derivatives at a node are checked along the table line only.  Across the lines the guided
                # interpolation moves the evaluation points on the two neighbouring lines with the outer variable, so
                # at a node several pieces meet and the gradient AD returns (that of one of them) need not be a
                # one-sided slope in the cross direction.
                along = dict(ad_p=oil, ad_r=not oil)
                qs.append(Q(ph, INVB, reg, p, r, w, exp=IB[i][j], nd="p" if oil else "r", **along))
                # (a single-row line is extended by the library with numbers the oracle does not know)
                if rows == 1:
                    along = dict(ad_p=False, ad_r=False)
                qs.append(Q(ph, MU, reg, p, r, w, exp=M[i][j], nd=("p" if oil else "r") if rows > 1 else None,
                            curv=ratio_curv(Y[i], C[i], j), **along))
                if j + 1 < rows:
                    t = nt()
                    p2, r2 = pr(X[i], Y[i][j] + t * (Y[i][j + 1] - Y[i][j]))
                    w = "%s-undersat-seg" % nm
                    qs.append(Q(ph, INVB, reg, p2, r2, w, lo=min(IB[i][j], IB[i][j + 1]), hi=max(IB[i][j], IB[i][j + 1])))
                    qs.append(Q(ph, MU, reg, p2, r2, w, lo=min(M[i][j], M[i][j + 1]), hi=max(M[i][j], M[i][j + 1])))
            # beyond the far end of the undersaturated line
            if oil:
                p2, r2 = Y[i][-1] * (1.02 + nt()), X[i]
            else:
                p2, r2 = X[i], Y[i][-1] * nt() * 0.9 if Y[i][-1] > 0 else 0.0
            qs.append(Q(ph, INVB, reg, p2, r2, "beyond"))
            qs.append(Q(ph, MU, reg, p2, r2, "beyond"))
            # saturated functions at the node
            w = "%s-sat-node" % nm
            qs.append(Q(ph, SAT_INVB, reg, PS[i], 0.0, w, exp=IB[i][0], ad_r=False, nd="p"))
            qs.append(Q(ph, SAT_MU, reg, PS[i], 0.0, w, exp=M[i][0], ad_r=False, nd="p",
                        curv=ratio_curv(PS, [C[k][0] for k in range(n)], i)))
            qs.append(Q(ph, SAT_R, reg, PS[i], 0.0, w, exp=RS[i], ad_r=False, scale=rscale, nd="p"))
            if incr:
                # Newton stops at |delta| < 2.2e-10 p; one further decade is left for the last step
                qs.append(Q(ph, PSAT, reg, 0.0, RS[i], w, exp=PS[i], tol=1e-6, ad_p=False, key=pkey, nd="r"))
            if i + 1 < n:
                t = nt()
                p = PS[i] + t * (PS[i + 1] - PS[i])
                w = "%s-sat-seg" % nm
                for fn, a, b in ((SAT_INVB, IB[i][0], IB[i + 1][0]), (SAT_MU, M[i][0], M[i + 1][0]),
                                 (SAT_R, RS[i], RS[i + 1])):
                    qs.append(Q(ph, fn, reg, p, 0.0, w, lo=min(a, b), hi=max(a, b), ad_r=False))
                # the saturated line itself: (p, Rsat(p)) evaluated by chaining the library's own functions
                # (no derivative check for the compositions: the sensitivity to the inner Rsat(p) is not observable
                #  in their result, so the rounding noise of the difference quotients cannot be bounded; the parts are
                #  checked on their own)
                qs.append(Q(ph, C_INVB, reg, p, 0.0, w + "-cont", ad_p=False, ad_r=False))
                qs.append(Q(ph, C_MU, reg, p, 0.0, w + "-cont", ad_p=False, ad_r=False))
                if incr:
                    qs.append(Q(ph, C_PSAT, reg, p, 0.0, w + "-cont", exp=p, tol=1e-6, ad_p=False, ad_r=False,
                                key=pkey))
                # interior 2-D point: between the two lines, on the single-phase side of the saturated line
                xm = X[i] + nt() * (X[i + 1] - X[i])
                if oil:
                    p2, r2 = max(Y[i][0], Y[i + 1][0]) * (1.0 + nt()), xm
                else:
                    p2, r2 = xm, min(Y[i][0], Y[i + 1][0]) * nt()
                qs.append(Q(ph, INVB, reg, p2, r2, "interior-2d"))
                qs.append(Q(ph, MU, reg, p2, r2, "interior-2d"))
        # beyond the ends of the saturated line
        for p in (PS[0] * (0.2 + 0.7 * nt()), PS[-1] * (1.05 + nt())):
            for fn in (SAT_INVB, SAT_MU, SAT_R):
                qs.append(Q(ph, fn, reg, p, 0.0, "beyond", ad_r=False))
        # beyond the last outer node by at most one outer spacing: a point extrapolated far in BOTH table directions
        # is a sum of cancelling bilinear terms alpha*beta*dv whose rounding noise no first derivative bounds
        xo = X[-1] + nt() * (X[-1] - X[-2])
        p2, r2 = pr(xo, Y[-1][0] * (1.3 if oil else 0.5))
        qs.append(Q(ph, INVB, reg, p2, r2, "beyond"))
        qs.append(Q(ph, MU, reg, p2, r2, "beyond"))
        pmax = max(max(PS), max(max(y) for y in Y) if oil else 0.0)
        for q in qs[n0:]:
            if not oil and RS[0] == 0.0 and q.p == X[0] and q.fn in (INVB, MU):
                # The guided (RightExtreme) interpolation scales its shift with Rv / Rv_sat(p).  Where the saturated
                # curve itself starts at Rv = 0 the point (p0, 0) is a corner at which that ratio is 0/0: the
                # function has no slope in the Rv direction there, so no derivative is asserted.
                q.ad_r = False
            q.hr = HREL * max(abs(q.r), 0.05 * rscale) if q.ad_r else 0.0
            q.pmax, q.rmax = pmax, rscale

    # ------------------------------------------------------------ oracle
    def check(self, case, ctx):
        qs = self.queries(case)
        for q in qs:
            q.hp = HREL * q.p if q.ad_p else 0.0
            if not q.ad_r:
                q.hr = 0.0
        wire = [[q.ph, q.fn, q.reg, q.p.hex(), float(q.r).hex(), float(q.hp).hex(), float(q.hr).hex()] for q in qs]
        rep = ctx.P.call("pvt_eval", deck=deck_text(case), queries=wire, big=BIG)
        want_o = {"PVTO": "live", "PVDO": "dead", "PVCDO": "constcomp"}[case["oil"]["kind"]]
        want_g = {"PVTG": "wet", "PVDG": "dry"}[case["gas"]["kind"]]
        ap = rep["approach"]
        if (ap["oil"], ap["gas"], ap["water"]) != (want_o, want_g, "constcomp"):
            return {"rule": "multiplexer selects the PVT model of the keyword present in the deck",
                    "detail": [ap, want_o, want_g], "key": None}
        if set(rep["nreg"].values()) != {case["nreg"]}:
            return {"rule": "number of PVT regions", "detail": [rep["nreg"], case["nreg"]], "key": None}
        res = rep["res"]
        byq = {}
        for q, r in zip(qs, res):
            byq[(q.ph, q.fn, q.reg, q.p, q.r)] = r
        keyed = None
        for q, r in zip(qs, res):
            v = self.judge(case, q, r, byq, ctx)
            if v is not None:
                if v.get("key") is None or v["key"] in IGNORE_KNOWN:
                    return v
                # a violation with a key may be a listed known finding: keep judging the remaining points so that
                # a suppressed signature never hides anything else in the same deck
                if keyed is None:
                    keyed = v
                    ctx.label("first-keyed-violation:" + v["key"])
        return keyed

    def describe(self, q, r):
        return {"phase": q.ph, "fn": FN_NAME[q.fn], "region": q.reg, "p": q.p, "r": q.r, "where": q.where,
                "result": r if isinstance(r, dict) else [hexf(x) for x in r]}

    def judge(self, case, q, r, byq, ctx):
        def V(rule, extra=None, key=None):
            d = self.describe(q, r)
            if extra is not None:
                d["expected"] = extra
            return {"rule": rule, "detail": d, "key": key}

        promised = q.exp is not None or q.lo is not None or q.where.endswith("-cont")
        if isinstance(r, dict):
            if q.fn in (PSAT, C_PSAT) and q.exp is not None:
                return V("(iv) saturationPressure inverts the saturated Rs/Rv relation: it throws inside the table",
                         q.exp, key=q.key)
            if promised:
                return V("evaluation throws at a point inside the table")
            ctx.label("beyond:throws")
            return None
        vd, va, dp, dr, _dt, fpm, fpp, frm, frp, gpm, gpp, grm, grp = [hexf(x) for x in r]
        if not all(map(math.isfinite, (vd, va, dp, dr))):
            if promised:
                return V("non-finite value inside the table")
            return V("non-finite value at a point beyond the table (extrapolate=true is requested by the model)")
        # ---- (v) value of the Evaluation == double value
        # size of the terms that are added up inside an interpolation formula: value + slope * distance to the
        # sample points, the distance being bounded by a multiple of the table extent (extrapolated points, shifted
        # lines of the guided 2-D interpolation)
        mag = abs(vd) + 16 * (abs(dp) * max(q.p, q.pmax) + abs(dr) * max(abs(q.r), q.rmax))
        comp = {MU: INVB, SAT_MU: SAT_INVB, C_MU: C_INVB}.get(q.fn)
        if comp is not None and vd != 0.0:
            # the viscosity is returned as the ratio a/c of the interpolants a = 1/B and c = 1/(B mu); its own
            # derivatives say nothing about the size of the terms inside a and c (a constant viscosity has slope 0
            # while a and c are extrapolated with large cancelling terms).  The companion query gives a and its
            # derivatives; c = a/mu, so |dc|/c <= |da|/a + |dmu|/mu: relative term size of mu <= 2 rel(a) + rel(mu)
            cq = byq.get((q.ph, comp, q.reg, q.p, q.r))
            if isinstance(cq, list):
                ca, _, cdp, cdr = [hexf(x) for x in cq[:4]]
                if ca != 0.0 and all(map(math.isfinite, (ca, cdp, cdr))):
                    maga = abs(ca) + 16 * (abs(cdp) * max(q.p, q.pmax) + abs(cdr) * max(abs(q.r), q.rmax))
                    mag = abs(vd) * (2 * maga / abs(ca) + mag / abs(vd))
        # 1e-11: the Evaluation path divides by multiplying with a reciprocal (1 ulp per division), a handful of
        # operations, relative to mag (cancellation covered)
        if abs(vd - va) > 1e-11 * mag + 1e-300:
            return V("(v) value() of the Evaluation result differs from the double result", [vd, va])
        # the oracle's (p, r) may differ from the library's node by one rounding of the unit factor each: the value
        # then moves by |df/dp| p eps + |df/dr| r eps (a few of them)
        pos = 8 * EPS * (abs(dp) * q.p + abs(dr) * abs(q.r))
        # ---- (i) node exactness / closed forms / (iv) saturation pressure
        if q.exp is not None:
            # Rs/Rv nodes may be exactly 0: a pressure that differs from the library's node by one rounding of the
            # unit factor moves the interpolant by slope*p*1e-16 <= column maximum * (p/dp <= 1e4) * 1e-16
            if abs(vd - q.exp) > q.tol * abs(q.exp) + 1e-11 * q.scale + pos + 1e-300:
                if q.fn in (PSAT, C_PSAT):
                    return V("(iv) saturationPressure(Rs_sat(p)) != p inside the table", q.exp, key=q.key)
                if q.where.startswith(("pvtw", "pvcdo")):
                    return V("(vi) PVTW/PVCDO closed form", q.exp)
                return V("(i) table node is not honoured", q.exp)
            ctx.label("checked:" + ("psat" if q.fn in (PSAT, C_PSAT) else "closed-form" if q.tol == 1e-12 else "node"))
        # ---- (ii) bracketing inside a 1-D table segment
        if q.lo is not None:
            # 1e-12 slack: both ends are reproduced to ~1 ulp by a linear interpolant / a ratio of two of them
            s = 1e-12 * max(abs(q.lo), abs(q.hi)) + pos
            if not (q.lo - s <= vd <= q.hi + s):
                return V("(ii) value between two adjacent nodes leaves the interval of the node values", [q.lo, q.hi])
            ctx.label("checked:bracket")
        # ---- (iii) continuity: undersaturated function on the saturated line == saturated function
        if q.fn in (C_INVB, C_MU) and q.where.endswith("-cont"):
            sat = byq.get((q.ph, SAT_INVB if q.fn == C_INVB else SAT_MU, q.reg, q.p, 0.0))
            if isinstance(sat, list):
                vs = hexf(sat[0])
                # 1e-9: both sides are short interpolation formulas of the same table numbers
                if abs(vd - vs) > 1e-9 * abs(vs):
                    key = "pvto-undersat-sat-mismatch-between-rs-nodes" if q.ph == "o" else None
                    return V("(iii) undersaturated function evaluated on the saturated line (p, Rsat(p)) between two "
                             "nodes differs from the saturated function", vs, key=key)
                ctx.label("checked:continuity-between-nodes")
        if q.fn in (INVB, MU) and q.where.endswith("-node") and q.exp is not None:
            pass  # continuity at nodes is implied by (i) on both the undersaturated and the saturated function
        # ---- (v) derivatives vs difference quotients of the double-valued function
        for name, h0, d, nb in (("p", q.hp, dp, ((fpm, fpp), (gpm, gpp))), ("r", q.hr, dr, ((frm, frp), (grm, grp)))):
            if h0 == 0.0:
                continue
            verdicts = []
            for (fm, fp_), h in zip(nb, (h0, BIG * h0)):
                if not (math.isfinite(fm) and math.isfinite(fp_)):
                    verdicts.append(("skip", None))
                    continue
                sl, sr = (vd - fm) / h, (fp_ - vd) / h
                big = max(abs(sl), abs(sr))
                # rounding of one function value: a sum of terms of size mag with a few roundings each, the viscosity
                # a ratio of two such sums -> ~2^7 ulps of mag; difference of two such values, over h.  mag is only a
                # first-order estimate of the term sizes (ill-conditioned interpolation weights, e.g. a tiny Rs
                # spacing at a large Rs combined with a large guide shift, are second-order effects), hence a further
                # safety factor 100.  With the wide step that still is 1e-6 * (mag / |f' x|).
                noise = 100 * 4 * 128 * EPS * max(mag, abs(fm), abs(fp_)) / h
                info = {"left": sl, "right": sr, "ad": d, "h": h}
                if abs(sl - sr) <= 1e-6 * big + noise:
                    # smooth inside the step: the central quotient has error O(h^2) + noise
                    ok = abs(d - 0.5 * (sl + sr)) <= 1e-6 * big + noise
                    verdicts.append(("S_ok" if ok else "S_fail", info))
                elif q.nd == name:
                    # a table node along a table line: the function is linear (or a smooth ratio a/c) on either side
                    # over a width >> h, so a derivative "equal to the slope of the returned function" is one of the
                    # one-sided slopes or lies between them; one-sided quotient of a/c: truncation h |c'/c| (x2 margin)
                    tol = (1e-6 + 2 * h * q.curv) * big + noise
                    ok = min(sl, sr) - tol <= d <= max(sl, sr) + tol
                    verdicts.append(("N_ok" if ok else "N_fail", info))
                else:
                    verdicts.append(("kink", info))
            small, wide = verdicts[0][0], verdicts[1][0]
            # A derivative is rejected only if it disagrees with the quotients of BOTH step sizes (a kink inside a
            # step never counts against it: clusters of small kinks next to table nodes can average out to equal
            # left and right quotients in the wide step).
            if small in ("S_fail", "N_fail") and wide in ("S_fail", "N_fail"):
                return V("(v) derivative wrt %s from the Evaluation differs from the slope of the double-valued "
                         "function (difference quotients with two step sizes)" % name, [v[1] for v in verdicts])
            if wide == "S_ok" or small == "S_ok":
                ctx.label("checked:ad-" + name)
            elif small == "N_ok" or wide == "N_ok":
                ctx.label("checked:ad-" + name + "-at-node")
            else:
                ctx.label("ad:undecided-kink-or-noise")
        return None
