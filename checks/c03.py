"""C03 - the schedule is causal: state at step k depends only on input up to step k."""
import glob
import json
import re
import os

from hypothesis import strategies as st

from vlib import modelgen as MG
from vlib import schedcut
from vlib.runner import Check, Discard, sha
from vlib.probe import LibError

REPO = os.environ.get("VERIF_REPO", "/repo")
SHIPPED = sorted(glob.glob(os.path.join(REPO, "tests", "*.DATA")))


def first_diff(x, y, path=""):
    if type(x) != type(y):
        return path, x, y
    if isinstance(x, list):
        if len(x) != len(y):
            return path + "/len", len(x), len(y)
        for i, (u, v) in enumerate(zip(x, y)):
            r = first_diff(u, v, "%s/%d" % (path, i))
            if r:
                return r
        return None
    return None if x == y else (path, x, y)


def end_time_index(prev_state, last_state):
    """top-level position of the state's end time: unset (null) in the last state of a deck, a ms-epoch integer before"""
    idx = [i for i, (a, b) in enumerate(zip(prev_state, last_state))
           if b is None and isinstance(a, int) and not isinstance(a, bool) and a > 10 ** 11]
    return idx


ALLKINDS = list(MG.GENERATORS) + list(getattr(MG, "EXTRA_GENERATORS", {}))


ECHO_KINDS = ["rare", "rare", "rare", "wellextra", "wellextra", "groupextra", "wefac", "wecon", "wtest", "gefac", "wgrupcon"]


def perturb(t):
    """the same keyword for the same object with another value: the last decimal number of the first record halved
    (an integer >= 4 likewise); keywords without such a number are re-issued unchanged"""
    lines = t.split("\n")
    if len(lines) < 2:
        return t
    toks = lines[1].split(" ")
    for i in range(len(toks) - 1, -1, -1):
        x = toks[i]
        if re.fullmatch(r"\d+\.\d*(e-?\d+)?|\d*\.\d+(e-?\d+)?|\d+e-?\d+", x):
            toks[i] = repr(float(x) * 0.5)
            break
        if re.fullmatch(r"\d+", x) and int(x) >= 4:
            toks[i] = str(int(x) // 2)
            break
    lines[1] = " ".join(toks)
    return "\n".join(lines)


@st.composite
def case_strategy(draw):
    m = MG.Model()
    p = draw(st.integers(1, 3))
    blocks = [draw(MG.gen_block(m, first=(b == 0), kinds=ALLKINDS)) for b in range(p)]
    # keywords of the open block (belong to the last compared state)
    openkw = []
    for _ in range(draw(st.integers(0, 4))):
        t = draw(MG.gen_kw(m, draw(st.sampled_from(ALLKINDS))))
        if t:
            openkw.append(t)
    # "echo": rarely used keywords in the last block of the prefix come back in the tail for the same well / group with
    # another value - the shape that shows a later keyword editing an object shared with earlier states in place
    echo = []
    if draw(st.booleans()):
        for _ in range(draw(st.integers(1, 3))):
            t = draw(MG.gen_kw(m, draw(st.sampled_from(ECHO_KINDS))))
            if t:
                blocks[-1]["kws"].append(t)
                echo.append(perturb(t))
    ma, mb = m.clone(), m.clone()
    ta, na = draw(MG.gen_time(ma))
    tail_a = [draw(MG.gen_block(ma, kinds=ALLKINDS)) for _ in range(draw(st.integers(1, 3)))]
    if echo:
        k = draw(st.integers(0, len(tail_a) - 1))
        tail_a[k] = dict(tail_a[k], kws=echo + list(tail_a[k]["kws"]))
    tb, nb = draw(MG.gen_time(mb))
    tail_b = [draw(MG.gen_block(mb, kinds=ALLKINDS)) for _ in range(draw(st.integers(0, 3)))]
    final_b = []
    for _ in range(draw(st.integers(0, 2))):
        t = draw(MG.gen_kw(mb, draw(st.sampled_from(ALLKINDS))))
        if t:
            final_b.append(t)
    # T3: the original tail with one keyword dropped or duplicated
    edit = draw(st.tuples(st.integers(0, 50), st.integers(0, 50), st.booleans()))
    unit = draw(st.sampled_from(["METRIC", "METRIC", "FIELD", "LAB", "PVT-M"]))
    return {"unit": unit, "prefix": blocks, "open": openkw, "time_a": ta, "tail_a": tail_a, "time_b": tb, "tail_b": tail_b,
            "final_b": final_b, "edit": list(edit)}


def texts(case):
    pre = MG.prelude(case["unit"])
    head = pre + "".join("".join(b["kws"]) + b["time"] for b in case["prefix"]) + "".join(case["open"])
    K = sum(b["nsteps"] for b in case["prefix"])
    out = {"T0-truncated": head}
    out["T1-original"] = head + case["time_a"] + "".join("".join(b["kws"]) + b["time"] for b in case["tail_a"])
    out["T2-other-tail"] = head + case["time_b"] + "".join("".join(b["kws"]) + b["time"] for b in case["tail_b"]) + "".join(case["final_b"])
    # T3
    bi, ki, dup = case["edit"]
    ta = [dict(b, kws=list(b["kws"])) for b in case["tail_a"]]
    cand = [(i, j) for i, b in enumerate(ta) for j in range(len(b["kws"]))]
    if cand:
        i, j = cand[(bi * 51 + ki) % len(cand)]
        if dup:
            ta[i]["kws"].insert(j, ta[i]["kws"][j])
        else:
            del ta[i]["kws"][j]
        out["T3-edited-tail"] = head + case["time_a"] + "".join("".join(b["kws"]) + b["time"] for b in ta)
    return out, K


class C03(Check):
    ID = "C03"
    PROBE_GROUP = "sched"
    PROBE_ENV = {"OMP_NUM_THREADS": "1"}
    RULE = ("Generated SCHEDULE sections over a curated handler set (WELSPECS COMPDAT WCONPROD WCONINJE WCONHIST WELOPEN WELTARG "
            "WEFAC GEFAC GRUPTREE GCONPROD GCONINJE WGRUPCON WLIST WTEST WECON WPIMULT TUNING NEXTSTEP NUPCOL RPTRST RPTSCHED "
            "MESSAGES SAVE WHISTCTL SUMTHIN RPTONLY DRVDT VAPPARS GUIDERAT WRFTPLT GCONSALE GCONSUMP LIFTOPT GECON WELPI BRANPROP "
            "WTMULT UDQ ACTIONX DATES TSTEP; METRIC/FIELD/LAB) cut immediately before a time keyword; four tails: nothing, the "
            "original tail, an independently generated tail over the same wells/groups (different time keyword too), the original "
            "tail with one keyword dropped/duplicated.  Enumerated: the shipped decks under tests/*.DATA cut before each (quick: up "
            "to 3) DATES/TSTEP keyword versus the full deck.  Oracle: the structural dump of every serialized member of "
            "ScheduleState (unit-system cache and keyword locations canonicalised) of states 0..k is identical across the tails; "
            "only the end time of state k may differ.  Non-trivial: k >= 1 and the tails add keywords naming existing wells/groups; "
            "distinct by text hash."
            " Extended during the build phase: MSW / network / UDA / VFP tables of every axis kind, ~25 rarely used well and group keywords, ~35 keywords with a handler that hardly any deck uses (kw_rare: WSALT WFOAM WPOLYMER WMICP WINJDAM WINJCLN CSKIN COMPORD DRSDT MULTX.. BCPROP SOURCE ...), and the 'echo' shape: rarely used keywords of the last prefix block come back in the tail for the same well / group with another value.")
    ASSUMPTIONS = ["states are compared through their own serializeOp member list (all serialized members, caches canonicalised), "
                   "not through operator== (polluted by the unit-system dimension cache)",
                   "Schedule-global registries (action_wgnames, completed cells, restart output, exit status) are not compared",
                   "a tail that the library rejects is discarded (a later block may legitimately be invalid)"]
    EXAMPLES = {"quick": 200, "thorough": 2500}
    MIN_EVALS = {"quick": 600, "thorough": 12000}
    TIME_CAP = {"quick": 200, "thorough": 1500}
    LEVEL_TEXT = ("Generated-input search with a metamorphic oracle: replacing, removing or editing everything after report step k "
                  "must leave the complete serialized content of states 0..k unchanged; generated schedules plus every shipped deck "
                  "at its time-keyword boundaries.")
    LEVEL_NOTE = ("Trusted: the serializeOp member lists as the definition of a state's content; handlers outside the curated set are "
                  "reached only through the shipped decks.")
    TECHNIQUE = "property-based testing: generated schedules + metamorphic relation (tail replacement / truncation invariance)"

    def strategy(self, tier):
        return case_strategy()

    def enumerate(self, tier):
        for p in SHIPPED:
            try:
                text = open(p, encoding="latin-1").read()
            except OSError:
                continue
            head, sched = schedcut.split_schedule(text)
            if head is None:
                continue
            ends = schedcut.time_keyword_ends(sched)
            if not ends:
                continue
            # cut before time keyword number c (c >= 1): line index where that keyword starts
            starts = []
            i = 0
            for (endline, nsteps) in ends:
                starts.append(nsteps)
            ncut = len(ends)
            picks = list(range(1, ncut)) if tier == "thorough" else sorted(set([1, ncut // 2, ncut - 1]) - {0})
            for c in picks:
                if 0 < c < ncut:
                    yield {"shipped": os.path.relpath(p, REPO), "cut": c}

    def classify(self, case):
        if "shipped" in case:
            return True, "shipped:%s:%d" % (case["shipped"], case["cut"]), ["shipped-deck"]
        K = sum(b["nsteps"] for b in case["prefix"])
        labels = ["unit:" + case["unit"], "prefix-blocks:%d" % len(case["prefix"])]
        alltxt = "".join("".join(b["kws"]) for b in case["prefix"]) + "".join(case["open"])
        tail = "".join("".join(b["kws"]) for b in case["tail_a"] + case["tail_b"]) + "".join(case["final_b"])
        for kw in ("ACTIONX", "UDQ", "WPIMULT", "WELOPEN", "GRUPTREE", "WLIST", "COMPDAT", "WELSPECS", "WELSEGS", "WSEGVALV",
                   "BRANPROP", "NODEPROP", "WCONINJH"):
            if kw + "\n" in alltxt:
                labels.append("prefix:" + kw)
            if kw + "\n" in tail:
                labels.append("tail:" + kw)
        nontriv = K >= 1 and any(("'%s'" % w) in tail for w in ("P1", "I1", "P2", "I2", "G1", "G2", "FIELD"))
        return nontriv, sha(texts(case)[0], 16), labels

    def sample_view(self, case):
        if "shipped" in case:
            return case
        t, K = texts(case)
        return {"k": K, "T2-other-tail": t["T2-other-tail"][len(MG.prelude(case["unit"])):]}

    def compare(self, base, other, K, who):
        """base: dumps of the truncated build (states 0..K), other: dumps of a build with a tail"""
        for j in range(K):
            if base[j] != other[j]:
                d = first_diff(json.loads(base[j]), json.loads(other[j]))
                return {"rule": "state %d (< k=%d) differs between the truncated schedule and %s" % (j, K, who),
                        "detail": {"where(serialized member path)": d[0], "truncated": d[1], who: d[2]}, "key": None}
        a = json.loads(base[K])
        b = json.loads(other[K])
        mask = end_time_index(json.loads(base[K - 1]), a) if K >= 1 else [i for i, v in enumerate(a) if v is None]
        for i in mask:
            if i < len(b):
                b[i] = None
        d = first_diff(a, b)
        if d:
            return {"rule": "state k=%d differs between the truncated schedule and %s" % (K, who),
                    "detail": {"where(serialized member path)": d[0], "truncated": d[1], who: d[2], "masked": mask}, "key": None}
        return None

    def check(self, case, ctx):
        P = ctx.P
        if "shipped" in case:
            p = os.path.join(REPO, case["shipped"])
            text = open(p, encoding="latin-1").read()
            head, sched = schedcut.split_schedule(text)
            ends = schedcut.time_keyword_ends(sched)
            c = case["cut"]
            # keep everything before time keyword number c
            endline_prev, K = ends[c - 1]
            # find the start line of time keyword c: first DATES/TSTEP line at or after endline_prev
            j = endline_prev
            while j < len(sched):
                w = schedcut.strip_comment(sched[j]).strip().split()
                if w and w[0].upper() in ("DATES", "TSTEP") and sched[j][:1] not in " \t":
                    break
                j += 1
            cut_text = "\n".join(head + sched[:j]) + "\n"
            tmp = os.path.join(os.path.dirname(p), "_VCUT_%d.DATA" % os.getpid())
            try:
                full = P.call("sched_states", path=p, steps=list(range(K + 1)))
            except LibError:
                raise Discard()
            try:
                with open(tmp, "w", encoding="latin-1") as f:
                    f.write(cut_text)
                base = P.call("sched_states", path=tmp)
            except LibError as e:
                return {"rule": "the truncated shipped deck is rejected while the full deck builds",
                        "detail": {"deck": case["shipped"], "cut_before_time_keyword": c, "error": str(e)[:400]}, "key": None}
            finally:
                if os.path.exists(tmp):
                    os.unlink(tmp)
            if base["nsteps"] != K + 1:
                raise Discard()     # the cutter mis-counted the steps of this deck (multi-line oddities)
            return self.compare(base["dumps"], full["dumps"], K, "the full deck")
        t, K = texts(case)
        base = P.call("sched_states", text=t["T0-truncated"])        # LibError => generator problem (rejected)
        if base["nsteps"] != K + 1:
            return {"rule": "number of report steps of the truncated schedule", "detail": [base["nsteps"], K + 1], "key": None}
        keyed = None
        for who in ("T1-original", "T2-other-tail", "T3-edited-tail"):
            if who not in t:
                continue
            try:
                o = P.call("sched_states", text=t[who], steps=list(range(K + 1)))
            except LibError as e:
                ctx.label("tail-rejected:" + who)
                if os.environ.get("VERIF_DEBUG"):
                    print("TAIL-REJECT", who, str(e).replace("\n", " | ")[:300], flush=True)
                continue
            ctx.label("tail-compared:" + who)
            r = self.compare(base["dumps"], o["dumps"], K, who)
            if r:
                r["detail"]["texts"] = {"T0": t["T0-truncated"][len(MG.prelude(case["unit"])):], who: t[who][len(MG.prelude(case["unit"])):]}
                # recorded finding: the ALQ type of a VFPPROD table with a defaulted / blank ALQ item is GRAT (31) if
                # LIFTOPT occurs ANYWHERE in the SCHEDULE section (ScheduleStatic::gaslift_opt_active), UNDEF (37)
                # otherwise - a later LIFTOPT changes the table of an earlier report step.  Narrow: exactly that member
                # value pair, a VFPPROD before the cut, LIFTOPT on one side only.
                lift = [bool(re.search(r"(^|\n)LIFTOPT\n", x)) for x in (t["T0-truncated"], t[who])]
                if {r["detail"].get("truncated"), r["detail"].get(who)} == {31, 37} and lift[0] != lift[1] \
                        and "VFPPROD\n" in t["T0-truncated"]:
                    r["key"] = "vfpprod-default-alq-type-follows-LIFTOPT-anywhere"
                    keyed = keyed or r
                    continue
                return r
        return keyed
