"""C18 - ACTIONX conditions evaluate correctly; triggering respects count and wait limits.

Part A: random condition token lists over field / group / well / date quantities, evaluated by the library
        through both entry points (Action::AST(tokens).eval and ACTIONX text -> Parser -> parseActionX ->
        ActionX::eval) and by an independent reference evaluator (own tokenizer, precedence parser and set
        algebra written from the property statement).
Part B: the run gating (max_run / min_wait / start time) driven through the documented protocol
        (Actions::pending -> evaluate -> State::add_run), compared step by step with a reference state machine;
        exhaustively for small parameters (every outcome pattern of every small time sequence) and randomly beyond.
"""
import fnmatch
import itertools
import math

from hypothesis import strategies as st

from vlib.probe import hexf
from vlib.runner import Check, sha

# ----------------------------------------------------------------------------------------------------------------
# reference evaluator (part A)
# ----------------------------------------------------------------------------------------------------------------
CMP = {">": "gt", ".gt.": "gt", "<": "lt", ".lt.": "lt", ">=": "ge", ".ge.": "ge",
       "<=": "le", ".le.": "le", "=": "eq", ".eq.": "eq", "!=": "ne", ".ne.": "ne"}
# Eclipse month mnemonics (JLY is the documented alternative of JUL)
MONTHS = {"JAN": 1, "FEB": 2, "MAR": 3, "APR": 4, "MAY": 5, "JUN": 6, "JUL": 7, "JLY": 7,
          "AUG": 8, "SEP": 9, "OCT": 10, "NOV": 11, "DEC": 12}


class RefError(Exception):
    pass


def dequote(t):
    if len(t) >= 2 and t[0] == "'" and t[-1] == "'":
        return t[1:-1]
    return t


def tok_kind(t):
    low = t.lower()
    if low == "and":
        return "and"
    if low == "or":
        return "or"
    if t in ("(", ")"):
        return t
    if low in CMP:
        return "cmp"
    try:
        float(t)
        return "num"
    except ValueError:
        return "name"


class RefParser:
    """expr := term { OR term } ; term := factor { AND factor } ; factor := '(' expr ')' | comparison ;
    comparison := name {arg} op ( number | name {arg} ).  AND binds tighter than OR (property statement)."""

    def __init__(self, tokens):
        self.t = list(tokens)
        self.i = 0

    def peek(self):
        return tok_kind(self.t[self.i]) if self.i < len(self.t) else "end"

    def take(self):
        tok = self.t[self.i]
        self.i += 1
        return tok

    def parse(self):
        e = self.expr()
        if self.peek() != "end":
            raise RefError("trailing tokens")
        return e

    def expr(self):
        kids = [self.term()]
        while self.peek() == "or":
            self.take()
            kids.append(self.term())
        return kids[0] if len(kids) == 1 else ("or", kids)

    def term(self):
        kids = [self.factor()]
        while self.peek() == "and":
            self.take()
            kids.append(self.factor())
        return kids[0] if len(kids) == 1 else ("and", kids)

    def factor(self):
        if self.peek() == "(":
            self.take()
            e = self.expr()
            if self.peek() != ")":
                raise RefError("missing )")
            self.take()
            return ("paren", e)
        return self.comparison()

    def quantity(self):
        name = self.take()
        args = []
        while self.peek() in ("name", "num"):
            args.append(dequote(self.take()))
        return (name, args)

    def comparison(self):
        if self.peek() != "name":
            raise RefError("lhs must be a quantity")
        lhs = self.quantity()
        if self.peek() != "cmp":
            raise RefError("comparison operator expected")
        op = CMP[self.take().lower()]
        if self.peek() == "num":
            rhs = ("num", float(self.take()))
        elif self.peek() == "name":
            rhs = ("q",) + self.quantity()
        else:
            raise RefError("rhs expected")
        return ("cmp", lhs, op, rhs)


def holds(a, op, b):
    return {"gt": a > b, "lt": a < b, "ge": a >= b, "le": a <= b, "eq": a == b, "ne": a != b}[op]


class Env:
    def __init__(self, case):
        self.f = dict((k, float(v)) for k, v in case["fvals"])
        self.g = dict(((var, g), float(v)) for var, g, v in case["gvals"])
        self.w = {}
        for var, w, v in case["wvals"]:
            self.w.setdefault(var, {})[w] = float(v)
        self.wlists = dict((n, list(ws)) for n, ws in case["wlists"])
        self.s = dict(((var, w, int(seg)), float(v)) for var, w, seg, v in case.get("svals", []))

    def scalar(self, name, args):
        if name[0] == "S" and len(args) == 2:
            # segment-level quantity (well, segment number): one number, i.e. a scalar sub-condition
            return self.s[(name, args[0], int(float(args[1])))]
        if not args:
            if name in self.f:
                return self.f[name]
            if name in MONTHS:
                return float(MONTHS[name])
            raise RefError("unknown scalar " + name)
        if len(args) != 1:
            raise RefError("unsupported argument list")
        if name[0] == "W":
            return self.w[name][args[0]]
        if name[0] == "G":
            return self.g[(name, args[0])]
        raise RefError("unsupported quantity " + name)

    def lhs(self, name, args):
        """-> ('scalar', x) | ('wells', [(well, x)...])"""
        if name[0] == "W" and len(args) == 1:
            a = args[0]
            vals = self.w[name]
            if "*" in a:
                if a[0] == "*" and len(a) > 1:          # well list name ...
                    if a in self.wlists:
                        names = self.wlists[a]
                    else:                               # ... or a template over list names: union of the matching lists
                        names = []
                        for ln in self.wlists:
                            if fnmatch.fnmatchcase(ln[1:], a[1:]):
                                names += [w for w in self.wlists[ln] if w not in names]
                else:                                   # well name template; '\*X' = template starting with '*'
                    patt = a[1:] if a[0] == "\\" else a
                    names = [w for w in sorted(vals) if fnmatch.fnmatchcase(w, patt)]
                return ("wells", [(w, vals[w]) for w in names])
            return ("wells", [(a, vals[a])])
        return ("scalar", self.scalar(name, args))


def nearest_int(x):
    # generator never produces an exact .5 fraction for MNTH right-hand sides
    return float(math.floor(x + 0.5))


def eval_cmp(node, env):
    _, (lname, largs), op, rhs = node
    if rhs[0] == "num":
        r = rhs[1]
        if lname == "MNTH":
            r = nearest_int(r)      # documented: numeric month values are rounded to the nearest integer
    else:
        r = env.scalar(rhs[1], rhs[2])
    kind, val = env.lhs(lname, largs)
    if kind == "scalar":
        return holds(val, op, r), None
    m = frozenset(w for w, x in val if holds(x, op, r))
    return (True, m) if m else (False, None)


def eval_spec(node, env):
    """(truth, set of matching wells | None).  Statement: intersection under AND, union under OR, scalar or
    false sub-conditions contribute no set; a false result has no wells."""
    k = node[0]
    if k == "paren":
        return eval_spec(node[1], env)
    if k == "cmp":
        return eval_cmp(node, env)
    res = [eval_spec(c, env) for c in node[1]]
    if k == "and":
        if not all(b for b, _ in res):
            return False, None
        sets = [s for _, s in res if s is not None]
        if not sets:
            return True, None
        out = sets[0]
        for s in sets[1:]:
            out = out & s
        return True, out
    if not any(b for b, _ in res):
        return False, None
    sets = [s for b, s in res if b and s is not None]
    if not sets:
        return True, None
    out = frozenset()
    for s in sets:
        out = out | s
    return True, out


def eval_quirk(node, env):
    """Used ONLY to recognise one known defect signature (never as the oracle): an OR in which a false
    well-level sub-condition follows a true one leaves an *empty existing* set behind, which a later AND
    intersects with.  Mirrors the left-to-right folding with 'set exists' flags."""
    k = node[0]
    if k == "paren":
        return eval_quirk(node[1], env)
    if k == "cmp":
        b, s = eval_cmp(node, env)
        _, (lname, largs), _, _ = node
        if env.lhs(lname, largs)[0] == "wells":
            return b, (s if s is not None else frozenset())
        return b, None
    kids = node[1]
    if k == "and":
        b, s = True, None
        for c in kids:
            cb, cs = eval_quirk(c, env)
            b = b and cb
            if not b:
                s = frozenset() if s is not None else None
            elif cs is not None:
                s = cs if s is None else (s & cs)
        return b, s

    def or2(items):
        b, s = False, None
        for cb, cs in items:
            b = b or cb
            if not b:
                s = frozenset() if s is not None else None
            elif cs is not None:
                s = (s or frozenset()) | cs
        return b, s
    acc = eval_quirk(kids[-1], env)
    if len(kids) >= 2:
        acc = or2([eval_quirk(kids[-2], env), acc])
        for c in reversed(kids[:-2]):
            acc = or2([eval_quirk(c, env), acc])
    return acc


def walk(node):
    if node[0] == "cmp":
        yield node
    elif node[0] == "paren":
        yield from walk(node[1])
    else:
        for c in node[1]:
            yield from walk(c)


def shape(node):
    k = node[0]
    if k == "cmp":
        _, (lname, largs), op, rhs = node
        if not largs:
            lk = "D" if lname in ("DAY", "MNTH", "YEAR") else "F"
        elif lname[0] == "G":
            lk = "G"
        elif "*" in largs[0]:
            a = largs[0]
            lk = "L" if (a[0] == "*" and len(a) > 1) else "P"
        else:
            lk = "W"
        rk = "n" if rhs[0] == "num" else ("m" if rhs[1] in MONTHS else "q")
        return lk + op + rk
    if k == "paren":
        return "(" + shape(node[1]) + ")"
    return ("&" if k == "and" else "|").join(shape(c) for c in node[1])


def flat_mixed(tokens):
    stack = [set()]
    for t in tokens:
        if t == "(":
            stack.append(set())
        elif t == ")":
            if len(stack.pop()) == 2:
                return True
        elif t.lower() in ("and", "or"):
            stack[-1].add(t.lower())
    return len(stack[0]) == 2


def paren_depth(tokens):
    d = m = 0
    for t in tokens:
        if t == "(":
            d += 1
            m = max(m, d)
        elif t == ")":
            d -= 1
    return m


# ----------------------------------------------------------------------------------------------------------------
# generator (part A)
# ----------------------------------------------------------------------------------------------------------------
WELLPOOL = ["P1", "P2", "P10", "PROD", "PA_1", "I1", "I2", "INJ", "XP1", "OP", "OPX", "W"]
GROUPPOOL = ["G1", "G2", "PLAT"]
FVARS = ["FOPR", "FWCT", "FGOR", "FPR", "FOPT", "FUTEST"]
GVARS = ["GOPR", "GWCT", "GGOR"]
WVARS = ["WOPR", "WWCT", "WBHP", "WOPT", "WUVAL"]
SVARS = ["SOFR", "SPR"]
LISTNAMES = ["*LIST", "*LI2", "*PRD", "*EMPTY"]
OPS = [">", "<", ">=", "<=", "=", "!=", ".GT.", ".LT.", ".GE.", ".LE.", ".EQ.", ".NE.",
       ".gt.", ".lt.", ".ge.", ".le.", ".eq.", ".ne.", ".Gt.", ".nE."]
# all values are multiples of 1/4 of moderate size: exactly representable, so that ties ('=', '>=', '!=')
# are meaningful and no rounding question arises between the decimal token and the stored double
LEVELS = [x / 4.0 for x in range(-8, 41)] + [100.0, 250.5, 1000.0, 12345.75, -1000.0]


def fmt_num(v, style):
    if style == 1 and v == int(v):
        return "%d" % int(v)
    if style == 2:
        s = "%.6E" % v          # exact: values have at most 7 significant decimal digits
        return s
    if style == 3 and v == int(v):
        return "%d." % int(v)
    return repr(float(v))


class Src:
    """decision stream fed by one Hypothesis-drawn byte string (the only source of randomness): one byte per
    decision, zeros after the end.  Shrinking the bytes towards zero selects the first alternative everywhere."""

    def __init__(self, data):
        self.d = data
        self.i = 0

    def byte(self):
        b = self.d[self.i] if self.i < len(self.d) else 0
        self.i += 1
        return b

    def below(self, n):
        if n <= 1:
            return 0
        if n <= 64:
            return self.byte() % n
        return ((self.byte() << 8) | self.byte()) % n

    def rng(self, lo, hi):
        return lo + self.below(hi - lo + 1)

    def pick(self, seq):
        return seq[self.below(len(seq))]

    def subset(self, pool, lo, hi):
        """lo..hi distinct elements of pool, in drawn order"""
        n = self.rng(lo, min(hi, len(pool)))
        rest = list(pool)
        out = []
        for _ in range(n):
            out.append(rest.pop(self.below(len(rest))))
        return out


def build_a(data):
    s = Src(data)
    wells = s.subset(WELLPOOL, 1, 6)
    groups = s.subset(GROUPPOOL, 1, 2)
    levels = s.subset(LEVELS, 2, 6)
    fvars = s.subset(FVARS, 1, 3)
    gvars = s.subset(GVARS, 1, 2)
    wvars = s.subset(WVARS, 1, 3)
    fvals = [[k, s.pick(levels)] for k in fvars]
    fvals += [["DAY", s.rng(1, 31)], ["MNTH", s.rng(1, 12)], ["YEAR", s.rng(1995, 2030)]]
    gvals = [[v, g, s.pick(levels)] for v in gvars for g in groups]
    wvals = [[v, w, s.pick(levels)] for v in wvars for w in wells]
    svals = [[v, w, seg, s.pick(levels)] for v in SVARS for w in wells[:2] for seg in (1, 2, 3)] if s.below(3) == 0 else []
    lnames = s.subset(LISTNAMES, 0, 3)
    wlists = []
    for ln in lnames:
        wlists.append([ln, [] if ln == "*EMPTY" else s.subset(wells, 1, len(wells))])

    def number(for_month=False):
        if for_month:
            base = s.rng(0, 13)
            frac = s.pick([0.0, 0.0, 0.25, 0.3, 0.4, 0.49, 0.51, 0.6, 0.75, 0.9])
            return repr(base + frac) if frac else "%d" % base
        v = s.pick(levels) if s.below(3) else s.pick(LEVELS)
        return fmt_num(v, s.below(4))

    def quote(x, force=False):
        return "'" + x + "'" if (force or s.below(3) == 0) else x

    def pattern():
        k = s.below(10)
        if k <= 1:
            return "*"
        if k <= 6:
            w = s.pick(wells)
            return w[:s.rng(1, len(w))] + "*"
        if k == 7:
            return "Z*"
        w = s.pick(wells)       # template with a leading '*' needs the documented backslash escape
        return "\\*" + w[s.rng(1, len(w)) - 1:] + s.pick(["", "*"])

    def scalar_quantity():
        k = s.below(6)
        if k <= 2:
            return [s.pick(fvars)]
        if k == 3:
            return [s.pick(gvars), quote(s.pick(groups))]
        if k == 4:
            return [s.pick(wvars), quote(s.pick(wells))]
        return [s.pick(["DAY", "YEAR"])]

    def comparison():
        k = s.below(13)
        op = s.pick(OPS)
        if k == 0:      # month
            rhs = [s.pick(sorted(MONTHS))] if s.below(2) else [number(True)]
            return ["MNTH", op] + rhs
        if k == 1:
            q = s.pick(["DAY", "YEAR"])
            cur = dict((a, b) for a, b in fvals)[q]
            return [q, op, "%d" % (cur + s.rng(-1, 1))]
        if k <= 3 and svals and s.below(2) == 0:
            e = s.pick(svals)
            lhs = [e[0], quote(e[1]), "%d" % e[2]]
        elif k <= 3:
            lhs = [s.pick(fvars)]
        elif k == 4:
            lhs = [s.pick(gvars), quote(s.pick(groups))]
        elif k <= 6:
            lhs = [s.pick(wvars), quote(s.pick(wells))]
        elif k <= 10:
            p = pattern()
            lhs = [s.pick(wvars), quote(p, s.below(4) > 0)]
        else:
            ln = s.pick(lnames + ["*NONE"] + (["*LI*", "*L*", "*P*D", "*E*", "*LI?"] if s.below(3) == 0 else []))
            lhs = [s.pick(wvars), quote(ln, s.below(2) == 0)]
        rhs = scalar_quantity() if s.below(5) == 0 else [number()]
        return lhs + [op] + rhs

    budget = [s.pick([2, 1, 3, 3, 4, 4, 5, 5, 6, 7, 8])]

    def gen(depth_left, parent):
        """token list of a sub-expression; parent in (None, 'and', 'or')"""
        if budget[0] <= 1:
            kind = "cmp"
        elif parent is None:
            kind = s.pick(["and", "or"])
        else:
            kind = s.pick(["cmp", "cmp", "cmp", "and", "or"])
        if kind == "or" and parent == "and" and depth_left == 0:
            kind = "and"
        if kind == "cmp":
            budget[0] -= 1
            toks = comparison()
            if depth_left > 0 and s.below(10) == 9:
                toks = ["("] + toks + [")"]
            return toks
        n = s.rng(2, 3)
        must = (kind == "or" and parent == "and")
        wrap = must or (depth_left > 0 and s.below(4) == 3)
        inner_depth = depth_left - 1 if wrap else depth_left
        toks = []
        for i in range(n):
            if i and budget[0] <= 0:
                break
            if i:
                toks.append(s.pick(["AND", "AND", "and", "And"]) if kind == "and" else s.pick(["OR", "OR", "or", "Or"]))
            toks += gen(inner_depth, kind)
        if wrap:
            toks = ["("] + toks + [")"]
        return toks

    tokens = gen(3, None)
    # split into condition records: a record ends after a logical operator (Eclipse layout) or at the end
    records = [[]]
    for t in tokens:
        records[-1].append(t)
        if t.lower() in ("and", "or") and s.below(3) > 0:
            records.append([])
    return {"part": "A", "wells": wells, "fvals": fvals, "gvals": gvals, "wvals": wvals, "svals": svals, "wlists": wlists,
            "records": records, "num": s.pick(["", "1*", "1", "3", "10000"]),
            "wait": s.pick(["", "1*", "0", "2.5", "10"])}


def a_case():
    return st.binary(min_size=260, max_size=260).map(build_a)


# ----------------------------------------------------------------------------------------------------------------
# part B
# ----------------------------------------------------------------------------------------------------------------
DAY = 86400
DECK_KEYS = ["FOPR", "FGPR", "FWPR"]


def action_deck(name, max_run, wait_days, key):
    """max_run 0 = item defaulted (documented default 1); wait_days None = defaulted (0)"""
    num = "1*" if max_run == 0 else "%d" % max_run
    wait = "1*" if wait_days is None else repr(float(wait_days))
    return ("RUNSPEC\nACTDIMS\n 4 50 80 4 /\nSCHEDULE\nACTIONX\n %s %s %s /\n %s > 0 /\n/\nENDACTIO\n"
            % (name, num, wait, key))


def wire_action(a, idx):
    if a["route"] == "deck":
        return {"name": a["name"], "start": a["start"], "key": DECK_KEYS[idx % 3],
                "deck": action_deck(a["name"], a["max_run"], a["wait_days"], DECK_KEYS[idx % 3])}
    return {"name": a["name"], "start": a["start"], "max_run": a["max_run"], "min_wait": a["wait"]}


class MAct:
    """reference state machine of one action: may run iff fewer than max_run runs so far, time >= start,
    and (never ran or time - last run >= min_wait)"""

    def __init__(self, a):
        self.name = a["name"]
        if a["route"] == "deck":
            self.max_run = a["max_run"] if a["max_run"] > 0 else 1          # ACTIONX item 2 default = 1
            self.wait = (a["wait_days"] or 0.0) * DAY                       # METRIC time unit: day
        else:
            self.max_run = a["max_run"]
            self.wait = a["wait"]
        self.start = a["start"]
        self.count = 0
        self.last = None
        self.runs = []

    def ready(self, t):
        if self.count >= self.max_run or t < self.start:
            return False
        return self.count == 0 or (t - self.last) >= self.wait

    def run(self, t):
        self.count += 1
        self.last = t
        self.runs.append(t)


def model_history(case):
    """-> list of per-time-event dicts (ready/ran/count/last per action), suppression flags"""
    acts = [MAct(a) for a in case["actions"]]
    steps = []
    flags = set()
    for ev in case["events"]:
        if "redefine" in ev:
            na = MAct(ev["redefine"])
            for i, a in enumerate(acts):
                if a.name == na.name:
                    acts[i] = na
                    break
            else:
                acts.append(na)
            flags.add("redefine")
            steps.append(None)
            continue
        t = ev["t"]
        rd = [a.ready(t) for a in acts]
        ran = []
        for i, a in enumerate(acts):
            want = i < len(ev["fire"]) and ev["fire"][i]
            if want and not rd[i]:
                if t < a.start:
                    flags.add("supp-start")
                elif a.count >= a.max_run:
                    flags.add("supp-count")
                else:
                    flags.add("supp-wait")
            if want and rd[i]:
                if a.count > 0:
                    flags.add("rerun")
                ran.append(a.name)
        for i, a in enumerate(acts):
            if a.name in ran:
                a.run(t)
        steps.append({"ready": rd, "ran": ran, "count": [a.count for a in acts],
                      "last": [a.last for a in acts], "names": [a.name for a in acts]})
    return steps, flags, acts


def b_action(s, name, base, start=None):
    route = s.pick(["ctor", "ctor", "deck"])
    a = {"name": name, "route": route,
         "start": base + s.pick([0, 0, 2, 5, 60, DAY]) if start is None else start}
    if route == "deck":
        a["max_run"] = s.pick([0, 1, 2, 3, 4, 10000])
        a["wait_days"] = s.pick([None, 0.0, 0.5, 1.0, 2.0, 10.0, 100.0])
    else:
        a["max_run"] = s.pick([1, 1, 2, 3, 4, 7, 1000000])
        a["wait"] = s.pick([0.0, 0.0, 1.0, 2.0, 2.5, 5.0, 60.0, float(DAY), 100.0 * DAY, 0.5])
    return a


def wait_s(a):
    return (a["wait_days"] or 0.0) * DAY if a["route"] == "deck" else a["wait"]


def build_br(data):
    s = Src(data)
    base = s.pick([1000, 946684800, 1700000000, 4102444800])
    n = s.rng(1, 3)
    actions = [b_action(s, "A%d" % (i + 1), base) for i in range(n)]
    cur = list(actions)
    nev = s.rng(3, 25)
    t = base + s.pick([0, -7, -1, 0, 2])
    events = []
    for _ in range(nev):
        if s.below(15) == 14:
            i = s.below(len(cur))
            na = b_action(s, cur[i]["name"], base, start=t + s.pick([0, 0, 3]))
            cur[i] = na
            events.append({"redefine": na})
            continue
        w = wait_s(s.pick(cur))
        wf, wc = int(math.floor(w)), int(math.ceil(w))
        gap = s.pick([0, 0, 1, 2, 3, 5, max(wf - 1, 0), wf, wc, wc + 1, 2 * wc + 1, DAY, DAY // 2])
        t += gap
        events.append({"t": t, "fire": [s.pick([1, 1, 1, 0]) for _ in cur]})
    return {"part": "Br", "actions": actions, "events": events}


def br_case():
    return st.binary(min_size=200, max_size=200).map(build_br)


def nondecreasing(k, hi):
    return itertools.combinations_with_replacement(range(hi + 1), k)


# ----------------------------------------------------------------------------------------------------------------
class C18(Check):
    ID = "C18"
    PROBE_GROUP = "action"
    RULE = ("A: condition token lists (1..8 comparisons, parenthesis nesting <= 3) over field, group, single-well, "
            "well-template ('P*', '*', '\\*X'), well-list ('*LIST', empty and undefined lists) and date (DAY/MNTH/YEAR, "
            "month names, fractional month numbers) quantities, all six operators in symbol and .XX. spelling and "
            "mixed case, numeric or quantity right-hand sides, AND/OR with and without parentheses, split over "
            "condition records; summary values from a small set of exactly representable levels so that ties "
            "occur; evaluated through AST(tokens).eval and ACTIONX-text -> parseActionX -> ActionX::eval and "
            "compared (truth value, sorted matching wells, hasWell) with a reference evaluator.  Non-trivial: >= 3 "
            "comparisons mixing AND and OR with >= 1 well-set comparison; distinct by expression shape (quantity "
            "kinds, operators, rhs kinds, parentheses).  B: 1..3 actions (constructor or ACTIONX text; max_run "
            "1..4/large/defaulted, min_wait 0..100 d incl. fractional seconds, start times), histories of <= 25 "
            "evaluations with non-decreasing (also repeated, also pre-start) times and re-definitions, driven by "
            "pending() -> evaluate -> add_run(); exhaustive part: every outcome pattern of every non-decreasing time "
            "sequence of length 6 (quick) / 8 (thorough) over 0..8 for max_run 1..3(4), min_wait {0,2,5}(+1, 2.5), "
            "start {0,3}.  ready()/pending()/run_count/run_time compared with a reference state machine at "
            "every step, plus the three stated invariants on the observed runs.  Non-trivial: a wanted run is "
            "suppressed by count, wait or start time."
            " Extended during the build phase: templates over well-list names, escaped templates, fractional month numbers, segment-level quantities (SOFR / SPR 'well' segment) on the left-hand side.")
    ASSUMPTIONS = [
        "summary values and numeric literals are multiples of 1/4 (exact in binary), MNTH right-hand sides avoid "
        "exact .5 fractions (rounding direction of ties is not stated)",
        "every well carries every well quantity used; well lists contain only existing wells; group quantities are "
        "used with explicit group names only (group templates are rejected by the library)",
        "max_run = 0 is generated only as 'item defaulted in the deck' (= 1); an explicit 0 is outside the domain "
        "(header comment says 'unlimited', ready() never fires: see report)",
        "the driver follows the protocol documented for State/ActionX (msim never calls add_run): evaluate every "
        "action returned by Actions::pending(state, t); if satisfied, add_run(action, t, result)",
        "a re-defined action (same name) is a new action whose run count starts at zero (State keys runs by name+id)",
        "min_wait values in deck form are whole/half days so that the day->second conversion is exact",
    ]
    EXAMPLES = {"quick": 5000, "thorough": 50000}      # per shard; plus ~60 000 / ~520 000 enumerated histories
    MIN_EVALS = {"quick": 80000, "thorough": 800000}
    TIME_CAP = {"quick": 150, "thorough": 1100}
    EXHAUSTIVE = True
    LEVEL_TEXT = ("Generated-input search against two independent reference models written from the property "
                  "statement: a condition evaluator (own tokenizer, precedence parser, set algebra) compared with both "
                  "library entry points, and a run-gating state machine compared step by step with ready()/pending()/"
                  "run_count/run_time.  The gating part is exhaustive over all outcome patterns of all short time "
                  "sequences for small max_run/min_wait/start; conditions and longer multi-action histories are sampled.")
    LEVEL_NOTE = ("Trusted: the reference evaluator and state machine as a reading of the statement; the summary "
                  "state is filled directly (no simulator), so which values a simulator supplies for DAY/MNTH/YEAR is "
                  "outside the check; group/region/segment/connection/aquifer quantities with patterns are outside "
                  "the domain; Schedule-level start times (handleACTIONX) are not exercised, start_time is passed to "
                  "parseActionX/ActionX directly.")
    TECHNIQUE = ("property-based testing: Hypothesis-generated conditions and histories + exhaustive small state "
                 "machine, differential against reference models")

    # ------------------------------------------------------------------------------------------------ generation
    def strategy(self, tier):
        return st.one_of(a_case(), a_case(), a_case(), br_case())

    def enumerate(self, tier):
        if tier == "quick":
            k, maxruns, waits = 6, (1, 2, 3), (0.0, 2.0, 5.0)
        else:
            k, maxruns, waits = 8, (1, 2, 3, 4), (0.0, 1.0, 2.0, 2.5, 5.0)
        n = 0
        for times in nondecreasing(k, 8):
            n += 1
            for m in maxruns:
                for w in waits:
                    for t0 in (0, 3):
                        yield {"part": "Bx", "route": "ctor", "max_run": m, "wait": w, "start": t0,
                               "times": list(times)}
            # the same through the ACTIONX text (times and waits in days; NUM defaulted = 1), on a subsample
            if n % (8 if tier == "quick" else 16) == 0:
                for m in (0, 2, 3):
                    for wd in (None, 2.0, 5.0):
                        yield {"part": "Bx", "route": "deck", "max_run": m, "wait_days": wd, "start": 3 * DAY,
                               "times": [x * DAY for x in times]}
        if tier == "quick":
            # a deterministic subsample of the length-8 sequences
            for j, times in enumerate(nondecreasing(8, 8)):
                if j % 40 == 0:
                    for m in (1, 2, 3):
                        for w in (0.0, 2.0, 5.0):
                            yield {"part": "Bx", "route": "ctor", "max_run": m, "wait": w, "start": (j // 40) % 4,
                                   "times": list(times)}

    # -------------------------------------------------------------------------------------------- classification
    def classify(self, case):
        part = case["part"]
        if part == "A":
            tokens = [t for r in case["records"] for t in r]
            tree = RefParser(tokens).parse()
            env = Env(case)
            cmps = list(walk(tree))
            low = [t.lower() for t in tokens]
            sh = shape(tree)
            labels = ["A", "A:records=%d" % min(len(case["records"]), 5), "A:ncmp=%d" % len(cmps),
                      "A:depth=%d" % paren_depth(tokens)]
            kinds = set(shape(c)[0] for c in cmps)
            for kd in kinds:
                labels.append("A:lhs:" + {"F": "field", "G": "group", "W": "well", "P": "template", "L": "list",
                                          "D": "date"}[kd])
            for c in cmps:
                labels.append("A:rhs:" + {"n": "number", "m": "month", "q": "quantity"}[shape(c)[-1]])
                labels.append("A:op:" + c[2])
            if any("\\" in t for t in tokens):
                labels.append("A:escaped-template")
            if any(t.startswith(".") and t.lower() in CMP for t in tokens):
                labels.append("A:dotted-op")
            mixed = "and" in low and "or" in low
            if mixed:
                labels.append("A:mixed-and-or")
                if flat_mixed(tokens):     # AND and OR inside the same parenthesis level: precedence decides
                    labels.append("A:flat-precedence")
            b, s = eval_spec(tree, env)
            labels.append("A:true" if b else "A:false")
            if b:
                labels.append("A:true,no-set" if s is None else ("A:true,empty-set" if not s else "A:true,wells"))
            qb, qs = eval_quirk(tree, env)
            if (qb, sorted(qs or [])) != (b, sorted(s or [])):
                labels.append("A:known-or-order-signature")
            wellset = bool(kinds & {"W", "P", "L"})
            nontriv = len(cmps) >= 3 and mixed and wellset
            return nontriv, sha(["A", sh], 16), labels
        if part == "Br":
            steps, flags, acts = model_history(case)
            labels = ["Br", "Br:actions=%d" % len(case["actions"])] + ["Br:" + f for f in sorted(flags)]
            if any(a["route"] == "deck" for a in case["actions"]):
                labels.append("Br:deck")
            nontriv = bool(flags & {"supp-count", "supp-wait", "supp-start"})
            sig = [[(a["route"], a["max_run"], wait_s(a), a["start"] % 1000) for a in case["actions"]],
                   [(e.get("t", 0) % 100000, e.get("fire")) if "t" in e else "R" for e in case["events"]]]
            return nontriv, sha(["Br", sig], 16), labels
        # Bx: all outcome patterns => a limit is hit as soon as there are more events than max_run, a gap
        # below min_wait, or an event before start
        times = case["times"]
        unit = DAY if case["route"] == "deck" else 1
        m = case["max_run"] or 1
        w = (case.get("wait_days") or 0.0) * DAY if case["route"] == "deck" else case["wait"]
        labels = ["Bx", "Bx:" + case["route"], "Bx:k=%d" % len(times)]
        hit = False
        if len([t for t in times if t >= case["start"]]) > m:
            labels.append("Bx:supp-count")
            hit = True
        if w > 0 and any(0 <= b - a < w for a, b in zip(times, times[1:])):
            labels.append("Bx:supp-wait")
            hit = True
        if any(t < case["start"] for t in times):
            labels.append("Bx:supp-start")
            hit = True
        if any(a == b for a, b in zip(times, times[1:])):
            labels.append("Bx:repeated-time")
        return hit, sha(["Bx", case["route"], m, w, case["start"] // unit, [t // unit for t in times]], 16), labels

    def floors(self, tier):
        # fractions of ALL evaluations (A is roughly a quarter of them, the enumerated Bx cases more than half)
        return {"A:mixed-and-or": 0.03, "A:flat-precedence": 0.01, "A:true,wells": 0.02, "A:lhs:template": 0.03,
                "A:lhs:list": 0.015, "A:lhs:date": 0.015, "Bx:supp-count": 0.05, "Bx:supp-wait": 0.05,
                "Br:supp-wait": 0.005, "Br:supp-count": 0.005}

    def sample_view(self, case):
        if case["part"] == "A":
            return {"part": "A", "records": [" ".join(r) for r in case["records"]], "wells": case["wells"],
                    "wlists": case["wlists"]}
        return case

    def known_key(self, case, viol):
        return viol.get("key")

    # ------------------------------------------------------------------------------------------------- oracles
    def check(self, case, ctx):
        part = case["part"]
        if part == "A":
            return self.check_a(case, ctx)
        if part == "Br":
            return self.check_br(case, ctx)
        return self.check_bx(case, ctx)

    def check_a(self, case, ctx):
        def V(rule, detail, key=None):
            return {"rule": rule, "detail": detail, "key": key}
        tokens = [t for r in case["records"] for t in r]
        tree = RefParser(tokens).parse()
        env = Env(case)
        want_b, want_s = eval_spec(tree, env)
        want_w = sorted(want_s or [])
        nrec = len(case["records"])
        hdr = "COND1" + (" " + case["num"] + (" " + case["wait"] if case["wait"] else "") if case["num"] else "")
        deck = ("RUNSPEC\nACTDIMS\n 2 50 80 %d /\nSCHEDULE\nACTIONX\n %s /\n" % (max(nrec, 3), hdr)
                + "".join(" %s /\n" % " ".join(r) for r in case["records"]) + "/\nENDACTIO\n")
        r = ctx.P.call("action_eval", tokens=tokens, deck=deck, fvals=case["fvals"], gvals=case["gvals"],
                       wvals=case["wvals"], svals=case.get("svals", []), wlists=case["wlists"], ask=case["wells"])
        for entry in ("ast", "actionx"):
            o = r[entry]
            if "exc" in o or "parse_errors" in o:
                return V("A: %s rejects a condition of the stated domain" % entry,
                         {"tokens": " ".join(tokens), "observed": o})
            got_w = list(o["wells"])
            if o["sat"] != want_b:
                return V("A: truth value of the condition (%s)" % entry,
                         {"tokens": " ".join(tokens), "expected": want_b, "observed": o["sat"],
                          "expected_wells": want_w, "observed_wells": got_w})
            if len(set(got_w)) != len(got_w):
                return V("A: matching wells contain duplicates (%s)" % entry, {"observed_wells": got_w})
            if sorted(got_w) != want_w:
                key = None
                qb, qs = eval_quirk(tree, env)
                if qb == o["sat"] and sorted(qs or []) == sorted(got_w):
                    key = "or-false-well-operand-leaves-empty-set"
                return V("A: set of matching wells (%s)" % entry,
                         {"tokens": " ".join(tokens), "truth": want_b, "expected_wells": want_w,
                          "observed_wells": sorted(got_w)}, key)
            has = [w for w, h in zip(case["wells"], o["has"]) if h]
            if sorted(has) != want_w:
                return V("A: hasWell() disagrees with wells() (%s)" % entry,
                         {"wells": got_w, "hasWell_true_for": has})
        o = r["actionx"]
        # the keyword's own items as parsed (needed by part B's deck route): NUM default 1, MIN_WAIT in days
        exp_num = {"": 1, "1*": 1}.get(case["num"], None)
        exp_num = int(case["num"]) if exp_num is None else exp_num
        exp_wait = 0.0 if (case["wait"] in ("", "1*") or case["num"] == "") else float(case["wait"]) * DAY
        if o["max_run"] != exp_num or hexf(o["min_wait"]) != exp_wait or o["nconditions"] != nrec:
            return V("A: ACTIONX header items / number of condition records as parsed",
                     {"header": hdr, "max_run": o["max_run"], "min_wait": hexf(o["min_wait"]),
                      "nconditions": o["nconditions"], "expected": [exp_num, exp_wait, nrec]})
        return None

    def check_br(self, case, ctx):
        def V(rule, detail, key=None):
            return {"rule": rule, "detail": detail, "key": key}
        wire_actions = [wire_action(a, i) for i, a in enumerate(case["actions"])]
        names = [a["name"] for a in case["actions"]]
        wire_events = []
        for ev in case["events"]:
            if "redefine" in ev:
                a = ev["redefine"]
                wire_events.append({"redefine": wire_action(a, names.index(a["name"]))})
            else:
                wire_events.append(ev)
        r = ctx.P.call("action_run", actions=wire_actions, events=wire_events)
        steps, flags, acts = model_history(case)
        # parameters as the library holds them at the end
        for p, a in zip(r["params"], acts):
            if p["max_run"] != a.max_run or hexf(p["min_wait"]) != a.wait or p["start"] != a.start:
                return V("B: action parameters as held by the library", {"observed": p, "expected":
                         [a.max_run, a.wait, a.start]})
        # (1) the three stated invariants, on the observed runs alone
        cur = {}
        for a in case["actions"]:
            cur[a["name"]] = MAct(a)
        for i, (ev, o) in enumerate(zip(case["events"], r["steps"])):
            if "redefine" in ev:
                cur[ev["redefine"]["name"]] = MAct(ev["redefine"])
                continue
            for nm in o["ran"]:
                a = cur[nm]
                t = ev["t"]
                if a.count + 1 > a.max_run:
                    return V("B: action ran more often than its maximum count",
                             {"event": i, "action": nm, "runs_before": a.runs, "t": t, "max_run": a.max_run})
                if t < a.start:
                    return V("B: action ran before its start time", {"event": i, "action": nm, "t": t,
                                                                      "start": a.start})
                if a.last is not None and (t - a.last) < a.wait:
                    return V("B: action ran sooner than min_wait after its previous run",
                             {"event": i, "action": nm, "t": t, "previous": a.last, "min_wait": a.wait})
                a.run(t)
        # (2) step-by-step agreement with the reference state machine
        for i, (ev, o, m) in enumerate(zip(case["events"], r["steps"], steps)):
            if m is None:
                continue
            ctxd = {"event": i, "t": ev["t"], "fire": ev["fire"], "names": m["names"]}
            if o["ready"] != m["ready"]:
                return V("B: ready() differs from the reference predicate", dict(ctxd, observed=o["ready"],
                                                                                 expected=m["ready"]))
            exp_pending = sorted(n for n, rd in zip(m["names"], m["ready"]) if rd)
            if sorted(o["pending"]) != exp_pending or o["any_ready"] != bool(exp_pending):
                return V("B: Actions::pending()/ready() differ from the per-action predicate",
                         dict(ctxd, observed=o["pending"], any_ready=o["any_ready"], expected=exp_pending))
            if sorted(o["ran"]) != sorted(m["ran"]):
                return V("B: set of actions that ran", dict(ctxd, observed=o["ran"], expected=m["ran"]))
            if o["count"] != m["count"] or o["last"] != m["last"]:
                return V("B: run_count()/run_time() after the step",
                         dict(ctxd, observed=[o["count"], o["last"]], expected=[m["count"], m["last"]]))
        return None

    def check_bx(self, case, ctx):
        def V(rule, detail, key=None):
            return {"rule": rule, "detail": detail, "key": key}
        a = {"name": "ACT", "route": case["route"], "max_run": case["max_run"], "start": case["start"]}
        if case["route"] == "deck":
            a["wait_days"] = case["wait_days"]
        else:
            a["wait"] = case["wait"]
        times = case["times"]
        k = len(times)
        r = ctx.P.call("action_run_all", action=wire_action(a, 0), times=times)
        ref = MAct(a)
        if r["max_run"] != ref.max_run or hexf(r["min_wait"]) != ref.wait or r["start"] != ref.start:
            return V("B: action parameters as held by the library",
                     {"observed": [r["max_run"], hexf(r["min_wait"]), r["start"]],
                      "expected": [ref.max_run, ref.wait, ref.start]})
        if r["pending_vs_ready"]:
            return V("B: Actions::pending() disagrees with ActionX::ready()", r["pending_vs_ready"])
        M, W, S = ref.max_run, ref.wait, ref.start
        # fast path: expected ready-bits / final state of all 2^k patterns by one walk over the outcome tree
        # (identical reference predicate); only if something differs, the detailed per-pattern pass below runs
        # to name the broken rule.  Equality with the reference implies the three invariants.
        exp = [None] * (1 << k)

        def rec(i, p, count, last, bits):
            if i == k:
                exp[p] = (bits, count, -1 if last is None else last)
                return
            t = times[i]
            if count < M and t >= S and (count == 0 or (t - last) >= W):
                rec(i + 1, p, count, last, bits + "1")
                rec(i + 1, p | (1 << i), count + 1, t, bits + "1")
            else:
                rec(i + 1, p, count, last, bits + "0")
                rec(i + 1, p | (1 << i), count, last, bits + "0")
        rec(0, 0, 0, None, "")
        if len(r["ready"]) == (1 << k) and all(
                (r["ready"][p], r["count"][p], r["last"][p]) == exp[p] for p in range(1 << k)):
            return None
        for p in range(1 << k):
            bits = r["ready"][p]
            # invariants on the observed runs
            count, last = 0, None
            ecount, elast = 0, None
            for i in range(k):
                t = times[i]
                fire = (p >> i) & 1
                exp_ready = ecount < M and t >= S and (ecount == 0 or (t - elast) >= W)
                obs_ready = bits[i] == "1"
                if obs_ready and fire:
                    if count + 1 > M:
                        return V("B: action ran more often than its maximum count",
                                 {"pattern": p, "event": i, "times": times, "max_run": M})
                    if t < S:
                        return V("B: action ran before its start time", {"pattern": p, "event": i, "times": times,
                                                                          "start": S})
                    if last is not None and (t - last) < W:
                        return V("B: action ran sooner than min_wait after its previous run",
                                 {"pattern": p, "event": i, "times": times, "previous": last, "min_wait": W})
                    count += 1
                    last = t
                if obs_ready != exp_ready:
                    return V("B: ready() differs from the reference predicate",
                             {"pattern": format(p, "0%db" % k)[::-1], "event": i, "times": times, "observed": obs_ready,
                              "expected": exp_ready, "runs_so_far": ecount, "last_run": elast,
                              "max_run": M, "min_wait": W, "start": S})
                if exp_ready and fire:
                    ecount += 1
                    elast = t
            if r["count"][p] != ecount or r["last"][p] != (-1 if elast is None else elast):
                return V("B: run_count()/run_time() at the end of the history",
                         {"pattern": format(p, "0%db" % k)[::-1], "times": times,
                          "observed": [r["count"][p], r["last"][p]], "expected": [ecount, elast]})
        return None
