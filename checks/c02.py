"""C02 - unit conversion is invertible, composable, physical and deck-unit independent.

Sub-checks (one driver, class label = first label of every case):
  A   measure tables        : 4 systems (+INPUT) x 46 measures: round trips, Dimension(measure), vector overloads,
                              factor/offset == independent physical table
  N   unit names            : the unit NAME of every measure, parsed by an independent symbol grammar, denotes the
                              same factor (one case per system x measure)
  B   dimension strings     : every dimension string used by a keyword definition + random composites:
                              parse() == product/quotient of the library's base factors == reference factor,
                              offset bases rejected in composites, getNewDimension idempotent, string to_si/from_si
  Bp  keyword JSON vs code  : ParserKeyword(JsonObject(file)) == compiled-in keyword (names, types, defaults, dims)
  C   item-level conversion : a keyword with dimensioned items written under METRIC/FIELD/LAB/PVT-M:
                              getSIDouble == v * ref(dim, system) (+offset); defaulted -> default * ref(dim, METRIC);
                              ALL items use index % ndim; raw -> SI -> raw -> SI is stable
  D   deck re-expression    : ~75 curated keywords whose item dimensions are stated here independently of the JSON
                              (CURATED): one SI model value written in the four unit systems must come back as that
                              SI value from the Deck -> detects a wrong dimension annotation of an item
  M   model re-expression   : a small complete model (grid, PVT/saturation tables, EQUIL, wells, group, TSTEP) held in
                              SI, written in the four unit systems: EclipseState / Schedule SI queries must agree with
                              the model (direct quantities) and with each other (derived: Peaceman CF, r0, ...)
  E   output                : data::Solution / RestartValue convertFromSI / convertToSI == reference factors, round trip
"""
import math
import os

from hypothesis import strategies as st

from vlib import build
from vlib import refunits as R
from vlib.probe import LibError, hexf
from vlib.runner import Check, Discard, sha

EPS = 2.0 ** -52
ALLSYS = R.SYSTEMS + ["INPUT"]
SYSNAME = {"METRIC": "Metric", "FIELD": "Field", "LAB": "Lab", "PVT-M": "PVT-M", "INPUT": "Input"}
KWDIR = "opm/input/eclipse/share/keywords"

# Physical factors: the library evaluates constexpr products of the same handful of exactly defined constants
# that the reference table multiplies in a (possibly) different order: <= ~12 multiplications/divisions, each
# 0.5 ulp -> < 1e-14 relative.  1e-12 leaves two orders of magnitude and still catches any wrong digit of a
# definition (the closest "wrong but plausible" constants - IT vs thermochemical Btu 6.7e-4, 365 vs 365.25 days,
# bar vs atm 1.3e-2 - are > 1e-4 away).
REL_PHYS = 1e-12

# fixed probe points for A/B/E: zero, units, signs, extremes that keep every intermediate finite and normal
# (largest factor 6.4e16, smallest 9.9e-22 => |x| in [1e-250, 1e250] stays normal), typical temperatures
FIXED_XS = [0.0, 1.0, -1.0, 2.0, 0.5, 3.0, 1e-250, -1e-250, 1e250, -1e250, 1e-30, 1e30, 15.0, 60.0, 100.0,
            273.15, -273.15, -459.67, 288.70555555555555, 519.67, 1234.56789, 0.1, 1.0 / 3.0, 6894.757293168361]

_G = {"grammar": None, "bykw": None, "eligible": None, "dimstrings": None, "excluded": None}


# ------------------------------------------------------------------------------------------------ helpers
def relclose(a, b, rel, abs_=0.0):
    if a == b:
        return True
    if math.isnan(a) or math.isnan(b) or math.isinf(a) or math.isinf(b):
        return False
    return abs(a - b) <= rel * max(abs(a), abs(b)) + abs_


def V(rule, detail, key=None):
    return {"rule": rule, "detail": detail, "key": key}


def hx(v):
    return [hexf(x) for x in v]


def load_grammar(P):
    """the parser's own schema (names, sizes, items, dimension strings) - used as the generator's grammar"""
    if _G["grammar"] is not None:
        return _G
    g = P.call("units_grammar")["keywords"]
    g.sort(key=lambda k: k["name"])
    bykw = {k["name"]: k for k in g}
    dimstrings = sorted({d for k in g for r in k["records"] for it in r["items"] for d in it["dims"]})
    eligible, excluded = [], {}
    for k in g:
        if not any(it["dims"] for r in k["records"] for it in r["items"]):
            continue
        why = ineligible(k, bykw)
        if why:
            excluded[k["name"]] = why
        else:
            eligible.append(k["name"])
    _G.update(grammar=g, bykw=bykw, eligible=eligible, dimstrings=dimstrings, excluded=excluded)
    return _G


def prereq_text(name, bykw, size_item=None, size_val=None, depth=0):
    """text of a prerequisite keyword with every item defaulted (except the size item); None if not renderable"""
    k = bykw.get(name)
    if k is None or depth > 2:
        return None
    pre = ""
    for r in k["requires"]:
        t = prereq_text(r, bykw, depth=depth + 1)
        if t is None:
            return None
        pre += t
    dn = deck_name(k)
    if k["size_type"] == "FIXED" and not k["code"] and not k["raw_string"]:
        n = k.get("fixed_size")
        if n is None:
            return None
        if n == 0:
            return pre + dn + "\n"
        recs = []
        for i in range(n):
            if i == 0 and size_item is not None:
                names = [it["name"] for it in k["records"][0]["items"]]
                if size_item not in names:
                    return None
                idx = names.index(size_item)
                recs.append(" " + ("%d* " % idx if idx else "") + "%d /" % size_val)
            else:
                recs.append(" /")
        return pre + dn + "\n" + "\n".join(recs) + "\n"
    if size_item is None and k["size_type"] == "SLASH_TERMINATED" and not k["raw_string"]:
        return pre + dn + "\n/\n"
    if size_item is None and k["size_type"] == "OTHER_KEYWORD_IN_DECK" and not k["table_collection"] \
            and not k["alternating"] and not k["raw_string"]:
        t = prereq_text(k["size_kw"], bykw, k["size_item"], 1 - k["size_shift"], depth + 1)
        if t is None:
            return None
        return pre + t + dn + "\n /\n"
    return None


def deck_name(k):
    if k["name"] in k["deck_names"] or not k["deck_names"]:
        return k["name"]
    return k["deck_names"][0]


def ineligible(k, bykw):
    """reason why keyword k is outside the shapes the C generator renders soundly (None = eligible)"""
    if k["raw_string"] or k["code"]:
        return "raw-string/code keyword"
    if k["double_records"] or k["size_type"] == "DOUBLE_SLASH_TERMINATED":
        return "double-record keyword"
    if k["table_collection"]:
        return "table collection"
    if k["size_type"] == "UNKNOWN":
        return "size type UNKNOWN"
    if k["size_type"] == "SPECIAL_CASE_ROCK":
        return "special-case size (ROCK)"
    if k["regex"] and not k["deck_names"]:
        return "regex-only deck name"
    if not k["records"]:
        return "no records"
    if k["size_type"] == "FIXED" and k.get("fixed_size") is None:
        return "fixed size unknown"
    if k["size_type"] == "OTHER_KEYWORD_IN_DECK":
        if prereq_text(k["size_kw"], bykw, k["size_item"], 1) is None:
            return "size keyword not renderable (%s/%s)" % (k["size_kw"], k["size_item"])
    for r in k["requires"]:
        if k["size_type"] == "OTHER_KEYWORD_IN_DECK" and r == k["size_kw"]:
            continue
        if prereq_text(r, bykw) is None:
            return "required keyword not renderable (%s)" % r
    for rec in k["records"]:
        for i, it in enumerate(rec["items"]):
            if it["size"] == "ALL" and i != len(rec["items"]) - 1:
                return "ALL item not last"
            if it["type"].endswith("RAW_STRING") or it["type"].endswith("CODE") or it["type"].endswith("UNKNOWN"):
                return "raw string item"
    return None


def nrecords_for(k, size_n):
    """(number of records to write, N to put into the size keyword)"""
    if k["size_type"] == "FIXED":
        return k["fixed_size"], None
    if k["size_type"] == "OTHER_KEYWORD_IN_DECK":
        n = size_n
        if k["alternating"]:
            return n * len(k["records"]), n - k["size_shift"]
        return n, n - k["size_shift"]
    return size_n, None   # SLASH_TERMINATED


def record_def_index(k, i):
    n = len(k["records"])
    if i >= n:
        return i % n if k["alternating"] else n - 1
    return i


def record_def(k, i):
    return k["records"][record_def_index(k, i)]


def tok_value(text):
    return float(text.replace("D", "E").replace("d", "e"))


def expand_entries(entries):
    """item entries -> [('x', value) | ('d', None)]; entry = {"v": text} | {"d": n} | {"rep": n, "v": text}"""
    out = []
    for e in entries:
        if "rep" in e:
            out += [("x", tok_value(e["v"]))] * e["rep"]
        elif "d" in e:
            out += [("d", None)] * e["d"]
        else:
            out.append(("x", tok_value(e["v"])))
    return out


def render_entries(entries):
    toks = []
    for e in entries:
        if "rep" in e:
            toks.append("%d*%s" % (e["rep"], e["v"]))
        elif "d" in e:
            toks.append("%d*" % e["d"])
        else:
            toks.append(e["v"])
    return toks


def render_case_C(case, G):
    """-> (deck text, [(record index, record def, [entries per item])]) ; record plans are reused cyclically"""
    k = G["bykw"].get(case["kw"])
    if k is None:
        raise Discard()
    nrec, sizeval = nrecords_for(k, case["size_n"])
    lines = ["RUNSPEC"]
    if case["system"] != "METRIC" or case.get("explicit_metric"):
        lines.append(case["system"])
    pre = ""
    for r in k["requires"]:
        if k["size_type"] == "OTHER_KEYWORD_IN_DECK" and r == k["size_kw"]:
            continue
        t = prereq_text(r, G["bykw"])
        if t is None:
            raise Discard()
        pre += t
    if k["size_type"] == "OTHER_KEYWORD_IN_DECK":
        t = prereq_text(k["size_kw"], G["bykw"], k["size_item"], sizeval)
        if t is None:
            raise Discard()
        pre += t
    if pre:
        lines.append(pre.rstrip("\n"))
    lines.append(deck_name(k))
    plans = []
    for i in range(nrec):
        rd = record_def(k, i)
        plan = case["records"][i % len(case["records"])]
        items = rd["items"]
        per_item = []
        toks = []
        for j, it in enumerate(items):
            if j >= len(plan):
                break               # record ends early: the remaining items are defaulted by the parser
            entries = plan[j]
            if it["size"] != "ALL":
                entries = entries[:1]
                # a SINGLE item takes exactly one value
                e = dict(entries[0]) if entries else {"d": 1}
                if "rep" in e:
                    e = {"v": e["v"]}
                if "d" in e:
                    e = {"d": 1}
                entries = [e]
            if not it["type"].endswith("DOUBLE") and not it["type"].endswith("UDA"):
                # non-numeric / integer items: explicit token of the right type, or default
                new = []
                for e in entries:
                    if "d" in e:
                        new.append(e)
                    elif it["type"].endswith("INT"):
                        new.append({"v": "2", "rep": e["rep"]} if "rep" in e else {"v": "2"})
                    else:
                        new.append({"v": "W1", "rep": e["rep"]} if "rep" in e else {"v": "W1"})
                entries = new
            per_item.append(entries)
            toks += render_entries(entries)
        if not toks and k["size_type"] == "SLASH_TERMINATED":
            # an empty record would terminate the keyword: write one explicit default instead
            toks = ["1*"]
            per_item = [[{"d": 1}]]
        if case.get("merge_defaults"):
            # consecutive 1* tokens of SINGLE items -> one k* token (defaults may pass item boundaries)
            merged = []
            for t in toks:
                if t == "1*" and merged and merged[-1].endswith("*") and merged[-1][:-1].isdigit():
                    merged[-1] = "%d*" % (int(merged[-1][:-1]) + 1)
                else:
                    merged.append(t)
            toks = merged
        lines.append(" " + " ".join(toks) + " /")
        plans.append((i, rd, per_item))
    if k["size_type"] == "SLASH_TERMINATED":
        lines.append("/")
    return "\n".join(lines) + "\n", plans



# ------------------------------------------------------------------------------------------------ D: curated dimensions
# MY statement of the physical dimension of keyword items (ECLIPSE reference manual item numbers, 1-based; for
# table/array items the dimensions of the columns), independent of the JSON annotations:
#   kw -> [(record index, item number, [dimension per column])]
L, P, T, PERM, VISC, DENS = "Length", "Pressure", "Time", "Permeability", "Viscosity", "Density"
LRATE, GRATE, RRATE = "LiquidSurfaceVolume/Time", "GasSurfaceVolume/Time", "ReservoirVolume/Time"
RS_, RV_ = "GasSurfaceVolume/LiquidSurfaceVolume", "LiquidSurfaceVolume/GasSurfaceVolume"
TRANS = "Viscosity*ReservoirVolume/Time*Pressure"        # cP.rm3/day/bar
SALT = "Mass/LiquidSurfaceVolume"                        # salt / polymer concentration: kg/sm3, lb/stb, g/scc
TEMP = "Temperature"
CURATED = {
    # grid geometry and properties
    "DX": [(0, 1, [L])], "DY": [(0, 1, [L])], "DZ": [(0, 1, [L])], "TOPS": [(0, 1, [L])],
    "DXV": [(0, 1, [L])], "DYV": [(0, 1, [L])], "DZV": [(0, 1, [L])],
    "COORD": [(0, 1, [L])], "ZCORN": [(0, 1, [L])],
    "PERMX": [(0, 1, [PERM])], "PERMY": [(0, 1, [PERM])], "PERMZ": [(0, 1, [PERM])],
    "PORO": [(0, 1, ["1"])], "NTG": [(0, 1, ["1"])],
    "PORV": [(0, 1, ["ReservoirVolume"])], "MINPV": [(0, 1, ["ReservoirVolume"])],
    "TRANX": [(0, 1, [TRANS])], "TRANY": [(0, 1, [TRANS])], "TRANZ": [(0, 1, [TRANS])],
    # fluid and rock properties
    "DENSITY": [(0, 1, [DENS]), (0, 2, [DENS]), (0, 3, [DENS])],
    "PVTW": [(0, 1, [P]), (0, 2, ["ReservoirVolume/LiquidSurfaceVolume"]), (0, 3, ["1/Pressure"]), (0, 4, [VISC]),
             (0, 5, ["1/Pressure"])],
    "PVCDO": [(0, 1, [P]), (0, 2, ["ReservoirVolume/LiquidSurfaceVolume"]), (0, 3, ["1/Pressure"]), (0, 4, [VISC]),
              (0, 5, ["1/Pressure"])],
    "PVDO": [(0, 1, [P, "ReservoirVolume/LiquidSurfaceVolume", VISC])],
    "PVDG": [(0, 1, [P, "ReservoirVolume/GasSurfaceVolume", VISC])],
    "SWOF": [(0, 1, ["1", "1", "1", P])], "SGOF": [(0, 1, ["1", "1", "1", P])],
    "SWFN": [(0, 1, ["1", "1", P])], "SGFN": [(0, 1, ["1", "1", P])], "SOF3": [(0, 1, ["1", "1", "1"])],
    "RSVD": [(0, 1, [L, RS_])], "RVVD": [(0, 1, [L, RV_])], "PBVD": [(0, 1, [L, P])], "PDVD": [(0, 1, [L, P])],
    "ROCKTAB": [(0, 1, [P, "1", "1"])],
    "OILVISCT": [(0, 1, [TEMP, VISC])], "WATVISCT": [(0, 1, [TEMP, VISC])],
    "RTEMPVD": [(0, 1, [L, TEMP])],
    "SPECHEAT": [(0, 1, [TEMP] + ["Energy/Mass*AbsoluteTemperature"] * 3)],
    "SPECROCK": [(0, 1, [TEMP, "Energy/GeometricVolume*AbsoluteTemperature"])],
    "PLYVISC": [(0, 1, [SALT, "1"])], "PLYADS": [(0, 1, [SALT, "1"])],
    "PLYMAX": [(0, 1, [SALT]), (0, 2, [SALT])],
    "SALTVD": [(0, 1, [L, SALT])],
    "PVTWSALT": [(0, 1, [P]), (0, 2, [SALT]), (1, 1, [SALT, "ReservoirVolume/LiquidSurfaceVolume", "1/Pressure", VISC,
                                                      "1/Pressure"])],
    # initialisation
    "EQUIL": [(0, 1, [L]), (0, 2, [P]), (0, 3, [L]), (0, 4, [P]), (0, 5, [L]), (0, 6, [P])],
    "PRESSURE": [(0, 1, [P])], "SWAT": [(0, 1, ["1"])], "SGAS": [(0, 1, ["1"])],
    "RS": [(0, 1, [RS_])], "RV": [(0, 1, [RV_])], "TEMPI": [(0, 1, [TEMP])],
    "AQUCT": [(0, 2, [L]), (0, 3, [P]), (0, 4, [PERM]), (0, 5, ["1"]), (0, 6, ["1/Pressure"]), (0, 7, [L]), (0, 8, [L]),
              (0, 9, ["1"])],
    # schedule
    "WELSPECS": [(0, 5, [L]), (0, 7, [L])],
    "COMPDAT": [(0, 8, [TRANS]), (0, 9, [L]), (0, 10, ["Permeability*Length"]), (0, 11, ["1"]),
                (0, 12, ["Time/GasSurfaceVolume"]), (0, 14, [L])],
    "WCONPROD": [(0, 4, [LRATE]), (0, 5, [LRATE]), (0, 6, [GRATE]), (0, 7, [LRATE]), (0, 8, [RRATE]), (0, 9, [P]),
                 (0, 10, [P])],
    "WCONHIST": [(0, 4, [LRATE]), (0, 5, [LRATE]), (0, 6, [GRATE]), (0, 9, [P]), (0, 10, [P])],
    "WCONINJE": [(0, 6, [RRATE]), (0, 7, [P]), (0, 8, [P])],
    "GCONPROD": [(0, 3, [LRATE]), (0, 4, [LRATE]), (0, 5, [GRATE]), (0, 6, [LRATE])],
    "GCONINJE": [(0, 5, [RRATE]), (0, 6, ["1"]), (0, 7, ["1"])],
    "WECON": [(0, 2, [LRATE]), (0, 3, [GRATE]), (0, 5, [RS_]), (0, 6, [RV_])],
    "WELSEGS": [(0, 2, [L]), (0, 3, [L]), (0, 4, ["GeometricVolume"]), (1, 5, [L]), (1, 6, [L]), (1, 7, [L]), (1, 8, [L]),
                (1, 9, ["Area"]), (1, 10, ["GeometricVolume"])],
    "WSEGVALV": [(0, 4, ["Area"]), (0, 5, [L]), (0, 6, [L]), (0, 7, [L]), (0, 8, ["Area"]), (0, 10, ["Area"])],
    "WSEGSICD": [(0, 4, ["Pressure*Time*Time/GeometricVolume*GeometricVolume"]), (0, 5, [L]), (0, 6, [DENS]),
                 (0, 7, [VISC]), (0, 12, ["GeometricVolume/Time"])],
    "WDFAC": [(0, 2, ["Time/GasSurfaceVolume"])],
    "WTEST": [(0, 2, [T])],
    "WTEMP": [(0, 2, [TEMP])],
    "WINJTEMP": [(0, 3, [TEMP]), (0, 4, [P])],
    "WPOLYMER": [(0, 2, [SALT]), (0, 3, [SALT])],
    "WLIFTOPT": [(0, 3, [GRATE]), (0, 5, [GRATE])],
    "GLIFTOPT": [(0, 2, [GRATE]), (0, 3, [GRATE])],
    "NODEPROP": [(0, 2, [P])],
    "DRSDT": [(0, 1, ["GasSurfaceVolume/LiquidSurfaceVolume*Time"])],
    "TSTEP": [(0, 1, [T])], "NEXTSTEP": [(0, 1, [T])],
    "TUNING": [(0, 1, [T]), (0, 2, [T]), (0, 3, [T]), (0, 4, [T])],
}

# ------------------------------------------------------------------------------------------------ strategies
NICE = ["0", "1", "-1", "2.5", "100", "0.001", "1e5", "1E-3", "1.5D3", "2.0d-2", "12345.678", ".5", "7.", "-0.25",
        "3.14159265358979", "60", "273.15", "-40", "1e10", "1e-10"]


@st.composite
def number_text(draw):
    if draw(st.integers(0, 3)) == 0:
        return draw(st.sampled_from(NICE))
    mant = draw(st.integers(1, 10 ** draw(st.integers(1, 14)) - 1))
    exp = draw(st.integers(-12, 9))
    sign = "-" if draw(st.integers(0, 4)) == 0 else ""
    digits = str(mant)
    form = draw(st.integers(0, 3))
    if form == 0:
        return "%s%s.%se%d" % (sign, digits[0], digits[1:] or "0", exp)
    if form == 1:
        return "%s%s.%sE%+03d" % (sign, digits[0], digits[1:] or "0", exp)
    if form == 2:
        return "%s%s.%sD%d" % (sign, digits[0], digits[1:] or "0", exp)
    k = draw(st.integers(0, len(digits)))
    return "%s%s.%s" % (sign, digits[:k] or "0", digits[k:])


@st.composite
def entry(draw, allow_rep):
    c = draw(st.integers(0, 9))
    if c <= 1:
        return {"d": draw(st.integers(1, 3)) if allow_rep else 1}
    if c == 2 and allow_rep:
        return {"rep": draw(st.integers(1, 4)), "v": draw(number_text())}
    return {"v": draw(number_text())}


@st.composite
def case_C(draw, names, bykw):
    kw = draw(st.sampled_from(names))
    k = bykw[kw]
    system = draw(st.sampled_from(["FIELD", "LAB", "PVT-M", "METRIC", "FIELD", "LAB"]))
    size_n = draw(st.integers(1, 3))
    nplans = draw(st.integers(1, 2))
    width = max(len(r["items"]) for r in k["records"])
    anyall = any(it["size"] == "ALL" for r in k["records"] for it in r["items"])
    records = []
    for _ in range(nplans):
        nitems = width if draw(st.integers(0, 3)) else draw(st.integers(1, width))
        plan = []
        for j in range(nitems):
            plan.append(draw(st.lists(entry(True), min_size=1, max_size=9 if anyall else 1)))
        records.append(plan)
    return {"kind": "C", "kw": kw, "system": system, "size_n": size_n, "records": records,
            "merge_defaults": draw(st.booleans()), "explicit_metric": draw(st.booleans())}


xs_strategy = st.lists(st.one_of(
    st.floats(min_value=-1e250, max_value=1e250, allow_nan=False, allow_infinity=False, allow_subnormal=False)
    .filter(lambda x: x == 0.0 or abs(x) >= 1e-250),
    # typical magnitudes (temperatures, pressures); tiny values are flushed to zero so that every intermediate
    # stays a normal number ("identity to rounding" is a statement about normal floating-point numbers)
    st.floats(min_value=-500.0, max_value=2000.0, allow_nan=False).map(lambda x: x if abs(x) >= 1e-250 else 0.0),
    st.sampled_from(FIXED_XS)), min_size=1, max_size=12)


@st.composite
def case_A(draw):
    return {"kind": "A", "system": draw(st.sampled_from(ALLSYS)), "xs": [x.hex() for x in draw(xs_strategy)]}


@st.composite
def composite_dim(draw):
    names = [n for n in R.BASE_NAMES if n != "Unit"] + ["Length", "Time", "Pressure", "Temperature", "ContextDependent"]
    num = draw(st.lists(st.sampled_from(names), min_size=1, max_size=4))
    den = draw(st.lists(st.sampled_from(names), min_size=0, max_size=4))
    s = "*".join(num)
    if den:
        s += "/" + "*".join(den)
    return s


@st.composite
def case_B(draw):
    return {"kind": "B", "system": draw(st.sampled_from(R.SYSTEMS)),
            "strings": draw(st.lists(composite_dim(), min_size=1, max_size=12)),
            "xs": [x.hex() for x in draw(xs_strategy)][:4]}


@st.composite
def case_E(draw):
    nm = len(R.MEASURES)
    fields = []
    for i in range(draw(st.integers(1, 6))):
        fields.append({"name": "F%d" % i, "measure": draw(st.integers(0, nm - 1)),
                       "data": [x.hex() for x in draw(xs_strategy)]})
    extra = []
    for i in range(draw(st.integers(0, 4))):
        extra.append({"name": "X%d" % i, "measure": draw(st.integers(0, nm - 1)),
                      "data": [x.hex() for x in draw(xs_strategy)]})
    return {"kind": "E", "system": draw(st.sampled_from(ALLSYS)), "fields": fields, "extra": extra}


@st.composite
def case_D(draw, names):
    return {"kind": "D", "kw": draw(st.sampled_from(names)),
            "u": [draw(number_text()) for _ in range(draw(st.integers(1, 8)))],
            "rows": draw(st.integers(1, 3))}


# ------------------------------------------------------------------------------------------------ M: whole-model re-expression
# A small complete model held in SI (every number below is "u METRIC units of MY dimension", i.e. SI = u*ref(METRIC)),
# rendered in the four unit systems by dividing by the reference factor of MY dimension for the item.
def _lin(draw, lo, hi):
    return draw(st.integers(0, 10 ** 6)) / 1.0e6 * (hi - lo) + lo


@st.composite
def case_M(draw):
    nx, ny, nz = draw(st.integers(1, 3)), draw(st.integers(1, 2)), draw(st.integers(1, 3))
    n = nx * ny * nz
    m = {"kind": "M", "dims": [nx, ny, nz]}
    # a regular (tensor) grid with a flat top: geometry itself is C13's business, here only the units matter
    dxv = [_lin(draw, 10, 300) for _ in range(nx)]
    dyv = [_lin(draw, 10, 300) for _ in range(ny)]
    dzv = [_lin(draw, 1, 30) for _ in range(nz)]
    m["DX"] = [dxv[g % nx] for g in range(n)]
    m["DY"] = [dyv[(g // nx) % ny] for g in range(n)]
    m["DZ"] = [dzv[g // (nx * ny)] for g in range(n)]
    m["TOPS"] = [_lin(draw, 1000, 3000)] * (nx * ny)
    m["PORO"] = [_lin(draw, 0.05, 0.4) for _ in range(n)]
    m["NTG"] = [_lin(draw, 0.3, 1.0) for _ in range(n)]
    for k in ("PERMX", "PERMY", "PERMZ"):
        m[k] = [_lin(draw, 1, 2000) for _ in range(n)]
    m["DENSITY"] = [_lin(draw, 600, 900), _lin(draw, 1000, 1100), _lin(draw, 0.7, 1.2)]
    m["PVTW"] = [_lin(draw, 100, 400), _lin(draw, 1.0, 1.1), _lin(draw, 1e-5, 1e-4), _lin(draw, 0.2, 1.0),
                 _lin(draw, 0, 1e-4)]
    m["ROCK"] = [_lin(draw, 100, 400), _lin(draw, 1e-6, 1e-4)]
    p0 = _lin(draw, 50, 100)
    ps = [p0, p0 + _lin(draw, 20, 100), p0 + _lin(draw, 120, 300)]
    bo = _lin(draw, 1.1, 1.4)
    mu = _lin(draw, 0.5, 2.0)
    m["PVDO"] = [[ps[0], bo, mu], [ps[1], bo - 0.02, mu + 0.1], [ps[2], bo - 0.05, mu + 0.3]]
    bg = _lin(draw, 0.02, 0.05)
    mg = _lin(draw, 0.01, 0.02)
    m["PVDG"] = [[ps[0], bg, mg], [ps[1], bg * 0.5, mg + 0.002], [ps[2], bg * 0.25, mg + 0.005]]
    pc = _lin(draw, 0.1, 2.0)
    m["SWOF"] = [[0.2, 0.0, 1.0, pc], [0.6, _lin(draw, 0.1, 0.4), _lin(draw, 0.1, 0.4), pc * 0.3], [1.0, 1.0, 0.0, 0.0]]
    pg = _lin(draw, 0.1, 2.0)
    m["SGOF"] = [[0.0, 0.0, 1.0, 0.0], [0.4, _lin(draw, 0.1, 0.4), _lin(draw, 0.1, 0.4), pg * 0.4], [0.8, 1.0, 0.0, pg]]
    m["EQUIL"] = [_lin(draw, 1000, 3000), _lin(draw, 100, 400), _lin(draw, 2000, 3500), _lin(draw, 0, 1),
                  _lin(draw, 500, 1500), _lin(draw, 0, 1)]
    m["P1"] = {"ij": [draw(st.integers(1, nx)), draw(st.integers(1, ny))], "ref": _lin(draw, 1000, 3000),
               "drad": _lin(draw, 50, 500),
               "cf": _lin(draw, 0.5, 50), "diam": _lin(draw, 0.1, 0.4), "kh": _lin(draw, 100, 10000),
               "skin": _lin(draw, -1, 5), "diam2": _lin(draw, 0.1, 0.4), "skin2": _lin(draw, 0, 5),
               "rates": [_lin(draw, 10, 5000), _lin(draw, 10, 5000), _lin(draw, 1000, 500000), _lin(draw, 10, 9000),
                         _lin(draw, 10, 9000)], "bhp": _lin(draw, 20, 200)}
    m["I1"] = {"ij": [draw(st.integers(1, nx)), draw(st.integers(1, ny))], "ref": _lin(draw, 1000, 3000),
               "diam": _lin(draw, 0.1, 0.4), "rate": _lin(draw, 10, 5000), "resv": _lin(draw, 10, 5000),
               "bhp": _lin(draw, 300, 600)}
    # the producer may be specified a second time (WELSPECS on an existing well, by name or by a name template) with
    # another reference depth / drainage radius: the later record counts
    if draw(st.integers(0, 2)) == 0:
        m["P1"]["respec"] = {"ref": _lin(draw, 1000, 3000), "drad": _lin(draw, 50, 500),
                             "name": draw(st.sampled_from(["P1", "'P*'", "'P*1'"])), "later": draw(st.booleans())}
    m["G1"] = [_lin(draw, 100, 10000), _lin(draw, 100, 10000), _lin(draw, 1e4, 1e6), _lin(draw, 100, 20000)]
    m["TSTEP"] = [_lin(draw, 0.5, 40) for _ in range(draw(st.integers(1, 3)))]
    # keyword operations with a dimensioned scalar (the scalar is converted by another table than the array keyword's
    # own items): on permeabilities in GRID, on the pore volume in EDIT; each on one whole layer
    ops = []
    for _ in range(draw(st.integers(0, 3))):
        arr = draw(st.sampled_from(["PERMX", "PERMZ", "PORV", "PORV"]))
        k = draw(st.integers(0, nz - 1))
        if arr == "PORV":
            ops.append({"kw": "EQUALS", "arr": arr, "u": _lin(draw, 50, 50000), "k": k})
        else:
            ops.append({"kw": draw(st.sampled_from(["EQUALS", "ADD", "MINVALUE", "MAXVALUE"])), "arr": arr,
                        "u": _lin(draw, 1, 2000), "k": k})
    m["ops"] = ops
    # lift tables: every axis kind has its own unit (rates, ratios liquid/liquid, liquid/gas, gas/liquid), chosen by an
    # enum literal of the header record
    if draw(st.booleans()):
        v = {"flo": draw(st.sampled_from(["OIL", "LIQ", "GAS"])), "wfr": draw(st.sampled_from(["WOR", "WCT", "WGR"])),
             "gfr": draw(st.sampled_from(["GOR", "GLR", "OGR"])), "alq": draw(st.sampled_from(["GRAT", "IGLR", "TGLR", " ", "1*"])),
             "units": draw(st.booleans()), "datum": _lin(draw, 1000, 3000)}
        nf, nt, nw, ng, na = (draw(st.integers(1, 3)), draw(st.integers(1, 2)), draw(st.integers(1, 2)),
                              draw(st.integers(1, 2)), draw(st.integers(1, 2)))
        def axis(k, lo, hi):
            a = sorted(_lin(draw, lo, hi) for _ in range(k))
            return [x + 1e-3 * (hi - lo) * j for j, x in enumerate(a)]          # strictly increasing
        v["flo_axis"] = axis(nf, 10, 5000) if v["flo"] != "GAS" else axis(nf, 1000, 500000)
        v["thp_axis"] = axis(nt, 5, 100)
        v["wfr_axis"] = axis(nw, 0.0, 0.9) if v["wfr"] != "WGR" else axis(nw, 1e-5, 1e-3)
        v["gfr_axis"] = axis(ng, 10, 500) if v["gfr"] != "OGR" else axis(ng, 1e-5, 1e-3)
        v["alq_axis"] = axis(na, 100, 10000)
        v["bhp"] = [[_lin(draw, 50, 400) for _ in range(nf)] for _ in range(nt * nw * ng * na)]
        m["VFPPROD"] = v
    if draw(st.integers(0, 2)) == 0:
        v = {"flo": draw(st.sampled_from(["OIL", "WAT", "GAS"])), "units": draw(st.booleans()), "datum": _lin(draw, 1000, 3000)}
        nf, nt = draw(st.integers(1, 3)), draw(st.integers(1, 2))
        a = sorted(_lin(draw, 10, 5000) for _ in range(nf))
        v["flo_axis"] = [(x + 5.0 * j) * (100.0 if v["flo"] == "GAS" else 1.0) for j, x in enumerate(a)]
        a = sorted(_lin(draw, 5, 100) for _ in range(nt))
        v["thp_axis"] = [x + 0.1 * j for j, x in enumerate(a)]
        v["bhp"] = [[_lin(draw, 50, 400) for _ in range(nf)] for _ in range(nt)]
        m["VFPINJ"] = v
    return m


GAS_LIQ, LIQ_GAS = "GasSurfaceVolume/LiquidSurfaceVolume", "LiquidSurfaceVolume/GasSurfaceVolume"


def vfp_dims(v):
    """dimension of every axis of a lift table, from the enum literals of its header"""
    d = {"flo": GRATE if v["flo"] == "GAS" else LRATE, "thp": P, "bhp": P, "datum": L}
    if "wfr" in v:
        d["wfr"] = LIQ_GAS if v["wfr"] == "WGR" else "1"
        d["gfr"] = LIQ_GAS if v["gfr"] == "OGR" else GAS_LIQ
        d["alq"] = {"GRAT": GRATE, "IGLR": GAS_LIQ, "TGLR": GAS_LIQ}.get(v["alq"], "1")
    return d


def si_of(u, d):
    f, off = R.dim("METRIC", d)
    return u * f + off


def render_model(m, s):
    """deck text of model m in unit system s (MY dimensions) and the SI value of every direct quantity"""
    def c(u, d):
        f, off = R.dim(s, d)
        return repr((si_of(u, d) - off) / f)

    def arr(name, d):
        return "%s\n %s /\n" % (name, " ".join(c(u, d) for u in m[name]))

    def tab(name, dims):
        rows = "\n".join("  " + " ".join(c(u, d) for u, d in zip(row, dims)) for row in m[name])
        return "%s\n%s /\n" % (name, rows)

    nx, ny, nz = m["dims"]
    BO, BG = "ReservoirVolume/LiquidSurfaceVolume", "ReservoirVolume/GasSurfaceVolume"
    t = "RUNSPEC\nTITLE\n c02 model\nDIMENS\n %d %d %d /\nOIL\nWATER\nGAS\n%s\nSTART\n 1 JAN 2020 /\n" % (nx, ny, nz, s)
    t += "WELLDIMS\n 2 6 2 2 /\nTABDIMS\n /\nEQLDIMS\n /\nGRID\n"
    t += arr("DX", L) + arr("DY", L) + arr("DZ", L) + arr("TOPS", L)
    t += arr("PORO", "1") + arr("NTG", "1") + arr("PERMX", PERM) + arr("PERMY", PERM) + arr("PERMZ", PERM)
    def oprec(o, d):
        return "%s\n %s %s 1 %d 1 %d %d %d /\n/\n" % (o["kw"], o["arr"], c(o["u"], d), nx, ny, o["k"] + 1, o["k"] + 1)
    for o in m.get("ops", []):
        if o["arr"] != "PORV":
            t += oprec(o, PERM)
    if any(o["arr"] == "PORV" for o in m.get("ops", [])):
        t += "EDIT\n" + "".join(oprec(o, "ReservoirVolume") for o in m["ops"] if o["arr"] == "PORV")
    t += "PROPS\n"
    t += "DENSITY\n %s /\n" % " ".join(c(u, DENS) for u in m["DENSITY"])
    t += "PVTW\n %s /\n" % " ".join(c(u, d) for u, d in zip(m["PVTW"], [P, BO, "1/Pressure", VISC, "1/Pressure"]))
    t += "ROCK\n %s /\n" % " ".join(c(u, d) for u, d in zip(m["ROCK"], [P, "1/Pressure"]))
    t += tab("PVDO", [P, BO, VISC]) + tab("PVDG", [P, BG, VISC])
    t += tab("SWOF", ["1", "1", "1", P]) + tab("SGOF", ["1", "1", "1", P])
    t += "SOLUTION\nEQUIL\n %s /\n" % " ".join(c(u, d) for u, d in zip(m["EQUIL"], [L, P, L, P, L, P]))
    t += "SCHEDULE\n"
    p, i = m["P1"], m["I1"]
    t += "WELSPECS\n P1 G1 %d %d %s OIL %s /\n I1 G1 %d %d %s WATER /\n/\n" % (
        p["ij"][0], p["ij"][1], c(p["ref"], L), c(p["drad"], L), i["ij"][0], i["ij"][1], c(i["ref"], L))
    t += "COMPDAT\n P1 2* 1 1 OPEN 1* %s %s %s %s /\n" % (c(p["cf"], TRANS), c(p["diam"], L),
                                                          c(p["kh"], "Permeability*Length"), c(p["skin"], "1"))
    t += " P1 2* %d %d OPEN 1* 1* %s 1* %s /\n" % (nz, nz, c(p["diam2"], L), c(p["skin2"], "1")) if nz > 1 else ""
    t += " I1 2* 1 %d OPEN 1* 1* %s /\n/\n" % (nz, c(i["diam"], L))
    r = p["rates"]
    t += "WCONPROD\n P1 OPEN ORAT %s %s %s %s %s %s /\n/\n" % (c(r[0], LRATE), c(r[1], LRATE), c(r[2], GRATE),
                                                               c(r[3], LRATE), c(r[4], RRATE), c(p["bhp"], P))
    t += "WCONINJE\n I1 WATER OPEN RATE %s %s %s /\n/\n" % (c(i["rate"], LRATE), c(i["resv"], RRATE), c(i["bhp"], P))
    g = m["G1"]
    t += "GCONPROD\n G1 ORAT %s %s %s %s /\n/\n" % (c(g[0], LRATE), c(g[1], LRATE), c(g[2], GRATE), c(g[3], LRATE))
    # (the explicit UNITS item only where the library accepts it: it refuses 'PVT-M' and reads 'LAB' as FIELD, which then
    # "differs from the deck's units" - clean refusals, not conversions)
    unit_item = {"METRIC": "'METRIC'", "FIELD": "'FIELD'", "LAB": "1*", "PVT-M": "1*"}[s]
    v = m.get("VFPPROD")
    if v:
        d = vfp_dims(v)
        alq = "1*" if v["alq"] == "1*" else "'%s'" % v["alq"]
        t += "VFPPROD\n 3 %s '%s' '%s' '%s' 'THP' %s %s 'BHP' /\n" % (c(v["datum"], L), v["flo"], v["wfr"], v["gfr"], alq,
                                                                         unit_item if v["units"] else "1*")
        for ax in ("flo", "thp", "wfr", "gfr", "alq"):
            t += " %s /\n" % " ".join(c(u, d[ax]) for u in v[ax + "_axis"])
        nt, nw, ng, na = (len(v[a + "_axis"]) for a in ("thp", "wfr", "gfr", "alq"))
        r_ = 0
        for a_ in range(na):
            for g_ in range(ng):
                for w_ in range(nw):
                    for t_ in range(nt):
                        t += " %d %d %d %d %s /\n" % (t_ + 1, w_ + 1, g_ + 1, a_ + 1, " ".join(c(u, P) for u in v["bhp"][r_]))
                        r_ += 1
    v = m.get("VFPINJ")
    if v:
        d = vfp_dims(v)
        t += "VFPINJ\n 4 %s '%s' 'THP' %s 'BHP' /\n" % (c(v["datum"], L), v["flo"], unit_item if v["units"] else "1*")
        t += " %s /\n %s /\n" % (" ".join(c(u, d["flo"]) for u in v["flo_axis"]), " ".join(c(u, P) for u in v["thp_axis"]))
        for t_, row in enumerate(v["bhp"]):
            t += " %d %s /\n" % (t_ + 1, " ".join(c(u, P) for u in row))
    rs = p.get("respec")
    if rs:
        rec = "WELSPECS\n %s G1 %d %d %s OIL %s /\n/\n" % (rs["name"], p["ij"][0], p["ij"][1], c(rs["ref"], L), c(rs["drad"], L))
        if rs["later"] and len(m["TSTEP"]) > 1:
            # in a later report step (the model is observed at the last one)
            t += "TSTEP\n %s /\n" % c(m["TSTEP"][0], T) + rec + "TSTEP\n %s /\n" % " ".join(c(u, T) for u in m["TSTEP"][1:])
            return t
        t += rec
    t += "TSTEP\n %s /\n" % " ".join(c(u, T) for u in m["TSTEP"])
    return t


def model_expect(m):
    """SI values that follow directly from the model (no library formula involved)"""
    nx, ny, nz = m["dims"]
    BO, BG = "ReservoirVolume/LiquidSurfaceVolume", "ReservoirVolume/GasSurfaceVolume"
    n = nx * ny * nz
    e = {}
    dx = [si_of(u, L) for u in m["DX"]]
    dy = [si_of(u, L) for u in m["DY"]]
    dz = [si_of(u, L) for u in m["DZ"]]
    e["dims"] = [[dx[g], dy[g], dz[g]] for g in range(n)]
    e["volume"] = [dx[g] * dy[g] * dz[g] for g in range(n)]
    depth = []
    for g in range(n):
        k, ij = g // (nx * ny), g % (nx * ny)
        top = si_of(m["TOPS"][ij], L) + sum(dz[kk * nx * ny + ij] for kk in range(k))
        depth.append(top + dz[g] / 2)
    e["depth"] = depth
    e["PORO"] = list(m["PORO"])
    e["NTG"] = list(m["NTG"])
    for kw in ("PERMX", "PERMY", "PERMZ"):
        e[kw] = [si_of(u, PERM) for u in m[kw]]
    e["PORV"] = [e["volume"][g] * m["PORO"][g] * m["NTG"][g] for g in range(n)]
    for o in m.get("ops", []):
        layer = range(o["k"] * nx * ny, (o["k"] + 1) * nx * ny)
        if o["arr"] == "PORV":
            for g in layer:
                e["PORV"][g] = si_of(o["u"], "ReservoirVolume")
        else:
            v = si_of(o["u"], PERM)
            for g in layer:
                x = e[o["arr"]][g]
                e[o["arr"]][g] = {"EQUALS": v, "ADD": x + v, "MINVALUE": max(x, v), "MAXVALUE": min(x, v)}[o["kw"]]
    e["DENSITY"] = [si_of(u, DENS) for u in m["DENSITY"]]
    e["PVTW"] = [si_of(u, d) for u, d in zip(m["PVTW"], [P, BO, "1/Pressure", VISC, "1/Pressure"])]
    e["ROCK"] = [si_of(u, d) for u, d in zip(m["ROCK"], [P, "1/Pressure"])]
    for kw, dims in (("PVDO", [P, BO, VISC]), ("PVDG", [P, BG, VISC]), ("SWOF", ["1", "1", "1", P]),
                     ("SGOF", ["1", "1", "1", P])):
        e[kw] = [[si_of(row[c], dims[c]) for row in m[kw]] for c in range(len(dims))]
    e["EQUIL"] = [si_of(u, d) for u, d in zip(m["EQUIL"], [L, P, L, P, L, P])]
    return e


# ------------------------------------------------------------------------------------------------ the check
class C02(Check):
    ID = "C02"
    PROBE_GROUP = "units"
    RULE = ("A: all 46 UnitSystem::measure entries x {METRIC,FIELD,LAB,PVT-M,INPUT} at 24 fixed + random points "
            "(|x| in {0} u [1e-250,1e250], temperatures); B: every dimension string used by any compiled-in keyword "
            "(taken from the parser's own schema) x 4 systems, + random composites A*B/C*D over the base names incl. "
            "offset and context-dependent bases; Bp: every file under share/keywords; C: every compiled-in keyword "
            "with a dimensioned item whose shape the generator renders (fixed / slash-terminated / sized by another "
            "keyword / data keywords / alternating / multi-record), enumerated once per unit system with all items "
            "explicit and once with all defaulted, + random value texts (1-15 digits, e/E/D exponents), defaults "
            "(n*), repeats (n*v), early record ends and merged defaults; D: 75 curated keywords (dimension of every "
            "item stated independently) x random SI values x 4 systems; M: random small models (1-18 cells, tensor "
            "grid, 3-row PVT/saturation tables, producer with an explicit and a defaulted connection, injector, group "
            "targets, 1-3 time steps) x 4 systems; E: random cell arrays per measure through Solution/RestartValue; "
            "N: unit name of every measure.  Non-trivial: A/B/E/N non-identity factor; C an item with a non-'1' "
            "dimension in a non-METRIC system or a defaulted dimensioned item; D a keyword with a non-'1' dimension; "
            "M always (>= 8 distinct dimensions, FIELD and LAB renderings); distinct by (sub-check, system, "
            "keyword/strings, explicit/default pattern, values).  M extended during the build phase: one Parser object for "
            "the four unit-system decks, keyword operations with dimensioned scalars (EQUALS / ADD / MINVALUE / MAXVALUE on "
            "PERMX / PERMZ / PORV), WELSPECS on an existing well, VFPPROD (FLO OIL/LIQ/GAS, WFR WOR/WCT/WGR, GFR GOR/GLR/OGR, "
            "ALQ GRAT/IGLR/TGLR/blank/default) and VFPINJ with every axis, the datum depth and the BHP values.")
    ASSUMPTIONS = [
        "which unit a quantity uses in each system is the ECLIPSE convention (vlib/refunits.py); the SI value of "
        "each unit is typed from its physical definition; Btu is the thermochemical Btu (1054.3503 J)",
        "a dimension string A*B/C*D means (A*B)/(C*D) (single '/')",
        "defaults of keyword items are stated in METRIC units (Deck default unit system)",
        "C covers the keyword shapes listed in RULE; table collections, double-record, UNKNOWN-size, raw-string, "
        "code keywords and ROCK are not generated (counted in evidence: C_excluded)",
        "that an item's JSON dimension annotation is physically the right one is asserted only for the curated "
        "keywords of sub-checks D and M (CURATED table / render_model), not for all keywords",
        "M: the Schedule keeps report times in whole seconds: step times are compared to 1 s per step",
        "M: derived connection quantities (Peaceman CF, Kh, r0, re of defaulted connections) are only required to be "
        "the same in all four unit systems (1e-9), no formula is asserted (that is C06)",
        "conversions are exercised on normal floating-point numbers: |x| in {0} u [1e-250, 1e250]",
        "ContextDependent dimensions: only 'conversion throws' is asserted",
        "unit names that the symbol grammar cannot parse are skipped and counted",
    ]
    EXAMPLES = {"quick": 160, "thorough": 2500}
    MIN_EVALS = {"quick": 5000, "thorough": 40000}
    TIME_CAP = {"quick": 150, "thorough": 1000}
    EXHAUSTIVE = True
    LEVEL_TEXT = ("Exhaustive over the finite parts (46 measures x 5 systems incl. their unit names, every dimension "
                  "string used by a keyword x 4 systems, every keyword JSON file, every generated keyword x 4 systems "
                  "in an all-explicit and an all-default rendering, every curated keyword) plus Hypothesis search over "
                  "values, composites, default/repeat patterns, output arrays and small complete models re-expressed "
                  "in the four unit systems.  Oracle: an independent unit table typed from the "
                  "physical definitions, the library's own base factors (composition), and round trips.")
    LEVEL_NOTE = ("Trusted: vlib/refunits.py as a statement of the ECLIPSE unit conventions and the CURATED item "
                  "dimensions.  Not covered: the dimension annotation of items outside the ~75 curated keywords, the "
                  "keyword shapes listed under assumptions, state-level queries beyond those dumped by units_model.")
    TECHNIQUE = "property-based testing: exhaustive enumeration + Hypothesis, independent reference table, round trips"

    # -------------------------------------------------------------------------------------------- set-up
    def prepare(self, tier):
        from vlib.probe import Probe
        exe = build.ensure_probe(self.PROBE, self.PROBE_GROUP)
        P = Probe(exe)
        try:
            load_grammar(P)
        finally:
            P.close()

    def G(self, ctx=None):
        if _G["grammar"] is None:
            if ctx is None:
                raise RuntimeError("grammar not loaded")
            load_grammar(ctx.P)
        return _G

    def kwfiles(self):
        root = os.path.join(build.REPO, KWDIR)
        res = []
        for d, _, files in os.walk(root):
            for f in files:
                if f.endswith(".cmake") or f.startswith("."):
                    continue
                res.append(os.path.relpath(os.path.join(d, f), root))
        return sorted(res)

    def compiled_list(self):
        """files named in keyword_list.cmake (the build's own list of compiled keywords)"""
        if _G.get("compiled") is not None:
            return _G["compiled"]
        path = os.path.join(build.REPO, KWDIR, "keyword_list.cmake")
        res = set()
        with open(path) as f:
            for line in f:
                t = line.strip()
                if t and t[0].isdigit() and "/" in t:
                    res.add(t.rstrip(")").strip())
        _G["compiled"] = res
        return res

    # -------------------------------------------------------------------------------------------- cases
    def strategy(self, tier):
        G = self.G()
        return st.one_of(case_C(G["eligible"], G["bykw"]), case_C(G["eligible"], G["bykw"]),
                         case_C(G["eligible"], G["bykw"]), case_C(G["eligible"], G["bykw"]),
                         case_A(), case_B(), case_B(), case_E(),
                         case_D([kw for kw in sorted(CURATED) if kw in G["eligible"]]), case_M())

    def enumerate(self, tier):
        G = self.G()
        for s in ALLSYS:
            yield {"kind": "A", "system": s, "xs": [x.hex() for x in FIXED_XS]}
        for s in R.SYSTEMS:
            for m in range(len(R.MEASURES)):
                yield {"kind": "N", "system": s, "measure": m}
        ds = G["dimstrings"]
        for s in R.SYSTEMS:
            for i in range(0, len(ds), 8):
                yield {"kind": "B", "system": s, "strings": ds[i:i + 8], "xs": [x.hex() for x in FIXED_XS[:8]]}
        for f in self.kwfiles():
            yield {"kind": "Bp", "file": f}
        for s in ALLSYS:
            yield {"kind": "E", "system": s,
                   "fields": [{"name": "M%d" % m, "measure": m, "data": [x.hex() for x in FIXED_XS]}
                              for m in range(len(R.MEASURES))],
                   "extra": [{"name": "X%d" % m, "measure": m, "data": [x.hex() for x in FIXED_XS[:6]]}
                             for m in range(len(R.MEASURES))]}
        for kw in sorted(CURATED):
            if kw in G["eligible"]:
                yield {"kind": "D", "kw": kw, "u": ["2.5", "0.125", "3", "100", "1.5e-2", "7.25", "40"], "rows": 2}
        vals = ["2.5", "0.125", "3", "100", "1.5e-2", "7.25", "40", "0.5", "12"]
        for kw in G["eligible"]:
            k = G["bykw"][kw]
            width = max(len(r["items"]) for r in k["records"])
            anyall = any(it["size"] == "ALL" for r in k["records"] for it in r["items"])
            n = 9 if anyall else 1
            explicit = [[{"v": vals[(j + i) % len(vals)]} for i in range(n)] for j in range(width)]
            mixed = [([{"d": 1}, {"v": vals[j % len(vals)]}, {"d": 2}, {"rep": 2, "v": "1.25"}] if anyall
                      else [{"d": 1}]) for j in range(width)]
            for s in R.SYSTEMS:
                yield {"kind": "C", "kw": kw, "system": s, "size_n": 2, "records": [explicit],
                       "merge_defaults": False, "explicit_metric": True}
                yield {"kind": "C", "kw": kw, "system": s, "size_n": 1, "records": [mixed],
                       "merge_defaults": s in ("LAB", "PVT-M"), "explicit_metric": False}

    # -------------------------------------------------------------------------------------------- classification
    def classify(self, case):
        kind = case["kind"]
        labels = [kind, "%s:sys:%s" % (kind, case.get("system", "-"))]
        if kind == "A":
            return case["system"] != "INPUT", sha(["A", case["system"], case["xs"]], 16), labels
        if kind == "B":
            nt = False
            for s in case["strings"]:
                comp = ("*" in s) or ("/" in s)
                off = "Temperature" in [p for q in s.split("/") for p in q.split("*")]
                cd = "ContextDependent" in s
                labels.append("B:composite" if comp else "B:base")
                if off and comp:
                    labels.append("B:offset-in-composite")
                if cd:
                    labels.append("B:context-dependent")
                if not off and not cd:
                    try:
                        if R.dim(case["system"], s)[0] != 1.0:
                            nt = True
                    except R.DimError:
                        pass
            return nt, sha(["B", case["system"], case["strings"]], 16), labels
        if kind == "Bp":
            return True, sha(["Bp", case["file"]], 16), labels
        if kind == "M":
            nx, ny, nz = case["dims"]
            labels = ["M", "M:cells:%d" % (nx * ny * nz), "M:tsteps:%d" % len(case["TSTEP"])]
            if nz > 1:
                labels.append("M:defaulted-connection-P1")
            return True, None, labels
        if kind == "D":
            dims = sorted({d for (_, _, ds) in CURATED.get(case["kw"], []) for d in ds})
            labels += ["D:kw:" + case["kw"]] + ["D:dim:" + d for d in dims]
            return any(d != "1" for d in dims), sha(["D", case["kw"], case["u"], case["rows"]], 16), labels
        if kind == "N":
            return R.measure(case["system"], case["measure"])[0] != 1.0, sha(["N", case["system"], case["measure"]]), labels
        if kind == "E":
            nt = case["system"] != "INPUT" and any(f["measure"] != 0 for f in case["fields"])
            if case["extra"]:
                labels.append("E:extra")
            if any(f["measure"] == 7 for f in case["fields"] + case["extra"]):
                labels.append("E:temperature-offset")
            return nt, sha(["E", case["system"], [(f["measure"], len(f["data"])) for f in case["fields"]],
                            [(f["measure"], len(f["data"])) for f in case["extra"]]], 16), labels
        # C
        G = _G
        k = G["bykw"].get(case["kw"]) if G["bykw"] else None
        if k is None:
            return False, None, labels
        shape = k["size_type"] + ("+data" if k["data"] else "") + ("+alt" if k["alternating"] else "") + \
            ("+multi" if len(k["records"]) > 1 else "")
        labels.append("C:shape:" + shape)
        nrec, _ = nrecords_for(k, case["size_n"])
        nt = False
        pattern = []
        seen = set()
        for i in range(nrec):
            rd = record_def(k, i)
            plan = case["records"][i % len(case["records"])]
            for j, it in enumerate(rd["items"]):
                if not it["dims"]:
                    continue
                isuda = it["type"].endswith("UDA")
                if j >= len(plan):
                    seq = [("d", None)]
                else:
                    ent = plan[j] if it["size"] == "ALL" else plan[j][:1]
                    seq = []
                    for e in ent:
                        if "d" in e:
                            seq += ["d"] * (e["d"] if it["size"] == "ALL" else 1)
                        elif "rep" in e and it["size"] == "ALL":
                            seq += ["x"] * e["rep"]
                        else:
                            seq.append("x")
                    seq = [(s, None) for s in seq]
                nd = len(it["dims"])
                for idx, (s, _) in enumerate(seq):
                    d = it["dims"][idx % nd]
                    tag = ("u" if isuda else "") + s
                    pattern.append((i, j, idx if idx < 12 else -1, tag))
                    if d not in seen:
                        seen.add(d)
                        labels.append("C:dim:" + d)
                    if d in ("1", R.CONTEXT_DEPENDENT):
                        continue
                    if s == "d":
                        if it["has_default"]:
                            nt = True
                            labels.append("C:defaulted-dimensioned-with-default")
                        else:
                            labels.append("C:defaulted-dimensioned-no-default")
                    elif case["system"] != "METRIC":
                        nt = True
                    if "Temperature" == d and s == "x":
                        labels.append("C:offset-dimension")
                if nd > 1 and len(seq) > nd:
                    labels.append("C:ALL-multi-dim-wraps")
                if isuda:
                    labels.append("C:uda")
        if case.get("merge_defaults"):
            labels.append("C:merged-defaults")
        labels = sorted(set(labels), key=labels.index)
        return nt, sha(["C", case["kw"], case["system"], pattern], 16), labels

    def floors(self, tier):
        return {"A": 0.0005, "B": 0.01, "Bp": 0.02, "C": 0.3, "E": 0.0005, "N": 0.003, "D": 0.005, "M": 0.005,
                "C:sys:FIELD": 0.05, "C:sys:LAB": 0.05, "C:sys:PVT-M": 0.03, "C:sys:METRIC": 0.03,
                "C:defaulted-dimensioned-with-default": 0.02, "C:ALL-multi-dim-wraps": 0.02, "C:uda": 0.005,
                "C:offset-dimension": 0.005, "B:offset-in-composite": 0.003}

    def extra_evidence(self, stats):
        G = _G
        ex = {}
        if G["grammar"]:
            ndk = sum(1 for k in G["grammar"] if any(it["dims"] for r in k["records"] for it in r["items"]))
            ex["C_keywords_with_dimension"] = ndk
            ex["C_keywords_generated"] = len(G["eligible"])
            ex["C_excluded"] = G["excluded"]
            ex["B_dimension_strings_in_schema"] = len(G["dimstrings"])
        return ex

    def sample_view(self, case):
        if case["kind"] == "C":
            return {"kind": "C", "kw": case["kw"], "system": case["system"], "size_n": case["size_n"],
                    "records": [[p[:3] for p in plan[:6]] for plan in case["records"]]}
        if case["kind"] == "M":
            return {"kind": "M", "dims": case["dims"], "TSTEP": case["TSTEP"], "P1": case["P1"]}
        if case["kind"] == "E":
            return {"kind": "E", "system": case["system"], "nfields": len(case["fields"]), "nextra": len(case["extra"])}
        return case

    # -------------------------------------------------------------------------------------------- oracle
    def check(self, case, ctx):
        kind = case["kind"]
        if kind == "A":
            return self.check_A(case, ctx)
        if kind == "N":
            return self.check_N(case, ctx)
        if kind == "B":
            return self.check_B(case, ctx)
        if kind == "Bp":
            return self.check_Bp(case, ctx)
        if kind == "C":
            return self.check_C(case, ctx)
        if kind == "E":
            return self.check_E(case, ctx)
        if kind == "D":
            return self.check_D(case, ctx)
        if kind == "M":
            return self.check_M(case, ctx)
        raise RuntimeError("unknown case kind")

    # ---- A
    def check_A(self, case, ctx):
        s = case["system"]
        xs = [float.fromhex(x) for x in case["xs"]]
        r = ctx.P.call("units_measures", system=s, xs=xs)
        if r["count"] != len(R.MEASURES):
            raise RuntimeError("UnitSystem::measure has %d entries, the reference table %d: update vlib/refunits.py"
                               % (r["count"], len(R.MEASURES)))
        if r["sys_name"] != SYSNAME[s]:
            return V("A: unit system name", [s, r["sys_name"]])
        for m, o in enumerate(r["measures"]):
            mname = R.MEASURES[m][0]
            if "f_exc" in o["dim"]:
                return V("A: Dimension(measure) has no finite factor", [s, mname, o["dim"]])
            f, off = hexf(o["dim"]["f"]), hexf(o["dim"]["o"])
            if s != "INPUT":
                rf, roff = R.measure(s, m)
                # physical: factor and offset equal the definition of the unit (REL_PHYS, derivation at the top)
                if not relclose(f, rf, REL_PHYS) or not relclose(off, roff, REL_PHYS):
                    return V("A/physical: factor of measure differs from the physical definition of its unit",
                             {"system": s, "measure": mname, "unit": o["name"], "lib": [f, off], "ref": [rf, roff]},
                             "phys-%s-%s" % (s, mname))
            to, frm = hx(o["to"]), hx(o["from"])
            ft, tf = hx(o["from_to"]), hx(o["to_from"])
            vto, vfrom = hx(o["vto"]), hx(o["vfrom"])
            af = abs(f)
            for i, x in enumerate(xs):
                # to_si agrees with Dimension(measure): one multiply + one add each, 2 ulp of the larger operand
                want = f * x + off
                if not relclose(to[i], want, 4 * EPS, 4 * EPS * abs(off)):
                    return V("A: to_si(measure,x) != Dimension(measure).factor*x+offset",
                             [s, mname, x, to[i], want])
                # vector overloads agree with the scalar ones
                if not relclose(vto[i], to[i], 4 * EPS, 4 * EPS * abs(off)) or \
                        not relclose(vfrom[i], frm[i], 4 * EPS, 4 * EPS * abs(off) / af):
                    return V("A: vector overload differs from scalar overload",
                             [s, mname, x, to[i], vto[i], frm[i], vfrom[i]])
                # round trips.  y = f*x+o (2 roundings, error <= eps*(|f x|+|y|)), (y-o) exact-ish cancellation
                # error <= eps*max(|y|,|o|), times 1/f (table entry rounded separately: 2 more roundings).
                # => |rt-x| <= ~4 eps |x| + 4 eps |o|/|f|; 8 and 8 used.
                tol = 8 * EPS * abs(x) + 8 * EPS * abs(off) / af
                if abs(ft[i] - x) > tol:
                    return V("A/inverse: from_si(to_si(x)) != x", {"system": s, "measure": mname, "x": x,
                                                                   "got": ft[i], "tol": tol}, None)
                tol2 = 8 * EPS * abs(x) + 8 * EPS * abs(off)
                if abs(tf[i] - x) > tol2:
                    return V("A/inverse: to_si(from_si(x)) != x", {"system": s, "measure": mname, "x": x,
                                                                   "got": tf[i], "tol": tol2}, None)
                # from_si is the inverse of the *same* factor (ties the from-table to the to-table pointwise)
                wantf = (x - off) / f
                if not relclose(frm[i], wantf, 8 * EPS, 8 * EPS * abs(off) / af):
                    return V("A/inverse: from_si(x) != (x-offset)/factor", [s, mname, x, frm[i], wantf])
        return None

    # ---- N: unit names
    def check_N(self, case, ctx):
        s, m = case["system"], case["measure"]
        r = ctx.P.call("units_measures", system=s, xs=[])
        if r["count"] != len(R.MEASURES):
            raise RuntimeError("UnitSystem::measure has %d entries, the reference table %d" % (r["count"], len(R.MEASURES)))
        o = r["measures"][m]
        mname = R.MEASURES[m][0]
        rf, roff = R.measure(s, m)
        try:
            nf = R.symbol_factor(o["name"])
            noff = R.symbol_offset(o["name"])
        except R.SymbolError:
            ctx.label("N:name-unparsed")
            return None
        ctx.label("N:name-parsed")
        if not relclose(nf, rf, REL_PHYS) or not relclose(noff, roff, REL_PHYS):
            return V("N: the unit name of the measure denotes another unit than its conversion factor",
                     {"system": s, "measure": mname, "unit": o["name"], "name_denotes": [nf, noff],
                      "factor": [hexf(o["dim"]["f"]), hexf(o["dim"]["o"])], "ref": [rf, roff]},
                     "name-%s-%s" % (s, mname))
        return None

    # ---- B
    def check_B(self, case, ctx):
        s = case["system"]
        xs = [float.fromhex(x) for x in case["xs"]]
        strings = list(case["strings"])
        r = ctx.P.call("units_dims", system=s, strings=strings + R.BASE_NAMES + [R.CONTEXT_DEPENDENT], xs=xs)
        obs = r["dims"]
        libbase = {}
        for o in obs[len(strings):]:
            if "parse" in o and "f" in o["parse"]:
                libbase[o["s"]] = (hexf(o["parse"]["f"]), hexf(o["parse"]["o"]))
        for name in R.BASE_NAMES:
            if name not in libbase:
                return V("B: base dimension not known to the unit system", [s, name])
            rf, ro = R.BASE[s][name]
            if not relclose(libbase[name][0], rf, REL_PHYS) or not relclose(libbase[name][1], ro, REL_PHYS):
                return V("B/physical: base dimension factor differs from the physical definition",
                         {"system": s, "dimension": name, "lib": libbase[name], "ref": [rf, ro]},
                         "physdim-%s-%s" % (s, name))
        for o in obs[:len(strings)]:
            d = o["s"]
            parts = d.split("/")
            num = parts[0].split("*")
            den = parts[1].split("*") if len(parts) == 2 else []
            names = num + den
            composite = len(names) > 1
            if R.CONTEXT_DEPENDENT in names:
                # NaN factor by design: every conversion must throw, nothing else is asserted
                if "to" in o or "from" in o:
                    return V("B: conversion with a ContextDependent dimension did not throw", [s, d, o])
                continue
            try:
                rf, ro = R.dim(s, d)
                expect_exc = False
            except R.DimError:
                expect_exc = True
            if expect_exc:
                if "parse" in o or "new1" in o or "to" in o:
                    return V("B: composite dimension with an offset base was accepted", [s, d, o])
                continue
            if "parse" not in o or "f" not in o["parse"]:
                return V("B: valid dimension string rejected", [s, d, o.get("parse_exc"), o.get("parse")])
            f, off = hexf(o["parse"]["f"]), hexf(o["parse"]["o"])
            # composition over the library's own base factors: n-1 multiplications and one division, 0.5 ulp each
            pf = 1.0
            for n in num:
                pf *= libbase[n][0]
            pg = 1.0
            for n in den:
                pg *= libbase[n][0]
            want = pf / pg if composite else libbase[names[0]][0]
            if not relclose(f, want, (len(names) + 2) * EPS):
                return V("B/composition: factor of a composite is not the product/quotient of its base factors",
                         {"system": s, "dimension": d, "lib": f, "from_lib_bases": want})
            if not relclose(f, rf, REL_PHYS) or not relclose(off, ro, REL_PHYS):
                return V("B/physical: dimension factor differs from the reference",
                         {"system": s, "dimension": d, "lib": [f, off], "ref": [rf, ro]})
            if composite and off != 0.0:
                return V("B: composite dimension carries an offset", [s, d, off])
            for key in ("new1", "new2") + (("get",) if "get" in o else ()):
                if key not in o or "f" not in o[key]:
                    return V("B: getNewDimension/getDimension failed for a valid string", [s, d, key, o])
                if hexf(o[key]["f"]) != f or hexf(o[key]["o"]) != off:
                    return V("B: getNewDimension/getDimension differs from parse (not idempotent)", [s, d, key, o])
            if not o.get("has_after_new"):
                return V("B: getNewDimension did not register the dimension", [s, d])
            if "to" not in o:
                return V("B: to_si(string) threw for a valid dimension", [s, d, o.get("conv_exc")])
            to, frm = hx(o["to"]), hx(o["from"])
            for i, x in enumerate(xs):
                if not relclose(to[i], f * x + off, 4 * EPS, 4 * EPS * abs(off)):
                    return V("B: to_si(string,x) != factor*x+offset", [s, d, x, to[i]])
                if not relclose(frm[i], (x - off) / f, 8 * EPS, 8 * EPS * abs(off) / abs(f)):
                    return V("B: from_si(string,x) != (x-offset)/factor", [s, d, x, frm[i]])
        return None

    # ---- B'
    def check_Bp(self, case, ctx):
        path = os.path.join(build.REPO, KWDIR, case["file"])
        if not os.path.exists(path):
            raise Discard()
        listed = case["file"] in self.compiled_list()
        try:
            r = ctx.P.call("units_kwjson", path=path)
        except LibError:
            if listed:
                raise
            ctx.label("Bp:unlisted-unloadable")     # a file the build does not use (e.g. an empty stub)
            return None
        if r["builtin"] is None:
            ctx.label("Bp:not-compiled-in")
            if listed:
                return V("Bp: keyword listed in keyword_list.cmake is not known to the parser", case["file"])
            return None
        if not listed:
            ctx.label("Bp:same-name-other-file")     # e.g. a second definition of the name in another directory
            return None
        ctx.label("Bp:compared")
        j, b = r["json"], r["builtin"]
        if any(it["dims"] for rec in j["records"] for it in rec["items"]):
            ctx.label("Bp:has-dimension")
        if j != b:
            diff = {}
            for key in j:
                if j[key] != b.get(key):
                    diff[key] = [j[key], b.get(key)]
            if "records" in diff:
                recs = []
                for i, (rj, rb) in enumerate(zip(j["records"], b["records"])):
                    for a, c in zip(rj["items"], rb["items"]):
                        if a != c:
                            recs.append([i, a, c])
                if recs:
                    diff["records"] = recs[:5]
            return V("Bp: keyword built from the JSON file differs from the compiled-in keyword",
                     {"file": case["file"], "diff": diff})
        return None

    # ---- C
    def check_C(self, case, ctx):
        G = self.G(ctx)
        s = case["system"]
        text, plans = render_case_C(case, G)
        k = G["bykw"][case["kw"]]
        r = ctx.P.call("units_deck", deck=text)
        if r["active"] != SYSNAME[s] or r["default"] != "Metric":
            return V("C: active/default unit system of the deck", [s, r["active"], r["default"]])
        dn = deck_name(k)
        kws = [q for q in r["keywords"] if q["name"] == dn]
        if len(kws) != 1:
            raise RuntimeError("keyword %s not found exactly once in deck: %r" % (dn, text))
        recs = kws[0]["records"]
        if len(recs) != len(plans):
            return V("C: number of records", [case["kw"], len(recs), len(plans), text])
        for (i, rd, per_item), orec in zip(plans, recs):
            if [it["name"] for it in rd["items"]] != [o["name"] for o in orec]:
                raise RuntimeError("record layout differs from grammar: %r" % text)
            for j, (it, o) in enumerate(zip(rd["items"], orec)):
                if not it["dims"]:
                    continue
                isuda = it["type"].endswith("UDA")
                if not (it["type"].endswith("DOUBLE") or isuda):
                    continue
                if j >= len(per_item) and it["size"] == "ALL":
                    continue              # record ended before an ALL item: its length is not part of the property
                seq = expand_entries(per_item[j]) if j < len(per_item) else [("d", None)]
                if it["size"] != "ALL":
                    seq = seq[:1]
                if not seq:
                    continue
                if o["n"] != len(seq):
                    return V("C: number of values of an item", {"kw": case["kw"], "item": it["name"], "got": o["n"],
                                                               "want": len(seq), "deck": text})
                nd = len(it["dims"])
                where = {"kw": case["kw"], "record": i, "item": it["name"], "system": s, "deck": text}
                if R.CONTEXT_DEPENDENT in it["dims"]:
                    ctx.label("C:context-dependent-item")
                    continue
                if not isuda and ("si_exc" in o or "raw0_exc" in o or "raw1_exc" in o or "si2_exc" in o):
                    return V("C: reading a dimensioned item threw", dict(where, obs={q: o[q] for q in o if "exc" in q}))
                for idx, (st_, v) in enumerate(seq):
                    d = it["dims"][idx % nd]
                    w = dict(where, index=idx, dim=d)
                    if o["dflt"][idx] != (st_ == "d"):
                        return V("C: defaultApplied", dict(w, got=o["dflt"][idx]))
                    if st_ == "d":
                        dv = it.get("default")
                        if not it["has_default"] or not isinstance(dv, str) or not dv.lstrip("-").startswith("0x"):
                            continue          # no (finite numeric) default: nothing to convert
                        raw = hexf(dv)
                        f, off = R.dim("METRIC", d)     # defaults are METRIC in every deck unit system
                    else:
                        raw = v
                        f, off = R.dim(s, d)
                    want = raw * f + off
                    # tolerance: the factor agrees to REL_PHYS (see top), the parsed token to ~2 ulp, one multiply and
                    # one add: relative REL_PHYS on each summand
                    tol = REL_PHYS * (abs(raw * f) + abs(off))
                    if isuda:
                        u = o["uda"][idx]
                        if "exc" in u:
                            return V("C: reading a UDA item threw", dict(w, obs=u))
                        if "f_exc" in u["dim"]:
                            return V("C: UDA dimension has no finite factor", dict(w, obs=u))
                        uf, uo = hexf(u["dim"]["f"]), hexf(u["dim"]["o"])
                        if not relclose(uf, f, REL_PHYS) or not relclose(uo, off, REL_PHYS):
                            return V("C: UDA item carries the wrong dimension "
                                     "(active dimension for explicit values, METRIC for defaults)",
                                     dict(w, got=[uf, uo], want=[f, off]))
                        if st_ == "x":
                            if not u["numeric"]:
                                return V("C: numeric UDA value not numeric", dict(w, obs=u))
                            if abs(hexf(u["raw"]) - raw) > 4 * EPS * abs(raw):
                                return V("C: UDA raw value", dict(w, got=hexf(u["raw"]), want=raw))
                            if "si" not in u or abs(hexf(u["si"]) - want) > tol:
                                return V("C: UDA SI value", dict(w, got=u.get("si"), want=want))
                        continue
                    if not o["has"][idx]:
                        continue
                    raw0, si, raw1, si2 = (hexf(o[q][idx]) for q in ("raw0", "si", "raw1", "si2"))
                    if abs(raw0 - raw) > 4 * EPS * abs(raw):
                        return V("C: raw value of item", dict(w, got=raw0, want=raw))
                    if abs(si - want) > tol:
                        return V("C: getSIDouble != value * factor(dimension, unit system) + offset "
                                 "(explicit values: deck unit system; defaulted values: METRIC)",
                                 dict(w, raw=raw, got=si, want=want, defaulted=(st_ == "d")))
                    # lazy in-place conversion: raw -> SI -> raw must give the raw value back (divide after multiply:
                    # 2 ulp; with an offset the cancellation costs eps*|offset|/factor), and SI again the same SI
                    if abs(raw1 - raw0) > 4 * EPS * abs(raw0) + 4 * EPS * abs(off) / abs(f):
                        return V("C: getData<double>() after getSIDoubleData() does not return the raw value",
                                 dict(w, raw0=raw0, raw1=raw1))
                    if abs(si2 - si) > 8 * EPS * abs(si) + 8 * EPS * abs(off):
                        return V("C: second getSIDoubleData() differs from the first", dict(w, si=si, si2=si2))
        return None

    # ---- D: the same SI model written in the four unit systems (deck level, MY dimension per item)
    def check_D(self, case, ctx):
        G = self.G(ctx)
        kw = case["kw"]
        k = G["bykw"].get(kw)
        if k is None or kw not in CURATED or kw in G["excluded"]:
            raise Discard()
        spec = {}
        for (rec, itemno, dims) in CURATED[kw]:
            spec[(rec, itemno - 1)] = dims
        nrec_needed = max(r for (r, _) in spec) + 1
        size_n = 1 if (k["alternating"] or k["size_type"] == "FIXED") else nrec_needed
        nrec = nrecords_for(k, size_n)[0]
        if nrec < nrec_needed:
            raise Discard()
        us = [abs(tok_value(t)) for t in case["u"]]
        cursor = [0]

        def next_u():
            v = us[cursor[0] % len(us)] * (1 + cursor[0] // len(us))
            cursor[0] += 1
            return v

        found = []
        # the model, in SI: value = u * (METRIC unit of my dimension) [+ offset]
        model = {}
        for i in range(nrec):
            rd = record_def(k, i)
            di = record_def_index(k, i)
            for j, it in enumerate(rd["items"]):
                dims = spec.get((di, j))
                if dims is None:
                    continue
                n = len(dims) * case["rows"] if it["size"] == "ALL" else 1
                vals = []
                for c in range(n):
                    d = dims[c % len(dims)]
                    f, off = R.dim("METRIC", d)
                    vals.append((d, next_u() * f + off))
                model[(i, j)] = vals
        for s in R.SYSTEMS:
            records = []
            for i in range(nrec):
                rd = record_def(k, i)
                plan = []
                for j, it in enumerate(rd["items"]):
                    if (i, j) in model:
                        ent = []
                        for (d, x) in model[(i, j)]:
                            f, off = R.dim(s, d)
                            ent.append({"v": repr((x - off) / f)})
                        plan.append(ent)
                    else:
                        plan.append([{"d": 1}])
                records.append(plan)
            c = {"kind": "C", "kw": kw, "system": s, "size_n": size_n, "records": records, "explicit_metric": True}
            text, plans = render_case_C(c, G)
            r = ctx.P.call("units_deck", deck=text)
            dn = deck_name(k)
            kws = [q for q in r["keywords"] if q["name"] == dn]
            if len(kws) != 1 or len(kws[0]["records"]) != nrec:
                raise RuntimeError("D: unexpected deck structure: %r" % text)
            for (i, j), vals in model.items():
                o = kws[0]["records"][i][j]
                it = record_def(k, i)["items"][j]
                if o["name"] != it["name"]:
                    raise RuntimeError("D: item layout")
                if o["n"] != len(vals):
                    return V("D: number of values", [kw, it["name"], o["n"], len(vals), text])
                for idx, (d, x) in enumerate(vals):
                    if it["type"].endswith("UDA"):
                        u = o["uda"][idx]
                        got = hexf(u["si"]) if "si" in u else None
                    else:
                        got = hexf(o["si"][idx]) if "si" in o else None
                    off = R.dim(s, d)[1]
                    # rendering divides by the reference factor (1 ulp + 17-digit text exact), the library multiplies by
                    # its factor (agreeing to REL_PHYS): relative REL_PHYS on value and offset
                    if got is None or abs(got - x) > REL_PHYS * (abs(x) + 2 * abs(off)):
                        found.append(V("D: the same SI quantity written in %s units does not come back as that SI value "
                                 "(item's JSON dimension differs from the physical dimension of the item)" % s,
                                 {"kw": kw, "record": i, "item": it["name"], "item_no": j + 1, "column": idx % len(spec[(record_def_index(k, i), j)]),
                                  "my_dimension": d, "json_dimensions": it["dims"], "si_model": x, "si_from_deck": got,
                                  "system": s, "deck": text},
                                 "dim-%s-%d-%d" % (kw, record_def_index(k, i), j + 1)))
        if not found:
            return None
        # report a not-yet-known item first, so that a listed finding cannot mask another item of the keyword
        from vlib.runner import load_known
        known = {e.get("key") for e in load_known(self.ID) if e.get("status") == "known"}
        for v in found:
            if v["key"] not in known:
                return v
        return found[0]

    # ---- M: whole model through EclipseState / Schedule
    def check_M(self, case, ctx):
        m = case
        exp = model_expect(m)
        nx, ny, nz = m["dims"]
        # direct quantities: text has 17 digits (exact round trip), one division when rendering and one multiplication
        # in the library whose factor agrees to REL_PHYS; volumes/pore volumes are products of 3-5 such numbers
        REL = 1e-11
        ref = None
        # in half of the cases ONE Parser object reads the four decks in turn, in an order that varies from case to case
        # (keyword / item objects belong to the Parser: nothing learnt from a deck in one unit system may reach the next)
        import hashlib as _h
        hv = int(_h.sha256(repr(sorted(m.items(), key=lambda kv: kv[0])).encode()).hexdigest()[:8], 16)
        shared = bool(hv & 1)
        systems = list(R.SYSTEMS)
        if shared:
            rot = (hv >> 1) % len(systems)
            systems = systems[rot:] + systems[:rot]
            if (hv >> 4) & 1:
                systems.reverse()
            ctx.label("M:one-parser-for-the-four-unit-systems")
        for si_, s in enumerate(systems):
            text = render_model(m, s)
            o = ctx.P.call("units_model", deck=text, shared_parser=shared, reset_parser=(shared and si_ == 0))
            if o["units"] != SYSNAME[s]:
                return V("M: unit system of the EclipseState", [s, o["units"]])

            def bad(name, got, want, rel=REL, abs_=0.0):
                if len(got) != len(want):
                    return V("M: size of %s" % name, {"system": s, "got": len(got), "want": len(want)})
                for i, (a, b) in enumerate(zip(got, want)):
                    if isinstance(b, list):
                        r = bad("%s[%d]" % (name, i), a, b, rel, abs_)
                        if r:
                            return r
                    elif not relclose(hexf(a), b, rel, abs_):
                        return V("M: SI value seen through EclipseState/Schedule differs for the same physical model "
                                 "written in %s units" % s, {"quantity": name, "index": i, "got": hexf(a), "want": b,
                                                             "system": s, "deck": text})
                return None

            for name in ("dims", "volume", "depth", "PORO", "NTG", "PERMX", "PERMY", "PERMZ", "PORV", "DENSITY",
                         "PVTW", "ROCK", "PVDO", "PVDG", "SWOF", "SGOF", "EQUIL"):
                r = bad(name, o[name], exp[name])
                if r:
                    return r
            steps = o["steps"]
            secs = [0.0]
            for u in m["TSTEP"]:
                secs.append(secs[-1] + si_of(u, T))
            # the Schedule keeps report times in whole seconds (truncated per step): 1 s per step, absolute; the
            # shortest generated step is 0.5 day, so a wrong time unit (factor 24) is still 4 orders of magnitude away
            r = bad("seconds", [st_["seconds"] for st_ in steps], secs, REL, 1.0 * len(secs))
            if r:
                return r
            w = steps[0]["wells"]
            p, i = m["P1"], m["I1"]
            rates = p["rates"]
            want_prod = [si_of(rates[0], LRATE), si_of(rates[1], LRATE), si_of(rates[2], GRATE), si_of(rates[3], LRATE),
                         si_of(rates[4], RRATE), si_of(p["bhp"], P)]
            pr = p.get("respec") or p
            if p.get("respec") and p["respec"]["later"] and len(m["TSTEP"]) > 1:
                # the second WELSPECS stands in report step 1: step 0 has the first values, the last step the second
                pr = p
                wl = steps[-1]["wells"]
                r = (bad("P1.ref_depth after WELSPECS on the existing well", [wl["P1"]["ref_depth"]], [si_of(p["respec"]["ref"], L)]) or
                     bad("P1.drainage_radius after WELSPECS on the existing well", [wl["P1"]["drainage_radius"]],
                         [si_of(p["respec"]["drad"], L)]))
                if r:
                    return r
            r = (bad("P1.ref_depth", [w["P1"]["ref_depth"]], [si_of(pr["ref"], L)]) or
                 bad("P1.drainage_radius", [w["P1"]["drainage_radius"]], [si_of(pr["drad"], L)]) or
                 bad("P1.production limits (ORAT WRAT GRAT LRAT RESV BHP)", w["P1"]["prod"][:6], want_prod) or
                 bad("I1.ref_depth", [w["I1"]["ref_depth"]], [si_of(i["ref"], L)]) or
                 bad("I1.injection limits (RATE RESV BHP)", w["I1"]["inj"][:3],
                     [si_of(i["rate"], LRATE), si_of(i["resv"], RRATE), si_of(i["bhp"], P)]) or
                 bad("G1.targets (oil water gas liquid)", steps[0]["groups"]["G1"][:4],
                     [si_of(m["G1"][0], LRATE), si_of(m["G1"][1], LRATE), si_of(m["G1"][2], GRATE),
                      si_of(m["G1"][3], LRATE)]))
            if r:
                return r
            for kw in ("VFPPROD", "VFPINJ"):
                v = m.get(kw)
                if not v:
                    continue
                ctx.label("M:" + kw)
                got = steps[0].get(kw.lower())
                if not got:
                    return V("M: %s table missing from the schedule state" % kw, {"system": s, "deck": text})
                d = vfp_dims(v)
                r = bad(kw + " datum depth", [got["datum"]], [si_of(v["datum"], L)])
                for ax in (("flo", "thp", "wfr", "gfr", "alq") if kw == "VFPPROD" else ("flo", "thp")):
                    r = r or bad("%s %s axis (%s)" % (kw, ax.upper(), v.get(ax, "THP")), got[ax], [si_of(u, d[ax]) for u in v[ax + "_axis"]])
                if r:
                    return r
                # table values in the library's storage order vs mine: compared as sorted lists (the layout of the
                # table is not a unit question) and entry by entry through the first row
                want = sorted(si_of(u, P) for row in v["bhp"] for u in row)
                r = bad(kw + " BHP values (sorted)", sorted(got["bhp"], key=hexf), want)
                if r:
                    return r
            c0 = w["P1"]["conns"][0]
            r = bad("P1 connection 1 (CF Kh rw)", c0[:3],
                    [si_of(p["cf"], TRANS), si_of(p["kh"], "Permeability*Length"), si_of(p["diam"], L) / 2])
            if r:
                return r
            r = bad("P1 connection 1 skin", [c0[5]], [p["skin"]])
            if r:
                return r
            # derived quantities (Peaceman CF, Kh, r0, re, connection length of defaulted connections): no formula of
            # mine - only that they are the same in every unit system (inputs agree to ~1e-16, the formula has one
            # log and a handful of products: 1e-9 is generous)
            derived = {"P1": w["P1"]["conns"], "I1": w["I1"]["conns"]}
            if ref is None:
                ref = derived
            else:
                for wn in derived:
                    want = [[hexf(x) for x in cn] for cn in ref[wn]]
                    r = bad("%s connections (CF Kh rw r0 re skin depth length) vs METRIC rendering" % wn, derived[wn],
                            want, 1e-9)
                    if r:
                        return r
        return None

    # ---- E
    def check_E(self, case, ctx):
        s = case["system"]
        r = ctx.P.call("units_output", system=s, fields=[dict(f, data=[float.fromhex(x) for x in f["data"]])
                                                         for f in case["fields"]],
                       extra=[dict(f, data=[float.fromhex(x) for x in f["data"]]) for f in case["extra"]])

        def cmp(tag, flds, frm, back):
            for f in flds:
                data = [float.fromhex(x) for x in f["data"]]
                fac, off = (1.0, 0.0) if s == "INPUT" else R.measure(s, f["measure"])
                got = hx(frm[f["name"]])
                bk = hx(back[f["name"]])
                if len(got) != len(data) or len(bk) != len(data):
                    return V("E: array length changed", [tag, f["name"]])
                for i, x in enumerate(data):
                    want = (x - off) / fac
                    # output value = SI value converted with the same (physical) factor
                    if abs(got[i] - want) > REL_PHYS * (abs(x) + abs(off)) / abs(fac):
                        return V("E: %s convertFromSI value != (SI - offset) / factor" % tag,
                                 {"system": s, "measure": R.MEASURES[f["measure"]][0], "x": x, "got": got[i],
                                  "want": want})
                    if abs(bk[i] - x) > 8 * EPS * abs(x) + 8 * EPS * abs(off):
                        return V("E: %s convertToSI(convertFromSI(x)) != x" % tag,
                                 {"system": s, "measure": R.MEASURES[f["measure"]][0], "x": x, "got": bk[i]})
            return None

        return (cmp("Solution", case["fields"], r["sol_from"], r["sol_back"]) or
                cmp("RestartValue.solution", case["fields"], r["rv_sol_from"], r["rv_sol_back"]) or
                cmp("RestartValue.extra", case["extra"], r["rv_extra_from"], r["rv_extra_back"]))
