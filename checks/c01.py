"""C01 - Deck content is invariant under lexical re-layout of the input."""
import glob
import math
import os
import re

from hypothesis import strategies as st

from vlib import deckgen, layout
from vlib.runner import Check, Discard, sha
from vlib.probe import LibError

SHIPPED = sorted(glob.glob(os.path.join(deckgen.REPO, "tests", "*.DATA")))
SECTIONS = ("RUNSPEC", "GRID", "EDIT", "PROPS", "REGIONS", "SOLUTION", "SUMMARY", "SCHEDULE")


def rewrite_shipped(text, ints):
    """line-level, meaning-preserving rewrites of a shipped deck (no item structure known):
    R1 comment lines / trailing comments, R2 blank lines, R3 trailing blanks and tabs, R6 text after a lone
    terminating slash, R7 moving whole sections into INCLUDE files.  -> (root text, {include name: text}, rules)"""
    from vlib.schedcut import strip_comment
    ch = layout.Choices(ints)
    lines = text.split("\n")
    out = []
    prev_title = False
    for ln in lines:
        bare = strip_comment(ln).strip()
        if not prev_title:
            if ch.chance(1, 15, "R2-blank"):
                out.append("")
            if ch.chance(1, 15, "R1-comment"):
                out.append(layout.COMMENTS[ch.n(len(layout.COMMENTS))])
            if bare == "/" and ch.chance(1, 4, "R6-tail"):
                ln = ln.rstrip() + " " + layout.TAILS[ch.n(len(layout.TAILS))]
            elif bare and "'" not in ln and '"' not in ln and "--" not in ln and ch.chance(1, 12, "R1-comment"):
                ln = ln + "  " + layout.COMMENTS[ch.n(len(layout.COMMENTS))]
            elif ch.chance(1, 12, "R3-space"):
                ln = ln + " \t "
        prev_title = bare.upper() == "TITLE"
        out.append(ln)
    incs = {}
    if ch.chance(1, 2, "R7-include"):
        # move one whole section (from its header line to the line before the next section header) into a file
        heads = [i for i, l in enumerate(out) if strip_comment(l).strip().upper() in SECTIONS and l[:1] not in " \t"]
        if len(heads) >= 3:
            k = 1 + ch.n(len(heads) - 2)
            a, b = heads[k], heads[k + 1]
            name = "_vc01_inc_%d.inc" % os.getpid()
            incs[name] = "\n".join(out[a:b]) + "\n"
            out = out[:a] + ["INCLUDE", " '%s' /" % name] + out[b:]
    return "\n".join(out), incs, dict(ch.used)


def ulp_close(a_hex, b_hex, n=2):
    a = float.fromhex(a_hex) if isinstance(a_hex, str) else float(a_hex)
    b = float.fromhex(b_hex) if isinstance(b_hex, str) else float(b_hex)
    if a == b:
        return True
    if a == 0 or b == 0:
        return abs(a - b) <= n * 5e-324
    return abs(a - b) <= n * math.ulp(max(abs(a), abs(b)))


def strip_unit_noise(d):
    return d


def compare_model(deck, dump):
    """oracle (2): parsed content equals what the generator wrote"""
    exp = deckgen.expected_dump(deck)
    if [e["kw"] for e in exp] != [k["kw"] for k in dump]:
        return ("keyword sequence", {"want": [e["kw"] for e in exp], "got": [k["kw"] for k in dump]})
    for e, k in zip(exp, dump):
        if len(e["recs"]) != len(k["recs"]):
            return ("number of records", {"kw": e["kw"], "want": len(e["recs"]), "got": len(k["recs"])})
        for ri, (er, kr) in enumerate(zip(e["recs"], k["recs"])):
            if e.get("kind") == "title":
                got = [v for it in kr for v in it["v"]]
                if got != [w[1] for w in er[0]]:
                    return ("TITLE words", {"want": er, "got": got})
                continue
            if len(er) != len(kr):
                return ("number of items", {"kw": e["kw"], "rec": ri, "want": len(er), "got": len(kr)})
            for ii, (ei, ki) in enumerate(zip(er, kr)):
                if ki["sz"] != len(ei) or len(ki["st"]) != len(ei):
                    return ("item size", {"kw": e["kw"], "rec": ri, "item": ki["n"], "want": len(ei), "got": ki["sz"]})
                for vi, ((st_, val), gst, gval) in enumerate(zip(ei, ki["st"], ki["v"])):
                    where = {"kw": e["kw"], "rec": ri, "item": ki["n"], "idx": vi, "want": [st_, val], "got": [gst, gval]}
                    if st_ != gst:
                        return ("default flag / value status", where)
                    if st_ == 2:
                        continue
                    t = ki["t"]
                    if t == 1:
                        ok = val == gval
                    elif t in (2, 3):
                        ok = str(val) == gval
                    elif t == 4:
                        ok = ulp_close(val, gval)
                    elif t == 5:
                        if st_ == 1:
                            # a defaulted UDA item: DeckItem::get<UDAValue> hands back a value-less UDA carrying
                            # only the dimension when the item is dimensioned; the property does not say what a
                            # defaulted UDA holds, so only the status is asserted (layouts are still compared)
                            ok = True
                        elif gval[0] == "undef":
                            ok = False
                        elif val[0] == "s":
                            ok = gval[0] == "s" and gval[1] == val[1]
                        else:
                            ok = gval[0] == "d" and ulp_close(val[1], gval[1])
                    else:
                        ok = False
                    if not ok:
                        return ("item value", where)
    return None


def first_diff(a, b, path=""):
    if type(a) != type(b):
        return path, a, b
    if isinstance(a, dict):
        for k in sorted(set(a) | set(b)):
            if k not in a or k not in b:
                return path + "/" + k, a.get(k), b.get(k)
            d = first_diff(a[k], b[k], path + "/" + k)
            if d:
                return d
        return None
    if isinstance(a, list):
        if len(a) != len(b):
            return path + "/len", len(a), len(b)
        for i, (x, y) in enumerate(zip(a, b)):
            d = first_diff(x, y, "%s[%d]" % (path, i))
            if d:
                return d
        return None
    return None if a == b else (path, a, b)


@st.composite
def case_strategy(draw):
    deck = draw(deckgen.gen_deck())
    la = draw(st.lists(st.integers(0, 65536), min_size=30, max_size=120))
    lb = draw(st.lists(st.integers(0, 65536), min_size=30, max_size=120))
    return {"deck": deck, "la": la, "lb": lb}


class C01(Check):
    ID = "C01"
    PROBE_GROUP = "deck"
    RULE = ("Abstract decks of 1..8 keywords drawn from the parser's own keyword definitions (share/keywords JSON; "
            "size classes empty/fixed/data/slash-terminated/sized-by-other-keyword/table collection/double-slash/UNKNOWN/"
            "TITLE; item types INT/DOUBLE/STRING/UDA, SINGLE and ALL; defaults, n*v, n*), size keywords added by "
            "construction; each rendered canonically and in two independently rewritten layouts (R1 comments, R2 blank "
            "lines, R3 blanks/tabs, R4 keyword case, R5 line breaks before non-bare tokens, R6 text after slash, R7 INCLUDE "
            "splitting incl. nested, R8 repeat counts / split defaults / early record end).  Oracles: dump(A) == dump(B) == "
            "dump(canonical) over keyword names, record/item structure, status flags, raw values (hex) and SI values; and "
            "dump(canonical) == the generator's model.  Non-trivial: >= 2 distinct rewrite rules fired and the deck has a "
            "record with >= 2 items or an ALL item with >= 3 values; distinct by (keyword names, rule set, texts).")
    ASSUMPTIONS = ["raw-string keywords (UDQ, ACTIONX conditions), code keywords, ROCK and parser directives are not generated",
                   "line breaks are only inserted before tokens that start with a digit, sign, '.', or quote",
                   "text after a slash contains no quote and no slash; doubles compared with the model to 2 ulp "
                   "(the parser's decimal conversion is not guaranteed correctly rounded), bit-for-bit between layouts"]
    EXAMPLES = {"quick": 250, "thorough": 3000}
    MIN_EVALS = {"quick": 2000, "thorough": 20000}
    LEVEL_TEXT = ("Generated-input search: grammar-derived decks x compositions of eight layout rewrites, judged by a "
                  "metamorphic oracle (all layouts give the identical Deck dump, doubles bit for bit) and a model oracle "
                  "(the dump equals the values the generator wrote).")
    LEVEL_NOTE = ("Trusted: the Python renderer's statement of which rewrites preserve meaning (taken from the property text), "
                  "and the JSON keyword definitions as the grammar.")
    TECHNIQUE = "property-based testing: grammar-based generation + metamorphic relation (layout invariance) + model oracle"

    def strategy(self, tier):
        return case_strategy()

    def enumerate(self, tier):
        nlay = 2 if tier == "quick" else 12
        for p in SHIPPED:
            for k in range(nlay):
                h = int(sha([os.path.basename(p), k], 8), 16)
                ints = [(h >> (i % 24)) * 2654435761 % 65537 for i in range(60)]
                yield {"shipped": os.path.relpath(p, deckgen.REPO), "ints": ints}

    def classify(self, case):
        if "shipped" in case:
            return True, "shipped:%s:%s" % (case["shipped"], sha(case["ints"], 6)), ["shipped-deck"]
        deck = case["deck"]
        labels = []
        rules = set()
        for key in ("la", "lb"):
            _, _, used = layout.render(deck, case[key])
            rules |= set(used)
        for r in rules:
            labels.append(r)
        big = False
        for kw in deck["kws"]:
            labels.append("kind:" + kw["kind"])
            recs = list(kw.get("recs", []))
            for t in kw.get("tables", []):
                recs += t
            for s in kw.get("sets", []):
                recs += s
            for r in recs:
                if len(r["model"]) >= 2 or any(len(m) >= 3 for m in r["model"]):
                    big = True
                for a in r["atoms"]:
                    labels.append("atom:" + ("default" if a[0] == "d" else "repeat" if a[0] == "r" else "value"))
        labels = sorted(set(labels))
        if deck.get("unit"):
            labels.append("unit-keyword")
        nontriv = len(rules) >= 2 and big
        fp = sha([[k["name"] for k in deck["kws"]], sorted(rules), case["la"][:8], case["lb"][:8]], 16)
        return nontriv, fp, labels

    def sample_view(self, case):
        if "shipped" in case:
            return {"shipped": case["shipped"]}
        files, root, used = layout.render(case["deck"], case["la"])
        return {"layout_A": files, "rules_A": used, "keywords": [k["name"] for k in case["deck"]["kws"]]}

    def parse_files(self, P, files, root):
        if len(files) == 1:
            return P.call("parse", text=files[root])["deck"]
        return P.call("parse", files=files, root=root)["deck"]

    def check_shipped(self, case, ctx):
        P = ctx.P
        p = os.path.join(deckgen.REPO, case["shipped"])
        text = open(p, encoding="latin-1").read()
        if "PYINPUT" in text or "PYACTION" in text:
            raise Discard()
        try:
            base = P.call("parse", path=p, ctx="default")["deck"]
        except LibError:
            raise Discard()          # a shipped deck that does not parse on its own
        root, incs, used = rewrite_shipped(text, case["ints"])
        d = os.path.dirname(p)
        tmp = os.path.join(d, "_VC01_%d.DATA" % os.getpid())
        written = [tmp]
        try:
            with open(tmp, "w", encoding="latin-1") as f:
                f.write(root)
            for name, t in incs.items():
                written.append(os.path.join(d, name))
                with open(written[-1], "w", encoding="latin-1") as f:
                    f.write(t)
            for k in used:
                ctx.label("shipped:" + k)
            try:
                other = P.call("parse", path=tmp, ctx="default")["deck"]
            except LibError as e:
                return {"rule": "layout: a meaning-preserving rewrite of a shipped deck is rejected", "key": None,
                        "detail": {"deck": case["shipped"], "rules": used, "error": str(e)[:500]}}
        finally:
            for w in written:
                if os.path.exists(w):
                    os.unlink(w)
        diff = first_diff(base, other)
        if diff:
            return {"rule": "layout: Deck of a shipped deck differs after a meaning-preserving rewrite", "key": None,
                    "detail": {"deck": case["shipped"], "where": diff[0], "original": diff[1], "rewritten": diff[2], "rules": used}}
        return None

    def check(self, case, ctx):
        if "shipped" in case:
            return self.check_shipped(case, ctx)
        P = ctx.P
        deck = case["deck"]
        cfiles, root, _ = layout.render(deck, canonical=True)
        # canonical layout rejected => generator problem (counted as rejected_by_library)
        cdump = P.call("parse", text=cfiles[root])["deck"]
        r = compare_model(deck, cdump)
        if r:
            return {"rule": "model: parsed content differs from what was written: " + r[0],
                    "detail": {"diff": r[1], "text": cfiles[root][:1500]}, "key": None}
        for key in ("la", "lb"):
            files, root, used = layout.render(deck, case[key])
            try:
                d = self.parse_files(P, files, root)
            except LibError as e:
                return {"rule": "layout: a meaning-preserving rewrite is rejected while the canonical text parses",
                        "detail": {"error": str(e)[:500], "rules": used, "files": files, "canonical": cfiles["ROOT.DATA"][:1500]},
                        "key": None}
            diff = first_diff(cdump, d)
            if diff:
                return {"rule": "layout: Deck differs between two layouts of the same content",
                        "detail": {"where": diff[0], "canonical": diff[1], "rewritten": diff[2], "rules": used,
                                   "files": files, "canonical_text": cfiles["ROOT.DATA"][:1500]}, "key": None}
        return None
