"""C04 - applying an ACTIONX equals inlining its keywords; earlier steps are immutable."""
import json
import os
import re

from hypothesis import strategies as st

from vlib import modelgen as MG
from vlib.runner import Check, Discard, sha
from vlib.probe import LibError

ACTIONX_WELL_EVENT = 1 << 20

BODY = ["welopen", "wconprod", "wconinje", "weltarg", "wefac", "gconprod", "gconinje", "wgrupcon", "wtest", "wecon", "nextstep",
        "gruptree", "wlist", "udq", "actionextra"]
KINDS = ["actionx", "actionx", "welspecs", "compdat", "wconprod", "wconinje", "wconhist", "welopen", "weltarg", "wefac", "gefac",
         "gruptree", "gconprod", "gconinje", "wgrupcon", "wlist", "wtest", "wecon", "misc", "udq", "wellextra", "groupextra"]


@st.composite
def case_strategy(draw):
    m = MG.Model()
    m.action_body = BODY
    # one case in six: action bodies may hold WELPI.  Inside an action WELPI rescales the connection factors at once,
    # with the current productivity index supplied by the caller of applyAction - that has no counterpart in a deck
    # with the keyword inlined, so only the immutability half of the property is judged for these cases
    welpi = draw(st.integers(0, 5)) == 0
    if welpi:
        m.action_body = BODY + ["welpi", "welpi", "welpi"]
    nb = draw(st.integers(2, 5))
    blocks = []
    snaps = []
    for b in range(nb):
        blocks.append(draw(MG.gen_block(m, first=(b == 0), kinds=KINDS, single=True, maxkw=5)))
        snaps.append(m.clone())
    final = []
    for _ in range(draw(st.integers(0, 2))):
        t = draw(MG.gen_kw(m, draw(st.sampled_from(KINDS))))
        if t:
            final.append(t)
    if not m.action_defs:
        # guarantee an action
        blocks[0]["kws"].append(draw(MG.kw_actionx(snaps[0])))
        for k, v in snaps[0].action_defs.items():
            v = dict(v, def_step=0)
            for s_ in snaps + [m]:
                s_.action_defs.setdefault(k, v)
    nstates = nb + 1
    apps = []
    nmin = 0
    # scenario (one case in six): an action that creates a NEW well (WELSPECS + COMPDAT, layers not in track order),
    # applied at a report step whose own keywords set the connection ordering of new wells (COMPORD)
    if draw(st.integers(0, 5)) == 0:
        b = draw(st.integers(0, nb - 1))
        name = "AN%d" % (len(m.action_defs) + 1)
        ordk = draw(st.sampled_from(["INPUT", "DEPTH", "INPUT"]))
        pat = draw(st.sampled_from(["*", "NW*", "NW1"]))
        i, j = draw(st.integers(1, MG.NX)), draw(st.integers(1, MG.NY))
        body = ["WELSPECS\n 'NW1' 'G1' %d %d 1* 'OIL' /\n/\n" % (i, j),
                "COMPDAT\n 'NW1' %d %d 3 3 'OPEN' 1* 1* 0.2 /\n 'NW1' %d %d 1 1 'OPEN' 1* 1* 0.2 /\n/\n" % (i, j, i, j)]
        text = "ACTIONX\n '%s' 1 /\n FOPR > 50 /\n/\n" % name + "".join(body) + "ENDACTIO\n"
        where = draw(st.integers(0, b))
        blocks[where]["kws"].append(text)
        blocks[b]["kws"].insert(draw(st.integers(0, len(blocks[b]["kws"]))), "COMPORD\n '%s' '%s' /\n/\n" % (pat, ordk))
        m.action_defs[name] = {"body": body, "qkind": "none", "def_step": where}
        apps.append({"action": name, "step": b, "wells": []})
        nmin = b
    for _ in range(draw(st.integers(1, 3))):
        names = sorted(a for a, d in m.action_defs.items() if d["def_step"] < nstates)
        a = draw(st.sampled_from(names))
        d = m.action_defs[a]
        lo = max(nmin, d["def_step"])
        if lo > nstates - 1:
            break
        n = draw(st.integers(lo, nstates - 1))
        nmin = n
        # wells existing at step n (with connections), of the kind the '?' records need
        snap = snaps[min(n, nb - 1)] if n < nb else m
        if n < nb:
            # state n contains the keywords of block n; wells created in block n exist at n
            snap = snaps[n]
        pool = [w for w, W in sorted(snap.wells.items()) if W["conns"] and (d["qkind"] in ("none", "any") or W["kind"] == d["qkind"])]
        if d["qkind"] != "none" and not pool:
            continue
        wells = draw(st.lists(st.sampled_from(pool), min_size=1 if d["qkind"] != "none" else 0, max_size=3, unique=True)) if pool else []
        apps.append({"action": a, "step": n, "wells": wells})
    unit = draw(st.sampled_from(["METRIC", "METRIC", "FIELD", "LAB", "PVT-M"]))
    case = {"unit": unit, "blocks": blocks, "final": final, "apps": apps,
            "bodies": {a: d["body"] for a, d in m.action_defs.items()}}
    if welpi:
        case["wellpi"] = {w: 2.5 for w in sorted(m.wells)}
    return case


def expand(body, wells):
    """the action's keywords with the matching wells substituted for '?' (one record per well)"""
    out = []
    for t in body:
        if "'?'" not in t:
            out.append(t)
            continue
        lines = t.split("\n")
        new = []
        for ln in lines:
            if "'?'" in ln:
                for w in wells:
                    new.append(ln.replace("'?'", "'%s'" % w))
            else:
                new.append(ln)
        out.append("\n".join(new))
    return out


def deck_text(case, inline):
    blocks = [dict(b, kws=list(b["kws"])) for b in case["blocks"]]
    final = list(case["final"])
    if inline:
        for app in case["apps"]:
            kws = expand(case["bodies"][app["action"]], app["wells"])
            if app["step"] < len(blocks):
                blocks[app["step"]]["kws"].extend(kws)
            else:
                final.extend(kws)
    return MG.render(blocks, case["unit"], final)


def diff_masked(a, b, path=""):
    """first difference, tolerating integers that differ exactly by the ACTIONX_WELL_EVENT bit"""
    if type(a) != type(b):
        return path, a, b
    if isinstance(a, list):
        if len(a) != len(b):
            return path + "/len", len(a), len(b)
        for i, (u, v) in enumerate(zip(a, b)):
            r = diff_masked(u, v, "%s/%d" % (path, i))
            if r:
                return r
        return None
    if a == b:
        return None
    if isinstance(a, int) and not isinstance(a, bool) and (a ^ b) == ACTIONX_WELL_EVENT:
        return None
    return path, a, b


def strip_empty_event_entries(x):
    return x


class C04(Check):
    ID = "C04"
    PROBE_GROUP = "sched"
    PROBE_ENV = {"OMP_NUM_THREADS": "1"}
    RULE = ("Generated schedules (curated handler set, single-step DATES/TSTEP blocks, METRIC/FIELD) holding 1..4 ACTIONX blocks whose "
            "bodies are drawn from WELOPEN (whole well) WCONPROD WCONINJE WELTARG WEFAC GCONPROD GCONINJE WGRUPCON WTEST WECON NEXTSTEP with "
            "explicit wells or the '?' placeholder; histories of 1..3 applications (action, report step n >= definition step, matching "
            "wells drawn from the wells existing at n) with non-decreasing n.  Oracle: after Schedule::applyAction for the whole history, "
            "every state j > n is identical (structural dump of all serialized members) to the schedule built from the deck with the "
            "bodies inlined, '?' expanded per matching well, at the end of block n in application order; state n is identical up to the "
            "ACTIONX_WELL_EVENT bit; every state j < n_first is identical to its dump before the first application.  Non-trivial: a body "
            "keyword names a well/group existing at n, n is not the last step; labels count '?' use and strict subsets."
            " Extended during the build phase: bodies also hold GRUPTREE WLIST UDQ GCONSUMP NEXT COMPLUMP WELSPECS WTMULT; one case in six allows WELPI bodies (current PI supplied to applyAction) and is judged on the immutability half only; one case in six scripts an action that creates a new well (WELSPECS + COMPDAT out of track order) at a report step whose own keywords hold COMPORD.")
    ASSUMPTIONS = ["WPIMULT and connection-level WELOPEN / COMPDAT bodies (per-report-step semantics, exempted by the statement) are not generated "
                   "(tried: a COMPDAT body re-opening the only, shut, connection of a well differs in the well status at step n - the exempted "
                   "automatic shut-in class - so COMPDAT bodies were taken out again)",
                   "PYACTION is not exercised (no embedded Python in this build)", "SimulatorUpdate contents are not asserted"]
    EXAMPLES = {"quick": 150, "thorough": 2500}
    MIN_EVALS = {"quick": 500, "thorough": 10000}
    TIME_CAP = {"quick": 200, "thorough": 1500}
    LEVEL_TEXT = ("Generated histories of action applications, judged differentially: the schedule after applyAction versus the schedule "
                  "built from the inlined deck, state by state over all serialized members, plus immutability of earlier states.")
    LEVEL_NOTE = "Trusted: the text-level inliner in checks/c04.py as the statement of 'as if written in the input'."
    TECHNIQUE = "property-based testing: generated action histories, differential oracle (applyAction vs inlined deck) + invariant (earlier states unchanged)"

    def strategy(self, tier):
        return case_strategy()

    def classify(self, case):
        labels = ["unit:" + case["unit"], "apps:%d" % len(case["apps"])]
        nstates = len(case["blocks"]) + 1
        nontriv = False
        for app in case["apps"]:
            body = "".join(case["bodies"][app["action"]])
            if "'NW1'" in body:
                labels.append("scenario:action-creates-a-well-in-a-step-with-COMPORD")
            if "'?'" in body:
                labels.append("placeholder-?")
                if len(app["wells"]) >= 2:
                    labels.append("multi-well-match")
            for kw in re.findall(r"^([A-Z]+)$", body, re.M):
                labels.append("body:" + kw)
            if app["step"] < nstates - 1 and (app["wells"] or "'" in body):
                nontriv = True
            if app["step"] == nstates - 1:
                labels.append("applied-at-last-step")
        if len({a["step"] for a in case["apps"]}) < len(case["apps"]):
            labels.append("same-step-twice")
        return nontriv and bool(case["apps"]), sha([deck_text(case, True)], 16), sorted(set(labels))

    def sample_view(self, case):
        return {"apps": case["apps"], "schedule": deck_text(case, False)[len(MG.prelude(case["unit"])):],
                "bodies": case["bodies"]}

    def check(self, case, ctx):
        P = ctx.P
        if not case["apps"]:
            raise Discard()
        plain = deck_text(case, False)
        inl = deck_text(case, True)
        welpi = "wellpi" in case and any("WELPI\n" in t for a in case["apps"] for t in case["bodies"][a["action"]])
        r = P.call("sched_apply", text=plain, apps=case["apps"], wellpi=case.get("wellpi") or {})      # LibError: generator problem or refused body
        ref = r["before"] if welpi else P.call("sched_states", text=inl)
        before, after = r["before"]["dumps"], r["after"]["dumps"]
        n = len(before)
        if len(after) != n or ref["nsteps"] != n:
            return {"rule": "number of states changed", "detail": [n, len(after), ref["nsteps"]], "key": None}
        steps = [a["step"] for a in case["apps"]]
        nfirst, nmax = min(steps), max(steps)

        def V(rule, j, d, other):
            pl = len(MG.prelude(case["unit"]))
            return {"rule": rule, "detail": {"state": j, "where(serialized member path)": d[0], "applyAction": d[1], other: d[2],
                                             "apps": case["apps"], "deck": plain[pl:], "inlined": inl[pl:]}, "key": None}

        for j in range(nfirst):
            if before[j] != after[j]:
                d = diff_masked(json.loads(before[j]), json.loads(after[j])) or ("?", None, None)
                return V("state before the first application was modified by applyAction", j, (d[0], d[2], d[1]), "before")
        if welpi:
            ctx.label("welpi-body:immutability-of-earlier-states-only")
            return None
        for j in range(nfirst, n):
            if after[j] == ref["dumps"][j]:
                continue
            a, b = json.loads(after[j]), json.loads(ref["dumps"][j])
            if j in steps:
                d = diff_masked(a, b)
            else:
                from checks.c03 import first_diff
                d = first_diff(a, b)
            if d:
                return V("state %s differs from the schedule of the inlined deck" % ("n" if j in steps else "after n"), j, d, "inlined")
        return None
