"""C07 - Eclipse array files round-trip and conform to the published layout."""
import math
import os

from hypothesis import strategies as st

from vlib import eclcodec as EC
from vlib.runner import Check, Discard, sha
from vlib.probe import LibError

NUMERIC = ["INTE", "REAL", "DOUB", "LOGI"]
BOUNDARY_NUM = [0, 1, 2, 3, 4, 5, 6, 7, 24, 25, 26, 104, 105, 106, 999, 1000, 1001, 1002,
                1999, 2000, 2001, 2002, 2999, 3000, 3001]
BOUNDARY_CHR = [0, 1, 2, 6, 7, 8, 13, 14, 15, 104, 105, 106, 107, 209, 210, 211, 212]

EXT32 = [0x00000000, 0x80000000, 0x00000001, 0x80000001, 0x007FFFFF, 0x00800000, 0x7F7FFFFF,
         0xFF7FFFFF, 0x3F800000, 0xBF800000, 0x7F800000, 0xFF800000, 0x7FC00000, 0x7FC12345,
         0xFFC00001, 0x501502F9, 0x0DA24260]
EXT64 = [0x0, 0x8000000000000000, 0x1, 0x8000000000000001, 0x000FFFFFFFFFFFFF, 0x0010000000000000,
         0x7FEFFFFFFFFFFFFF, 0xFFEFFFFFFFFFFFFF, 0x3FF0000000000000, 0x7FF0000000000000,
         0xFFF0000000000000, 0x7FF8000000000000, 0x7FF8000000012345, 0x54B249AD2594C37D,
         0x2B2BFF2EE48E0530, 0x0A1C0F92A2A0E0BC, 0x4B3B4CA85A86C47A, 0x3330EC9CF8F4A8F0]
EXTI = [0, 1, -1, 2147483647, -2147483648, 99999999999 % 2 ** 31, -99999999, 123456789]
NAMECH = "ABCDEFGHIJKLMNOPQRSTUVWXYZ0123456789_+-*/.:;<>=()[]{}!?#$%&@^~|\\\"` ,abcxyz"


def finite32(b):
    return (b >> 23) & 0xFF != 0xFF


def finite64(b):
    return (b >> 52) & 0x7FF != 0x7FF


def expand(t, base, n, fmt_finite):
    """deterministic expansion of a short base list to n elements; position dependent"""
    m = len(base)
    out = []
    for i in range(n):
        b = base[i % m]
        if t == "INTE":
            v = b + (i // m) * 7919
            v = (v + 2 ** 31) % 2 ** 32 - 2 ** 31
        elif t == "REAL":
            v = b ^ ((i // m) & 0x3FF)          # low mantissa bits: class (finite/nan/inf-ness) mostly kept
            if fmt_finite and not finite32(v):
                v = b
        elif t == "DOUB":
            v = b ^ ((i // m) & 0xFFFF)
            if fmt_finite and not finite64(v):
                v = b
        elif t == "LOGI":
            v = b ^ (((i // m) % 3) & 1)
        else:
            v = b
        out.append(v)
    return out


def str_strategy(maxlen, formatted):
    alpha = NAMECH.replace("'", "")
    return st.text(alphabet=alpha, min_size=0, max_size=maxlen).map(lambda s: s.rstrip(" "))


def name_strategy():
    return st.text(alphabet=NAMECH, min_size=1, max_size=8).map(lambda s: s.rstrip(" ")).filter(lambda s: len(s) > 0)


@st.composite
def array_strategy(draw, formatted, big):
    t = draw(st.sampled_from(["INTE", "REAL", "DOUB", "LOGI", "CHAR", "C0NN", "MESS", "INTE", "REAL", "DOUB"]))
    a = {"name": draw(name_strategy()), "type": t}
    if t == "MESS":
        return a
    if t in ("CHAR", "C0NN"):
        n = draw(st.one_of(st.sampled_from(BOUNDARY_CHR), st.integers(0, 330)))
        w = 8
        if t == "C0NN":
            w = draw(st.sampled_from([9, 10, 16, 17, 23, 24, 37, 38, 40, 77, 78, 99]) | st.integers(9, 99))
            a["elsize"] = w
        base = draw(st.lists(str_strategy(w, formatted), min_size=1, max_size=9))
        # make sure full-width and empty strings occur
        if draw(st.booleans()):
            base.append("X" * w)
        if draw(st.booleans()):
            base.append("")
        a["base"] = base
        a["n"] = n
        return a
    n = draw(st.one_of(st.sampled_from(BOUNDARY_NUM), st.integers(0, 2100),
                       st.integers(0, 50000) if big else st.integers(0, 3100)))
    if t == "INTE":
        base = draw(st.lists(st.one_of(st.sampled_from(EXTI), st.integers(-2 ** 31, 2 ** 31 - 1)), min_size=1, max_size=11))
    elif t == "REAL":
        base = draw(st.lists(st.one_of(st.sampled_from(EXT32), st.integers(0, 2 ** 32 - 1)), min_size=1, max_size=11))
    elif t == "DOUB":
        base = draw(st.lists(st.one_of(st.sampled_from(EXT64), st.integers(0, 2 ** 64 - 1)), min_size=1, max_size=11))
    else:
        base = draw(st.lists(st.integers(0, 1), min_size=1, max_size=11))
    a["base"] = base
    a["n"] = n
    return a


@st.composite
def case_strategy(draw, big):
    formatted = draw(st.booleans())
    ix = draw(st.booleans())
    narr = draw(st.integers(1, 8))
    arrays = [draw(array_strategy(formatted, big)) for _ in range(narr)]
    return {"formatted": formatted, "ix": ix, "arrays": arrays, "perm": draw(st.integers(0, 10 ** 6))}


def materialise(case):
    arrs = []
    for a in case["arrays"]:
        b = {"name": a["name"], "type": a["type"]}
        if a["type"] == "C0NN":
            b["elsize"] = a["elsize"]
        if a["type"] != "MESS":
            if a["type"] in ("CHAR", "C0NN"):
                base = a["base"]
                b["data"] = [base[i % len(base)] for i in range(a["n"])]
            else:
                b["data"] = expand(a["type"], a["base"], a["n"], False)
        arrs.append(b)
    return arrs


def to_wire(arrs):
    """arrays in probe wire format"""
    out = []
    for a in arrs:
        w = dict(a)
        if a["type"] == "DOUB":
            d = []
            for b in a["data"]:
                if not finite64(b):
                    if b & 0x000FFFFFFFFFFFFF:
                        d.append("nan:%016x" % b)
                    else:
                        d.append("-inf" if b >> 63 else "inf")
                else:
                    d.append(EC.f64(b).hex())
            w["data"] = d
        out.append(w)
    return out


def dbits(x):
    if isinstance(x, str) and x.startswith("nan:"):
        return int(x[4:], 16)
    if x == "inf":
        return 0x7FF0000000000000
    if x == "-inf":
        return 0xFFF0000000000000
    return EC.bits64(float.fromhex(x))


def close_real(want_bits, got, is_float_result):
    """formatted REAL: 8 significant digits"""
    w = EC.f32(want_bits)
    if math.isnan(w):
        return math.isnan(got)
    if math.isinf(w):
        return got == w
    tol = 5.0e-8 * abs(w) * (1 + 1e-9)
    if is_float_result:
        tol += abs(w) * 2.0 ** -24 + 2.0 ** -149
    return abs(got - w) <= tol


def close_doub(want_bits, got):
    w = EC.f64(want_bits)
    if math.isnan(w):
        return math.isnan(got)
    if math.isinf(w):
        return got == w
    return abs(got - w) <= 5.0e-14 * abs(w) * (1 + 1e-9) + abs(w) * 2.0 ** -52 + 5e-324


class C07(Check):
    ID = "C07"
    RULE = ("Sequences of 1..8 named arrays (INTE/REAL/DOUB/LOGI/CHAR/C0nn/MESS) with lengths from the "
            "block-boundary set, 0..2100 and larger, values expanded position-dependently from extreme and random "
            "bit patterns, x {formatted,unformatted} x {ECL,IX}; enumerated part: every type x boundary lengths "
            "(quick) or every length 0..2002 / 0..212 (thorough) x 4 modes.  Oracles: independent Python decoder of "
            "the library's bytes, independent encoder byte-equality, library reader on library and on reference "
            "files in permuted access order.  Non-trivial: some array longer than one block (>1000 numbers / >105 "
            "strings), or of length block*k+-1, or holding an extreme value; distinct by (type, length class, "
            "format, flavour, extreme?) multiset.")
    ASSUMPTIONS = ["arrays with >= 2^31 elements (X231 headers) are not materialised",
                   "strings/names carry no trailing blank (indistinguishable in a blank-padded format) and, in "
                   "formatted files, no single quote",
                   "formatted REAL compared to 8 and DOUB to 14 significant digits"]
    EXAMPLES = {"quick": 300, "thorough": 4000}
    MIN_EVALS = {"quick": 800, "thorough": 20000}
    EXHAUSTIVE = True
    PROBE_GROUP = "eclio"
    LEVEL_TEXT = ("Generated-input search with three independent oracles: a Python codec written from the published "
                  "layout decodes the library's bytes and must reproduce the input; its encoder must produce the same "
                  "bytes; the library reader must return the input from both files under permuted random access. "
                  "Lengths 0..2002 (numeric) / 0..212 (strings) x 4 modes are enumerated completely in the thorough "
                  "tier, block-boundary lengths in the quick tier; the rest is sampled.")
    LEVEL_NOTE = ("Trusted: the Python reference codec (vlib/eclcodec.py) as a statement of the Eclipse layout; "
                  ">= 2^31-element arrays not reachable; formatted reals compared to printed precision.")
    TECHNIQUE = "property-based testing: exhaustive small lengths + Hypothesis, reference codec (differential + round trip)"

    def strategy(self, tier):
        return case_strategy(big=(tier == "thorough"))

    def enumerate(self, tier):
        if tier == "quick":
            num, chr_ = BOUNDARY_NUM, BOUNDARY_CHR
        else:
            num, chr_ = range(0, 2003), range(0, 213)
        for formatted in (False, True):
            for ix in (False, True):
                for t in NUMERIC:
                    for n in num:
                        if t == "INTE":
                            base = EXTI + [n * 31 + 5]
                        elif t == "REAL":
                            base = [b for b in EXT32] + [(n * 2654435761 + 12345) & 0x7F7FFFFF]
                        elif t == "DOUB":
                            base = [b for b in EXT64] + [(n * 0x9E3779B97F4A7C15) & 0x7FEFFFFFFFFFFFFF]
                        else:
                            base = [1, 0, 0, 1, 1, 1, 0]
                        yield {"formatted": formatted, "ix": ix, "perm": n,
                               "arrays": [{"name": "A%d" % n, "type": t, "base": base, "n": n}]}
                for t in ("CHAR", "C0NN"):
                    for n in chr_:
                        a = {"name": "S%d" % n, "type": t, "n": n,
                             "base": ["", "ABCDEFGH", " lead", "mid dle", "x", "12345678", "a/b*c"]}
                        if t == "C0NN":
                            a["elsize"] = 9 + (n * 7) % 91
                            a["base"] = a["base"] + ["Z" * a["elsize"]]
                        yield {"formatted": formatted, "ix": ix, "perm": n, "arrays": [a]}

    def classify(self, case):
        nontriv = False
        sig = []
        labels = ["fmt" if case["formatted"] else "unfmt", "ix" if case["ix"] else "ecl"]
        for a in case["arrays"]:
            t = a["type"]
            labels.append("type:" + t)
            if t == "MESS":
                sig.append((t,))
                continue
            n = a["n"]
            blk = 105 if t in ("CHAR", "C0NN") else 1000
            cls = "0" if n == 0 else "<blk" if n < blk - 1 else "blk+-1" if (n % blk in (0, 1, blk - 1)) else ">blk"
            ext = False
            if t == "REAL":
                ext = any(b in EXT32 for b in a["base"])
            elif t == "DOUB":
                ext = any(b in EXT64 for b in a["base"])
            elif t == "INTE":
                ext = any(b in (2147483647, -2147483648) for b in a["base"])
            if n > blk or cls == "blk+-1" or (ext and n > 0):
                nontriv = True
            labels.append("len:" + cls)
            sig.append((t, cls, ext, n if n <= 2 * blk + 2 else -1))
        fp = sha([case["formatted"], case["ix"], sorted(map(str, sig))], 16)
        return nontriv, fp, labels

    def sample_view(self, case):
        return {"formatted": case["formatted"], "ix": case["ix"],
                "arrays": [{k: (v if k != "base" else v[:6]) for k, v in a.items()} for a in case["arrays"]]}

    def known_key(self, case, viol):
        return viol.get("key")

    # ---------------------------------------------------------------- oracle
    def check(self, case, ctx):
        P = ctx.P
        fmt, ix = case["formatted"], case["ix"]
        arrs = materialise(case)
        # formatted text cannot carry NaN payloads / must be finite for the byte-equality oracle
        has_nonfinite = False
        for a in arrs:
            if a["type"] == "REAL" and any(not finite32(b) for b in a["data"]):
                has_nonfinite = True
            if a["type"] == "DOUB" and any(not finite64(b) for b in a["data"]):
                has_nonfinite = True
        path = os.path.join(ctx.tmp, "c07.dat")
        P.call("ecl_write", path=path, formatted=fmt, ix=ix, arrays=to_wire(arrs))
        with open(path, "rb") as f:
            lib_bytes = f.read()

        def V(rule, detail, key=None):
            return {"rule": rule, "detail": detail, "key": key}

        # (i) reference decoder on the library's bytes (layout conformance + content)
        try:
            if fmt:
                dec = EC.decode_formatted(lib_bytes)
                true_vals = set()
            else:
                dec, true_vals = EC.decode_unformatted(lib_bytes)
        except EC.CodecError as e:
            return V("layout: reference decoder rejects the bytes written by the library", str(e))
        if not fmt and true_vals and true_vals != {EC.TRUE_IX if ix else EC.TRUE_ECL}:
            return V("layout: LOGI true value", [hex(v) for v in true_vals])
        r = self.compare(arrs, dec, fmt, "reference decoder", from_text=True)
        if r:
            return V(*r)
        # (ii) reference encoder byte equality
        if not (fmt and has_nonfinite):
            mine = EC.encode_formatted(arrs, ix) if fmt else EC.encode_unformatted(arrs, ix)
            if mine != lib_bytes:
                k = next((i for i in range(min(len(mine), len(lib_bytes))) if mine[i] != lib_bytes[i]),
                         min(len(mine), len(lib_bytes)))
                return V("layout: bytes differ from the reference encoder",
                         {"first_diff": k, "lib": repr(lib_bytes[max(0, k - 40):k + 40]),
                          "ref": repr(mine[max(0, k - 40):k + 40]), "len_lib": len(lib_bytes), "len_ref": len(mine)})
        else:
            mine = None
        # (iii) library reader, permuted random access; on its own file and on the reference file
        idx = list(range(len(arrs)))
        p = case["perm"]
        order = []
        while idx:
            order.append(idx.pop(p % len(idx)))
            p //= 3
        for label, content in (("library file", None), ("reference file", mine)):
            rp = path
            if content is not None:
                rp = os.path.join(ctx.tmp, "c07ref.dat")
                with open(rp, "wb") as f:
                    f.write(content)
            elif label == "reference file":
                continue
            try:
                rd = P.call("ecl_read", path=rp, order=order, formatted=fmt)
            except LibError as e:
                key = None
                if fmt and "stod" in str(e):
                    key = "fmt-stod-range"
                return V("round trip: library reader throws on %s" % label, str(e), key)
            got = [None] * len(arrs)
            for (i, data) in rd["data"]:
                got[i] = data
            lst = []
            for i, (name, t, size, els) in enumerate(rd["list"]):
                a = {"name": name, "type": t}
                if t == "C0NN":
                    a["elsize"] = els
                if t != "MESS":
                    d = got[i]
                    if t == "DOUB":
                        d = [dbits(x) for x in d]
                    a["data"] = d
                    if len(d) != size:
                        return V("round trip: getList size != data size", [name, size, len(d)])
                lst.append(a)
            if rd["formatted"] != fmt:
                return V("round trip: formatted flag", rd["formatted"])
            r = self.compare(arrs, lst, fmt, "library reader on " + label, from_text=False)
            if r:
                return V(*r)
        return None

    def compare(self, want, got, fmt, who, from_text):
        if len(want) != len(got):
            return ("%s: number of arrays" % who, [len(want), len(got)])
        for i, (w, g) in enumerate(zip(want, got)):
            if w["name"].ljust(8) != g["name"].ljust(8):
                return ("%s: array name" % who, [i, w["name"], g["name"]])
            if w["type"] != g["type"] or w.get("elsize") != g.get("elsize"):
                return ("%s: array type" % who, [i, w["type"], w.get("elsize"), g["type"], g.get("elsize")])
            if w["type"] == "MESS":
                continue
            wd, gd = w["data"], g["data"]
            if len(wd) != len(gd):
                return ("%s: array length" % who, [i, w["name"], len(wd), len(gd)])
            t = w["type"]
            for j in range(len(wd)):
                a, b = wd[j], gd[j]
                if t in ("CHAR", "C0NN"):
                    ok = a.rstrip(" ") == b.rstrip(" ")
                elif t == "REAL" and fmt:
                    bv = b if from_text else EC.f32(b)
                    ok = close_real(a, bv, not from_text)
                elif t == "DOUB" and fmt:
                    bv = b if from_text else EC.f64(b)
                    ok = close_doub(a, bv)
                else:
                    ok = a == b
                if not ok:
                    key = None
                    return ("%s: element value" % who,
                            {"array": i, "name": w["name"], "type": t, "index": j, "want": a, "got": b, "n": len(wd)})
        return None
