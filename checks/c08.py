"""C08 - unified restart files keep a consistent history under rewinds and crashes."""
import itertools
import os
import struct

from hypothesis import strategies as st

from vlib import eclcodec as EC
from vlib.runner import Check, sha
from vlib.probe import LibError
from checks.c07 import to_wire, dbits

PTYPES = ["INTE", "REAL", "DOUB", "CHAR", "LOGI", "CHARL"]


def payload(step, widx, spec, dup=False):
    """arrays of one report-step write; contents are a function of (step, write index, position)
    so that a stale or misplaced step is recognisable"""
    tag = (step * 1000003 + widx * 7919) & 0x7FFFFFFF
    arrs = [
        {"name": "INTEHEAD", "type": "INTE", "data": [step, widx, tag, -step, 411]},
        {"name": "LOGIHEAD", "type": "LOGI", "data": [(tag >> i) & 1 for i in range(6)]},
        {"name": "DOUBHEAD", "type": "DOUB", "data": [EC.bits64(float(step) + widx / 64.0), EC.bits64(-1.5e-300 * (widx + 1))]},
    ]
    for k, (t, n) in enumerate(spec):
        # (dup: arrays of one step may share a name - one per aquifer, per LGR ... - and are then told apart by occurrence)
        name = ("D_%s" % t[:3]) if dup else ("P%d_%s" % (k, t[:3]))
        if t == "INTE":
            d = [((tag + i * 31 + k) % 2 ** 32) - 2 ** 31 for i in range(n)]
        elif t == "REAL":
            d = [((tag * 2654435761 + i * 40503 + k) & 0x7F7FFFFF) for i in range(n)]
        elif t == "DOUB":
            d = [((tag * 0x9E3779B97F4A7C15 + i * 0x2545F4914F6CDD1D + k) & 0x7FEFFFFFFFFFFFFF) for i in range(n)]
        elif t == "LOGI":
            d = [((tag + i * i + k) >> 2) & 1 for i in range(n)]
        elif t == "CHARL":
            # strings longer than 8 characters: the restart stream stores them as C0nn (nn = longest string); all of one
            # width so that padding is not an issue
            w = CHARL_WIDTHS[(n + k) % len(CHARL_WIDTHS)]
            d = [("S%dW%d_%d" % (step % 100, widx % 100, i % 10)).ljust(w, "x") for i in range(n)]
            if n:
                arrs.append({"name": name, "type": "C0NN", "elsize": w, "data": d})
            else:
                arrs.append({"name": name, "type": "CHAR", "data": d})
            continue
        else:
            d = ["S%dW%d_%d" % (step % 100, widx % 100, i % 10) for i in range(n)]
        arrs.append({"name": name, "type": t, "data": d})
    return arrs


CHARL_WIDTHS = [9, 12, 30, 132, 16]


def wire(arrs):
    """request form: the restart stream has one write() for strings and chooses CHAR / C0nn itself"""
    return to_wire([dict(a, type="CHAR") if a["type"] == "C0NN" else a for a in arrs])


def fnv_array(a):
    h = 1469598103934665603
    M = (1 << 64) - 1

    def feed(bs):
        nonlocal h
        for c in bs:
            h ^= c
            h = (h * 1099511628211) & M

    t = a["type"]
    for v in a.get("data", []):
        if t == "INTE":
            feed(struct.pack(">I", v & 0xFFFFFFFF))
        elif t == "REAL":
            feed(struct.pack(">I", v))
        elif t == "DOUB":
            feed(struct.pack(">Q", v))
        elif t == "LOGI":
            feed(struct.pack(">I", 1 if v else 0))
        else:
            feed(v.rstrip(" ").encode("latin-1"))
            feed(b"\xff\xff\xff\xff")
    return h


def step_arrays(step, widx, spec, bare=False, dup=False):
    """bare: the stream for the report step is opened and closed without any array (only SEQNUM reaches the file) -
    what a run leaves that stops right after starting a step"""
    return [{"name": "SEQNUM", "type": "INTE", "data": [step]}] + ([] if bare else payload(step, widx, spec, dup))


@st.composite
def history_strategy(draw, big):
    formatted = draw(st.booleans())
    L = draw(st.integers(2, 30 if big else 14))
    writes = []
    cur_max = -1
    for w in range(L):
        if cur_max >= 0 and draw(st.integers(0, 9)) < 4:
            s = draw(st.integers(0, cur_max))          # rewind (40 %)
        else:
            s = draw(st.integers(0, 40))
        cur_max = max(cur_max, s)
        nspec = draw(st.integers(0, 3))
        spec = []
        dup = nspec >= 2 and draw(st.integers(0, 2)) == 0
        t0 = draw(st.sampled_from(PTYPES))
        for _ in range(nspec):
            t = t0 if dup else draw(st.sampled_from(PTYPES))
            if t == "CHAR":
                n = draw(st.sampled_from([0, 1, 7, 105, 106, 211]) | st.integers(0, 230))
            elif t == "CHARL":
                # (counts around 105 and around 840 / width, where a block size computed in bytes would break)
                n = draw(st.sampled_from([1, 6, 7, 28, 29, 52, 53, 70, 71, 93, 94, 105, 106, 211]) | st.integers(0, 230))
            else:
                n = draw(st.sampled_from([0, 1, 999, 1000, 1001, 2001]) | st.integers(0, 2600 if big else 1200))
            spec.append([t, n])
        w_ = {"step": s, "spec": spec}
        if dup:
            w_["dup"] = True
        if draw(st.integers(0, 7)) == 0:
            w_ = {"step": s, "spec": [], "bare": True}
        writes.append(w_)
    return {"formatted": formatted, "writes": writes, "trunc": draw(st.integers(0, 3)) == 0 and not formatted}


class C08(Check):
    ID = "C08"
    PROBE_GROUP = "eclio"
    LEVEL = "fault_enumeration"
    RULE = ("Histories of report-step writes through OutputStream::Restart{unified} (each write = new stream object, "
            "SEQNUM + 3 headers + 0..3 payload arrays whose contents encode (step, write index), or - one write in eight - nothing "
            "but SEQNUM: a step that was started and not filled); enumerated: every "
            "history of length <= 4 (quick) / <= 5 (thorough) over steps 0..4 x {formatted, unformatted}; random: "
            "length <= 14/30, steps 0..40, 40 % rewinds, payloads up to 3 blocks.  After EVERY write the file must be "
            "byte-identical to the reference encoding of the surviving steps (model: survivors = {t < s} + {s}) and "
            "ERst must list/return exactly the survivors.  Crash points: selected final unformatted files are truncated "
            "at every byte offset (files <= 6 KB; larger ones at every offset within 40 bytes of a record boundary plus "
            "a stride) and ERst must either raise or return, for each listed step, a prefix of the arrays written with "
            "identical content.  Non-trivial: history with a rewind strictly inside the current range leaving >= 3 "
            "survivors; distinct by (format, step sequence, payload shape)."
            " Extended during the build phase: SEQNUM-only writes, arrays of strings longer than 8 characters (C0nn, widths 9..132, counts around 840/width and 105), steps with several arrays of one name; every array is read through its index AND through (name, step, occurrence).")
    ASSUMPTIONS = ["a crash is modelled as truncation of the file at a byte offset (what a killed writer leaves)",
                   "after truncation at an array boundary the last listed step may hold fewer arrays than were written "
                   "(no reader can know); every array that is returned must be exact",
                   "formatted files are excluded from the crash part, as in the statement"]
    EXAMPLES = {"quick": 40, "thorough": 800}
    MIN_EVALS = {"quick": 1500, "thorough": 9000}
    TIME_CAP = {"quick": 240, "thorough": 1000}
    EXHAUSTIVE = True
    LEVEL_TEXT = ("History part: exhaustive enumeration of all write sequences up to length 4/5 over 5 report steps in both "
                  "formats plus Hypothesis-generated longer histories, judged after every write against a reference model "
                  "of the surviving steps and an independent byte-level encoder. Crash part: fault enumeration - every "
                  "truncation offset of the selected files is tried and the reader must be exact-or-error.")
    LEVEL_NOTE = ("Trusted: the Python reference codec and the survivor model written from the statement. Crash = truncation only "
                  "(no torn/reordered pages).")
    TECHNIQUE = "exhaustive + Hypothesis-generated write/rewind histories against a reference model; exhaustive truncation-offset fault enumeration"

    def strategy(self, tier):
        return history_strategy(big=(tier == "thorough"))

    def enumerate(self, tier):
        maxL = 4 if tier == "quick" else 5
        nth = 0
        for formatted in (False, True):
            for L in range(1, maxL + 1):
                for seq in itertools.product(range(5), repeat=L):
                    nth += 1
                    # truncation scan on a deterministic subset of the unformatted ones
                    every = 23 if tier == "quick" else 3
                    yield {"formatted": formatted,
                           "writes": [{"step": s, "spec": [["INTE", 3]] if (i + s) % 2 else [["CHAR", 2], ["DOUB", 1]]}
                                      for i, s in enumerate(seq)],
                           "trunc": (not formatted) and nth % every == 0}
            # the same sequences with one write that puts nothing but SEQNUM into the file
            for L in range(1, maxL):
                for seq in itertools.product(range(5), repeat=L):
                    for j in range(L):
                        nth += 1
                        yield {"formatted": formatted,
                               "writes": [({"step": s, "spec": [], "bare": True} if i == j else
                                           {"step": s, "spec": [["INTE", 3]] if (i + s) % 2 else [["CHAR", 2], ["DOUB", 1]]})
                                          for i, s in enumerate(seq)],
                               "trunc": (not formatted) and nth % every == 0}

    def classify(self, case):
        steps = [w["step"] for w in case["writes"]]
        surv = []
        inside = False
        for s in steps:
            if surv and s < surv[-1] and len(surv) >= 2 and s > surv[0]:
                inside = True
            surv = [t for t in surv if t < s] + [s]
        rew = any(steps[i] <= max(steps[:i]) for i in range(1, len(steps)))
        labels = ["fmt" if case["formatted"] else "unfmt", "rewind" if rew else "append-only"]
        if any(w.get("bare") for w in case["writes"]):
            labels.append("bare-step")
            for i in range(1, len(steps)):
                if case["writes"][i - 1].get("bare") and steps[i] <= steps[i - 1]:
                    labels.append("rewrite-of-bare-last-step")
                    break
        if case.get("trunc"):
            labels.append("truncation-scan")
        if any(n > 1000 for w in case["writes"] for t, n in w["spec"] if t not in ("CHAR", "CHARL")):
            labels.append("multi-block-payload")
        nontriv = inside and len(surv) >= 3
        if nontriv:
            labels.append("nontrivial")
        return nontriv, sha([case["formatted"], steps, [w["spec"] for w in case["writes"]], [bool(w.get("bare")) for w in case["writes"]]], 16), labels

    def sample_view(self, case):
        return {"formatted": case["formatted"], "steps": [w["step"] for w in case["writes"]],
                "payload_shapes": [("bare" if w.get("bare") else w["spec"]) for w in case["writes"]][:6], "trunc": case.get("trunc")}

    def check(self, case, ctx):
        P = ctx.P
        fmt = case["formatted"]
        d = os.path.join(ctx.tmp, "c08")
        os.makedirs(d, exist_ok=True)
        base = "CASE"
        path = os.path.join(d, base + (".FUNRST" if fmt else ".UNRST"))
        if os.path.exists(path):
            os.unlink(path)
        survivors = []      # list of (step, arrays, bytes)

        def V(rule, detail, key=None):
            return {"rule": rule, "detail": detail, "key": key}

        for widx, w in enumerate(case["writes"]):
            s = w["step"]
            spec = [tuple(x) for x in w["spec"]]
            arrs = step_arrays(s, widx, spec, bool(w.get("bare")), bool(w.get("dup")))
            P.call("rst_write", dir=d, base=base, formatted=fmt, unified=True, seqnum=s,
                   arrays=wire(arrs[1:]))
            enc = EC.encode_formatted(arrs) if fmt else EC.encode_unformatted(arrs)
            survivors = [x for x in survivors if x[0] < s] + [(s, arrs, enc)]
            want = b"".join(x[2] for x in survivors)
            with open(path, "rb") as f:
                got = f.read()
            if got != want:
                # explain in terms of the statement
                try:
                    dec = EC.decode_formatted(got) if fmt else EC.decode_unformatted(got)[0]
                    seq = [a["data"][0] for a in dec if a["name"].strip() == "SEQNUM"]
                except EC.CodecError as e:
                    seq = "undecodable: %s" % e
                return V("history: file differs from a fresh file of the surviving steps",
                         {"after_write": widx, "step": s, "survivors_model": [x[0] for x in survivors],
                          "seqnums_in_file": seq, "len_file": len(got), "len_model": len(want)})
            try:
                rd = P.call("rst_read", path=path, probe_steps=[x[0] for x in survivors] + [s + 1, 41, -1])
            except LibError as e:
                return V("history: ERst cannot open the file", str(e))
            if rd["steps"] != [x[0] for x in survivors]:
                return V("history: ERst lists other steps than the survivors", [rd["steps"], [x[0] for x in survivors]])
            hs = rd["has"]
            expect_has = [True] * len(survivors) + [(s + 1) in [x[0] for x in survivors], 41 in [x[0] for x in survivors], False]
            if hs != expect_has:
                return V("history: hasReportStepNumber", [hs, expect_has])
            for (st_, arrs_, _), content in zip(survivors, rd["content"]):
                if "error" in content:
                    return V("history: ERst fails to list a surviving step", content["error"])
                got_arrs = content["arrays"]
                if len(got_arrs) != len(arrs_):
                    return V("history: number of arrays in step", [st_, len(got_arrs), len(arrs_)])
                for a, g in zip(arrs_, got_arrs):
                    if "error" in g:
                        return V("history: ERst fails to read an array of a surviving step", [st_, a["name"], g["error"]])
                    if g.get("by_occurrence_same") is not True:
                        return V("history: an array read through (name, step, occurrence) differs from the same array read through its index",
                                 {"step": st_, "array": a["name"], "occurrence": g.get("occurrence"), "error": g.get("by_occurrence_error")})
                    gd = g["data"]
                    if a["type"] == "DOUB":
                        gd = [dbits(x) for x in gd]
                    wd = a["data"]
                    if a["type"] == "REAL" and fmt:
                        ok = len(wd) == len(gd) and all(abs(EC.f32(x) - EC.f32(y)) <= 1.2e-7 * abs(EC.f32(x)) + 1e-45 for x, y in zip(wd, gd))
                    elif a["type"] == "DOUB" and fmt:
                        ok = len(wd) == len(gd) and all(abs(EC.f64(x) - EC.f64(y)) <= 5.1e-14 * abs(EC.f64(x)) + 5e-324 for x, y in zip(wd, gd))
                    else:
                        ok = wd == gd
                    if g["name"].strip() != a["name"] or g["type"] != a["type"] or not ok:
                        return V("history: array of a surviving step differs from what was written",
                                 {"step": st_, "array": a["name"], "got_name": g["name"], "want_n": len(wd), "got_n": len(gd)})
        # -------- crash points
        if case.get("trunc") and not fmt:
            size = os.path.getsize(path)
            if size <= 6144:
                offsets = list(range(size))
            else:
                # record boundaries of the reference encoding +-40 bytes, plus a stride
                offs = set(range(0, size, 97))
                pos = 0
                data = open(path, "rb").read()
                while pos < size:
                    (n,) = struct.unpack_from(">i", data, pos)
                    for o in range(max(0, pos - 40), min(size, pos + 41)):
                        offs.add(o)
                    pos += n + 8
                offsets = sorted(offs)
            scan = P.call("rst_trunc_scan", path=path, offsets=offsets)
            ctx.label("truncation-offsets", len(offsets))
            surv_steps = [x[0] for x in survivors]
            byseq = {x[0]: x[1] for x in survivors}
            nerr = 0
            for r in scan["scan"]:
                o = r["o"]
                if "err" in r:
                    nerr += 1
                    continue
                listed = r["steps"]
                seqs = [x[0] for x in listed]
                if seqs != surv_steps[:len(seqs)]:
                    return V("crash: truncated file lists steps that are not a prefix of the written ones",
                             {"offset": o, "listed": seqs, "written": surv_steps})
                for li, (sq, has, arrays) in enumerate(listed):
                    if not has:
                        return V("crash: listed step not reported by hasReportStepNumber", {"offset": o, "step": sq})
                    if arrays and isinstance(arrays[-1], str):
                        continue        # listing that step raised: error is fine
                    wr = byseq[sq]
                    if len(arrays) > len(wr):
                        return V("crash: more arrays than written", {"offset": o, "step": sq})
                    if len(arrays) < len(wr) and li != len(listed) - 1:
                        return V("crash: a step before the last one lost arrays", {"offset": o, "step": sq, "n": len(arrays)})
                    for a, g in zip(wr, arrays):
                        name, t, n, h = g
                        if isinstance(h, str):
                            continue    # reading raised: fine
                        if name.strip() != a["name"] or t != a["type"] or n != len(a["data"]) or h != fnv_array(a):
                            return V("crash: truncated file returns data that differ from what was written",
                                     {"offset": o, "step": sq, "array": a["name"], "got": [name, t, n], "want_n": len(a["data"])},
                                     key=None)
            ctx.label("truncation-rejected-cleanly", nerr)
        return None
