"""C20 - parsing and state construction never crash: a result or an exception.
Engine: libFuzzer + ASan + UBSan (clang), fork mode, structure-aware custom mutator."""
import glob
import hashlib
import json
import os
import re
import shutil
import subprocess
import time

from vlib import build, runner
from vlib.runner import Check

FUZZ = os.path.join(build.HARNESS, "fuzz")
SYMB = "/usr/lib/llvm-14/bin/llvm-symbolizer"

TARGETS = [
    # (label, binary, env, corpus kind)
    ("deck-parse", "fz_deck", {"FZ_STATE": "0"}, "deck"),
    ("deck-state", "fz_deck", {"FZ_STATE": "1"}, "deck"),
    ("result-files", "fz_eclfile", {}, "ecl"),
]


def san_env(extra=None):
    e = dict(os.environ)
    e["ASAN_OPTIONS"] = "detect_leaks=0:abort_on_error=1:symbolize=1:allocator_may_return_null=1:handle_abort=1"
    e["UBSAN_OPTIONS"] = "print_stacktrace=1:halt_on_error=1:symbolize=1"
    e["ASAN_SYMBOLIZER_PATH"] = SYMB
    e["UBSAN_SYMBOLIZER_PATH"] = SYMB
    if extra:
        e.update(extra)
    return e


def make_deck_corpus(d, tier):
    """seeds: shipped decks (<= 12 KB, or their first 8 KB), grammar decks in rewritten layouts
    (with INCLUDE chunks), a few curated complete models"""
    os.makedirs(d, exist_ok=True)
    n = 0
    repo = build.REPO
    for p in sorted(glob.glob(os.path.join(repo, "tests", "*.DATA")) +
                    glob.glob(os.path.join(repo, "tests", "parser", "data", "*", "*.DATA"))[:40]):
        try:
            t = open(p, "rb").read()
        except OSError:
            continue
        if len(t) > 12000:
            cut = t.rfind(b"\n", 0, 8000)
            t = t[:cut + 1]
        for opt in (b"\x03", b"\x02"):
            with open(os.path.join(d, "ship_%03d_%d" % (n, opt[0])), "wb") as f:
                f.write(opt + t)
        n += 1
    # grammar decks (deterministic: Hypothesis with a fixed seed)
    from hypothesis import given, settings, seed, HealthCheck, Phase, strategies as st
    from vlib import deckgen, layout
    cnt = [0]

    @seed(20201)
    @settings(max_examples=80 if tier == "quick" else 400, database=None, deadline=None,
              suppress_health_check=list(HealthCheck), phases=[Phase.generate])
    @given(deckgen.gen_deck(), st.lists(st.integers(0, 65536), min_size=30, max_size=60))
    def g(deck, ints):
        files, root, _ = layout.render(deck, ints)
        blob = files[root]
        for name, txt in files.items():
            if name != root:
                blob += "\x1c" + name + "\n" + txt
        with open(os.path.join(d, "gram_%04d" % cnt[0]), "wb") as f:
            f.write(bytes([cnt[0] % 4]) + blob.encode("latin-1"))
        cnt[0] += 1

    g()
    return n * 2 + cnt[0]


def make_ecl_corpus(d, tier):
    os.makedirs(d, exist_ok=True)
    from vlib import eclcodec as EC
    repo = build.REPO
    n = 0

    def put(name, kind, blob):
        nonlocal n
        with open(os.path.join(d, name), "wb") as f:
            f.write(bytes([kind]) + blob)
        n += 1

    arrs = [{"name": "SEQNUM", "type": "INTE", "data": [1]},
            {"name": "INTEHEAD", "type": "INTE", "data": list(range(20))},
            {"name": "LOGIHEAD", "type": "LOGI", "data": [1, 0, 1]},
            {"name": "DOUBHEAD", "type": "DOUB", "data": [EC.bits64(1.5), EC.bits64(-2.0e-3)]},
            {"name": "ZWEL", "type": "CHAR", "data": ["P1", "INJ", ""]},
            {"name": "PRESSURE", "type": "REAL", "data": [EC.bits32(100.0 + i) for i in range(1200)]},
            {"name": "MSG", "type": "MESS"},
            {"name": "C0", "type": "C0NN", "elsize": 12, "data": ["abc", "0123456789AB"]}]
    put("gen_unf", 0, EC.encode_unformatted(arrs))
    put("gen_fmt", 1, EC.encode_formatted(arrs))
    put("gen_unrst", 2, EC.encode_unformatted(arrs[:6] + [{"name": "SEQNUM", "type": "INTE", "data": [2]}] + arrs[1:4]))
    put("gen_funrst", 3, EC.encode_formatted(arrs[:6]))
    ext_kind = {".EGRID": 4, ".FEGRID": 5, ".UNRST": 2, ".FUNRST": 3, ".RFT": 8, ".INIT": 9, ".FINIT": 1, ".ESMRY": 10}
    for p in sorted(glob.glob(os.path.join(repo, "tests", "*")) + glob.glob(os.path.join(repo, "tests", "*", "*"))):
        ext = os.path.splitext(p)[1].upper()
        try:
            sz = os.path.getsize(p)
        except OSError:
            continue
        if ext in ext_kind and sz <= 150000:
            put("ship_%03d%s" % (n, ext), ext_kind[ext], open(p, "rb").read())
        if ext in (".SMSPEC", ".FSMSPEC"):
            u = p[:-len(ext)] + (".UNSMRY" if ext == ".SMSPEC" else ".FUNSMRY")
            if os.path.exists(u) and sz + os.path.getsize(u) <= 200000:
                put("ship_%03d_smry" % n, 6 if ext == ".SMSPEC" else 7, open(p, "rb").read() + b"\x1c" + open(u, "rb").read())
    return n


def signature(stderr):
    """(kind, first frames inside /repo) from a sanitizer / libFuzzer report"""
    if stderr.startswith("HANG:") or "TIMEOUT >400s" in stderr:
        return "hang|"
    ma = re.search(r"([\w.]+):\d+: ([^\n]*?): Assertion `([^\n]*?)' failed", stderr)
    if ma:
        # a failed assert() looks different under libFuzzer (ASan ABRT report) and under the probe (plain abort):
        # build the signature from the assert message: expression, function, file
        fn = re.sub(r"^(static |virtual |const )*(void|bool|int|double|auto|[\w:<>]+[&*]?) +(?=[\w:]+\()", "", ma.group(2).strip())
        fn = re.split(r"[(<]", fn)[0]
        return "assert:%s|%s@%s" % (ma.group(3)[:60], fn, ma.group(1))
    kind = "unknown"
    m = re.search(r"SUMMARY: (\w+): ([\w-]+)", stderr)
    if m:
        kind = m.group(1) + ":" + m.group(2)
    elif "deadly signal" in stderr:
        kind = "deadly-signal"
    elif "fuzz target exited" in stderr:
        kind = "exit-called"
    elif "uncaught exception" in stderr or "terminate called" in stderr:
        kind = "foreign-exception-or-terminate"
    if "runtime error:" in stderr:
        m2 = re.search(r"runtime error: ([^\n]*)", stderr)
        msg = re.sub(r"0x[0-9a-f]+|-?\d+(\.\d+)?(e[-+]?\d+)?", "N", m2.group(1))
        kind = "UBSan:" + " ".join(msg.split()[:4])
    frames = []
    for m in re.finditer(r"#\d+ 0x[0-9a-f]+ in (.+?) ((?:/repo|" + re.escape(build.REPO) + r")/\S*)", stderr):
        fn = m.group(1)
        fn = re.sub(r"^(void|bool|int|double|auto|unsigned long|std::\S+) ", "", fn)
        fn = re.split(r"[(<]", fn)[0]
        loc = re.sub(r":\d+(:\d+)?$", "", m.group(2))
        fr = fn + "@" + os.path.basename(loc)
        if fr not in frames:
            frames.append(fr)
        if len(frames) >= 2:
            break
    return kind + "|" + "|".join(frames)


READER_FILES = ("ESmry.cpp", "ExtESmry.cpp", "EGrid.cpp", "ERft.cpp", "EInit.cpp", "ERst.cpp", "EclUtil.cpp", "EclFile.cpp", "TimeService.cpp")


def finding_key(label, sig):
    """key under which a crash signature is looked up in known_findings.jsonl.
    Deck side: the call site, i.e. the first frame inside /repo (function@file).
    Result-file side: the readers take counts, indices and sizes from the file without validating them, which
    shows up as dozens of sanitizer kinds per reader; the recorded findings are therefore per reader source file
    (the call site's file), so that a crash in any other file is still reported."""
    parts = sig.split("|")
    if label == "result-files":
        if len(parts) > 1 and "@" in parts[1]:
            f = parts[1].split("@")[-1]
            if f in READER_FILES:
                return "result-file-reader:" + f
        return sig
    # deck side: the call site = first frame inside /repo (one missing validation shows up as assert, overflow, ...)
    if len(parts) > 1 and "@" in parts[1]:
        return "site:" + parts[1]
    return sig


class C20(Check):
    ID = "C20"
    PROBE = None
    ENGINE = "libfuzzer"
    LEVEL = "exploration"
    RULE = ("libFuzzer (clang 14, ASan+UBSan, -fno-sanitize-recover, asserts on) in fork mode over three targets: deck text "
            "through Parser::parseString / root+INCLUDE files through parseFile in four ParseContext modes; the same plus "
            "EclipseState, Schedule, SummaryConfig from every accepted Deck; byte strings opened as EclFile/ERst/EGrid/ESmry/ERft/EInit/ExtESmry "
            "(formatted and unformatted; for unformatted inputs a structure-aware mutator changes one framing field - block length "
            "marker, element count, type string, header length, truncation, array dropped / doubled, extreme payload word).  Seeds: shipped decks, grammar-generated decks in rewritten layouts with INCLUDE "
            "chunks, shipped and generated result files.  Custom mutator: line/record/keyword/token delete-duplicate-swap-replace "
            "from a dictionary of all deck names and tricky tokens, cut-into-include, splice, 20 % plain byte mutations.  Oracle: "
            "the target returns or the API threw std::exception; sanitizer report, signal, assert, foreign exception or exit() is a "
            "crash artifact.  Second line: Hypothesis-generated grammar decks (rewritten layouts, INCLUDE files) and curated complete "
            "models, 0..3 token/line-level mutations from a dictionary, sent to the ASan+UBSan build of the probe (parse, then "
            "EclipseState, Schedule, SummaryConfig).  Third line (result files): files built by the reference encoder (all array types, C0nn "
            "widths 1..99, lengths around the block boundaries) or shipped with the tests, 1..3 single-field mutations of the framing, "
            "opened by every reader in the same probe (checks/c20_ecl.py).  Non-trivial execution: the parser returned a Deck / a reader got past the header (counted in the "
            "target); distinct_nontrivial = coverage-distinct units in the final corpora.")
    ASSUMPTIONS = ["ParseContext actions limited to THROW/WARN/IGNORE (EXIT1 is a deliberate std::exit policy)",
                   "timeout/oom/slow-unit artifacts and 'out-of-memory' on a huge declared size are load / resource exhaustion, counted but not "
                   "violations; a libFuzzer timeout artifact is re-run under a 110 s CPU limit and a probe request that is not answered within "
                   "100 s is put to the plain build (300 s): only what fails there too is a hang",
                   "fuzzing shows presence, never absence"]
    LEVEL_TEXT = ("Coverage-guided, structure-aware fuzzing under address and undefined-behaviour sanitizers; every crash artifact is "
                  "re-run three times and keyed by sanitizer kind + top frames inside /repo before it is reported.")
    LEVEL_NOTE = "Trusted: clang's sanitizers as the memory-safety/UB oracle. Throughput-limited; state construction is deep and slow."
    TECHNIQUE = "coverage-guided fuzzing (libFuzzer, fork mode) with structure-aware mutator under ASan+UBSan"
    BUDGET = {"quick": 60, "thorough": 600}     # seconds; the three campaigns run side by side     # seconds per target

    def binaries(self):
        out = {}
        for name in ("fz_deck", "fz_eclfile"):
            out[name] = build.ensure_single(name, os.path.join(FUZZ, name + ".cpp"), kind="san", fuzzer=True)
        build.ensure_probe("san", "deck")
        build.ensure_probe("plain", "deck")      # answers "hang or only slow under the sanitizer?"
        return out

    def prepare(self, tier):
        self.binaries()

    def run_one(self, exe, path, env):
        r = subprocess.run([exe, path], env=san_env(env), stdout=subprocess.PIPE, stderr=subprocess.STDOUT, timeout=400)
        return r.returncode, r.stdout.decode("latin-1")[-20000:]

    def triage(self, exe, path, env):
        """-> (fails out of 3, signature, stderr); an input that passes the first run is not re-run"""
        fails = 0
        sig = None
        err = ""
        for i in range(3):
            try:
                rc, out = self.run_one(exe, path, env)
            except subprocess.TimeoutExpired:
                rc, out = 1, "TIMEOUT >400s"
            if rc != 0:
                fails += 1
                sig = signature(out)
                err = out
            elif i == 0:
                break
        return fails, sig, err

    def run_custom(self, tier, seed, replay):
        t0 = time.time()
        pid = self.ID
        bins = self.binaries()
        known = runner.load_known(pid)
        knownsigs = {e["key"]: e for e in known if e.get("status") == "known"}
        work = os.path.join(build.BUILD, "c20work")
        shutil.rmtree(work, ignore_errors=True)
        os.makedirs(work)

        if replay and os.path.basename(replay).startswith(("token__", "eclframe__")):
            from checks.c20_token import C20Token
            from checks.c20_ecl import C20Ecl
            case = json.load(open(replay))["case"]
            build.ensure_probe("san", "deck")
            build.ensure_probe("plain", "deck")      # answers "hang or only slow under the sanitizer?"
            fails, v = runner.confirm(C20Token() if os.path.basename(replay).startswith("token__") else C20Ecl(), case, [], 1)
            if fails:
                print("VIOLATION property=%s replay=%s" % (pid, replay))
                print("  signature:", v.get("key"))
                return 1
            print("replay passes: property=%s" % pid)
            return 0
        if replay:
            base = os.path.basename(replay)
            label = base.split("__")[0]
            tgt = next((t for t in TARGETS if t[0] == label), TARGETS[1])
            fails, sig, err = self.triage(bins[tgt[1]], replay, dict(tgt[2], FZ_TMP=work))
            if fails:
                print("VIOLATION property=%s replay=%s" % (pid, replay))
                print("  signature:", sig)
                print(err[-3000:])
                return 1
            print("replay passes: property=%s" % pid)
            return 0

        viols = []
        seen_known = set()
        stats = {"targets": {}}
        total_execs = 0
        nontrivial_execs = 0
        corpus_units = 0
        samples = []
        labels = {}
        regress_n = 0
        # 1. regression inputs (target label is the file name prefix)
        for p in sorted(glob.glob(os.path.join(runner.REGRESS, pid, "*.bin"))):
            label = os.path.basename(p).split("__")[0]
            for tgt in TARGETS:
                if tgt[0] == label:
                    regress_n += 1
                    fails, sig, err = self.triage(bins[tgt[1]], p, dict(tgt[2], FZ_TMP=work))
                    if fails:
                        viols.append((tgt, p, fails, sig, err))
        # 2. campaigns
        corp = {"deck": os.path.join(work, "seed_deck"), "ecl": os.path.join(work, "seed_ecl")}
        nseed = {"deck": make_deck_corpus(corp["deck"], tier), "ecl": make_ecl_corpus(corp["ecl"], tier)}
        budget = int(os.environ.get("VERIF_FUZZ_SECONDS", self.BUDGET[tier]))
        procs = []
        nfork = max(2, int(os.environ.get("VERIF_SHARDS", 16)) // len(TARGETS))
        for ti, (label, binname, env, ckind) in enumerate(TARGETS):
            cdir = os.path.join(work, "corpus_" + label)
            adir = os.path.join(work, "art_" + label) + "/"
            os.makedirs(cdir)
            os.makedirs(adir)
            cnt = os.path.join(work, "cnt_" + label)
            e = san_env(dict(env, FZ_TMP=work, FZ_COUNTERS=cnt))
            cmd = [bins[binname], "-fork=%d" % nfork, "-ignore_crashes=1", "-ignore_timeouts=1", "-ignore_ooms=1",
                   "-max_total_time=%d" % budget, "-seed=%d" % (seed * 100 + ti + 1), "-timeout=60",
                   "-rss_limit_mb=4096", "-malloc_limit_mb=2048", "-max_len=24000", "-artifact_prefix=" + adir,
                   "-print_final_stats=1", cdir, corp[ckind]]
            lf = open(os.path.join(work, "log_" + label), "wb")
            procs.append((subprocess.Popen(cmd, env=e, stdout=lf, stderr=subprocess.STDOUT, cwd=work, start_new_session=True), lf))
        t_end = time.time() + budget + 45        # fork mode waits for straggling jobs (slow units): bound it
        for pr, lf in procs:
            try:
                pr.wait(timeout=max(1, t_end - time.time()))
            except subprocess.TimeoutExpired:
                import signal
                try:
                    os.killpg(pr.pid, signal.SIGKILL)
                except OSError:
                    pass
                pr.wait()
                labels["campaign-stopped-at-budget"] = labels.get("campaign-stopped-at-budget", 0) + 1
            lf.close()
        for ti, (label, binname, env, ckind) in enumerate(TARGETS):
            cdir = os.path.join(work, "corpus_" + label)
            adir = os.path.join(work, "art_" + label) + "/"
            cnt = os.path.join(work, "cnt_" + label)
            log = open(os.path.join(work, "log_" + label), "rb").read().decode("latin-1")
            execs = 0
            nont = 0
            extra = {}
            for f in glob.glob(cnt + ".*"):
                try:
                    c = json.load(open(f))
                except ValueError:
                    continue
                execs += c.get("execs", 0)
                nont += c.get("deck", c.get("opened", 0))
                for k, v in c.items():
                    extra[k] = extra.get(k, 0) + v
            # libFuzzer's own count is authoritative for executions if larger (counters are dumped every 1024 execs)
            m = re.findall(r"#(\d+): cov: (\d+) ft: (\d+) corp: (\d+)", log)
            lf_execs = int(m[-1][0]) if m else 0
            cov = int(m[-1][1]) if m else 0
            units = len(os.listdir(cdir))
            arts = sorted(os.listdir(adir))
            crashes = [a for a in arts if a.startswith("crash-")]
            stats["targets"][label] = {"execs_counted": execs, "execs_libfuzzer": lf_execs, "coverage_edges": cov,
                                       "corpus_units": units, "seed_inputs": nseed[ckind], "counters": extra,
                                       "artifacts": {"crash": len(crashes),
                                                     "timeout": len([a for a in arts if a.startswith("timeout-")]),
                                                     "oom": len([a for a in arts if a.startswith("oom-")]),
                                                     "slow": len([a for a in arts if a.startswith("slow-unit-")])}}
            total_execs += max(execs, lf_execs)
            nontrivial_execs += nont
            corpus_units += units
            labels["target:" + label] = max(execs, lf_execs)
            for u in sorted(os.listdir(cdir))[:2]:
                b = open(os.path.join(cdir, u), "rb").read()[:400]
                samples.append({"target": label, "input_prefix": b.decode("latin-1")})
            # timeout artifacts: a genuine hang burns CPU without ending; load noise does not.  Re-run up to 4 of them
            # with a CPU-time limit (RLIMIT_CPU 110 s): killed by the limit = hang
            import resource
            for a in [x for x in arts if x.startswith("timeout-")][:4]:
                def lim():
                    resource.setrlimit(resource.RLIMIT_CPU, (110, 120))
                try:
                    r = subprocess.run([bins[binname], adir + a], env=san_env(dict(env, FZ_TMP=work)), stdout=subprocess.PIPE,
                                       stderr=subprocess.STDOUT, timeout=1500, preexec_fn=lim)
                    killed = r.returncode in (-24, -9) or r.returncode == 128 + 24       # SIGXCPU / SIGKILL from the limit
                except subprocess.TimeoutExpired:
                    killed = False          # wall clock ran out before 110 CPU seconds: the machine is overloaded, undecided
                if killed:
                    viols.append(((label, binname, env, ckind), adir + a, 3, "hang|", "did not finish within 110 CPU seconds"))
                    break
                labels["timeout-artifacts-finite"] = labels.get("timeout-artifacts-finite", 0) + 1
            # triage crash artifacts, dedup by signature
            sigs = {}
            for a in crashes[:60]:
                fails, sig, err = self.triage(bins[binname], adir + a, dict(env, FZ_TMP=work))
                if fails == 3 and sig not in sigs:
                    sigs[sig] = (adir + a, err)
                elif fails not in (0, 3):
                    labels["flaky-crash-artifacts"] = labels.get("flaky-crash-artifacts", 0) + 1
            for sig, (path, err) in sigs.items():
                viols.append(((label, binname, env, ckind), path, 3, sig, err))
        # 2b. token-mutation part: Hypothesis-generated decks/models, token-level mutations, ASan+UBSan probe
        import multiprocessing as mp
        os.environ["VERIF_NOBUILD"] = "1"
        nsh = int(os.environ.get("VERIF_SHARDS", 16))
        from checks.c20_token import C20Token
        from checks.c20_ecl import C20Ecl
        token_viols = []        # (prefix of the replay file, case, violation)
        token_distinct = 0
        # 2c. frame-mutation part (result files): reference-encoded and shipped files, single-field mutations of the framing
        for modname, clsname, prefix, statkey, tchk in (("checks.c20_token", "C20Token", "token", "token_mutation", C20Token()),
                                                        ("checks.c20_ecl", "C20Ecl", "eclframe", "frame_mutation", C20Ecl())):
            targs = [(modname, clsname, tier, seed, i, nsh, None) for i in range(nsh)]
            with mp.get_context("fork").Pool(nsh) as pool:
                tres = pool.map(runner.run_shard, targs)
            tm = runner.merge(tres)
            terr = [r[3] for r in tres if r[3]]
            if terr:
                print("HARNESS-ERROR property=%s (%s part)\n%s" % (pid, prefix, terr[0]))
                return 2
            for r in tres:
                for item in r[1]:
                    fails, v = runner.confirm(tchk, item["case"], [], 3)
                    if fails == 3:
                        token_viols.append((prefix, item["case"], v))
                    else:
                        labels["flaky-%s-cases" % prefix] = labels.get("flaky-%s-cases" % prefix, 0) + 1
            for k, v in tm["labels"].items():
                labels[k] = labels.get(k, 0) + v
            total_execs += tm["evaluations"]
            nontrivial_execs += sum(v for k, v in tm["labels"].items() if (k.startswith("token:stage:") and not k.endswith("rejected-by-parser"))
                                    or k == "eclframe:opened")
            samples.extend({"target": statkey, "case": s_[1]} for s_ in tm["samples"][:2])
            stats[statkey] = {"evaluations": tm["evaluations"], "distinct": len(tm["fps"]), "time_cap_hit": tm["timed_out"]}
            token_distinct += len(tm["fps"])
        # 3. verdict
        nviol = 0
        rc = 0
        reported = set()
        for e in known:
            if e.get("status") == "known":
                print("KNOWN-FINDING: property=%s %s [%s]" % (pid, e.get("what", ""), e.get("key")))
        outdir = os.path.join(runner.OUT, pid)
        os.makedirs(outdir, exist_ok=True)
        for tgt, path, fails, sig, err in viols:
            if fails != 3:
                labels["flaky-regress"] = labels.get("flaky-regress", 0) + 1
                continue
            if "out-of-memory" in sig or "allocation-size-too-big" in sig:
                labels["oom-artifacts"] = labels.get("oom-artifacts", 0) + 1
                continue        # resource exhaustion on huge declared sizes: counted, not a violation (see ASSUMPTIONS)
            if finding_key(tgt[0], sig) in knownsigs:
                seen_known.add(finding_key(tgt[0], sig))
                labels["known-crash-signatures-seen"] = labels.get("known-crash-signatures-seen", 0) + 1
                continue
            if sig in reported:
                continue
            reported.add(sig)
            h = hashlib.sha256(open(path, "rb").read()).hexdigest()[:12]
            dst = os.path.join(outdir, "%s__%s.bin" % (tgt[0], h))
            shutil.copyfile(path, dst)
            with open(dst + ".txt", "w") as f:
                f.write(sig + "\n\n" + err[-6000:])
            print("VIOLATION property=%s replay=%s" % (pid, dst))
            print("  signature: %s" % sig)
            nviol += 1
            rc = 1
        for prefix, case, v in token_viols:
            sig = v.get("key") or "crash"
            if sig in knownsigs:
                seen_known.add(sig)
                continue
            if sig in reported:
                continue
            reported.add(sig)
            dst = os.path.join(outdir, "%s__%s.json" % (prefix, runner.sha(case)))
            with open(dst, "w") as f:
                json.dump({"property": pid, "case": case, "violation": v}, f, indent=1, default=str)
            print("VIOLATION property=%s replay=%s" % (pid, dst))
            print("  signature: %s" % sig)
            nviol += 1
            rc = 1
        merged = runner.merge([])
        merged.update(evaluations=total_execs, fps=set("u%d" % i for i in range(corpus_units + token_distinct)), labels=labels,
                      samples=[(str(i), s) for i, s in enumerate(samples)], excluded_known=len(seen_known),
                      regress_replayed=regress_n, shards=16)
        extra = dict(stats)
        extra["nontrivial_executions"] = nontrivial_execs
        extra["budget_seconds_per_target"] = budget
        wall = time.time() - t0
        runner.write_evidence(self, tier, seed, merged, wall, nviol, extra)
        if os.environ.get("VERIF_KEEP_WORK") != "1":
            shutil.rmtree(work, ignore_errors=True)
        if rc:
            return 1
        if total_execs < (3000 if tier == "quick" else 20000) or nontrivial_execs < 200:
            print("INCONCLUSIVE property=%s: only %d executions (%d non-trivial)" % (pid, total_execs, nontrivial_execs))
            return 2
        print("OK property=%s tier=%s seed=%d executions=%d nontrivial=%d corpus_units=%d wall=%.0fs" % (
            pid, tier, seed, total_execs, nontrivial_execs, corpus_units, wall))
        return 0
